"""Helpers shared by the defer.py properties C01, C02, C04, C05.

Nothing here imports or runs twisted.  Contents:
  * small AST predicates and guard interpreters (truthiness / zero / None / identity facts
    derived from the atomic tests that dominate a CFG node);
  * path helpers (exception escape, "between" queries);
  * RunShape: the semantic skeleton of Deferred._runCallbacks (pop site, unpack, call-out,
    chain stack, CONTINUE / pause-and-chain / steal branches) located by role, not by name;
  * CallGraph: intra-module call + reference graph of defer.py with a documented
    resolution policy;
  * ICModel: finite-state abstract interpretation of _inlineCallbacks over the product
    (waiting[0] cell, helper pending, final Deferred fired).
"""
from __future__ import annotations

import ast
import contextlib
from collections import deque
from typing import Callable, Dict, Iterable, List, Optional, Set, Tuple

from sa.astx import dotted, src, walk_local
from sa.source import AnalysisError, methods, mro_lookup

DEFER = "internet/defer.py"
Q = "twisted.internet.defer."


# ---------------------------------------------------------------------------------------------
# anchors
# ---------------------------------------------------------------------------------------------

def real_func(ctx, rel: str, qual: str):
    """The implementation among several same-named defs (skips @overload stubs)."""
    fs = ctx.tree.funcs(rel, qual)
    cands = [f for f in fs if not any((dotted(d) or "").split(".")[-1] == "overload" for d in f.decorator_list)]
    if not cands:
        raise AnalysisError(f"anchor vanished: non-overload definition of {rel}:{qual}")
    ctx.functions.add(f"{rel}:{qual}")
    return cands[-1]


@contextlib.contextmanager
def group(ctx, name: str):
    """Independent rule group: an unreadable shape (AnalysisError) or an analyser slip inside is
    recorded on ctx.errors and the other groups still deliver their verdicts (exit 2 only when no
    violation was established anywhere)."""
    try:
        with ctx.section(name):
            yield
    except AnalysisError:
        raise
    except Exception as e:  # noqa: BLE001 - never let one group's slip mask the others
        ctx.errors.append(f"[{name}] analyser slip: {type(e).__name__}: {e}")


# ---------------------------------------------------------------------------------------------
# interprocedural view: private helpers inlined into the analysed function
# ---------------------------------------------------------------------------------------------

# functions the rules identify by name at their call sites: never inlined
ANCHORS = {"_runCallbacks", "_startRunCallbacks", "_continuation", "_cbDeferred", "_parseDeferredListResult", "_failthru",
           "_inlineCallbacks", "_gotResultInlineCallbacks", "_cancellableInlineCallbacks", "_addCancelCallbackToDeferred",
           "_handleCancelInlineCallbacks", "_getDebugTracebacks", "__init__"}


class _NoInline(Exception):
    pass


def clone(node):
    """deep copy of an AST that does not follow the `_parent` back-links the source model adds"""
    if isinstance(node, list):
        return [clone(x) for x in node]
    if not isinstance(node, ast.AST):
        return node
    new = type(node)()
    for f in node._fields:
        if hasattr(node, f):
            setattr(new, f, clone(getattr(node, f)))
    for a in ("lineno", "col_offset", "end_lineno", "end_col_offset"):
        if hasattr(node, a):
            setattr(new, a, getattr(node, a))
    return new


def _simple_expr(e) -> bool:
    while isinstance(e, ast.Attribute):
        e = e.value
    return isinstance(e, (ast.Name, ast.Constant))


def _terminates(stmts) -> bool:
    if not stmts:
        return False
    last = stmts[-1]
    if isinstance(last, (ast.Return, ast.Raise)):
        return True
    if isinstance(last, ast.If):
        return _terminates(last.body) and _terminates(last.orelse)
    return False


def _elim_returns(stmts, target):
    """Rewrite a helper body so that it falls off its end instead of returning: `return v` in tail position becomes
    `target = v` (or disappears); `if c: ...return` followed by more code becomes if/else.  Returns inside loops / try /
    with cannot be rewritten (-> _NoInline)."""
    out = []
    for i, st in enumerate(stmts):
        if isinstance(st, ast.Return):
            if target is not None:
                out.append(ast.copy_location(ast.Assign(targets=[target], value=st.value or ast.Constant(value=None)), st))
            elif st.value is not None and not _simple_expr(st.value):
                out.append(ast.copy_location(ast.Expr(value=st.value), st))
            return out or [ast.copy_location(ast.Pass(), st)]
        if isinstance(st, ast.If):
            rest = stmts[i + 1:]
            body_t, else_t = _terminates(st.body), _terminates(st.orelse)
            has_ret = any(isinstance(x, ast.Return) for x in ast.walk(st))
            if has_ret and rest and (body_t or else_t) and not (body_t and else_t):
                nb = _elim_returns(st.body + ([] if body_t else rest), target)
                ne = _elim_returns((st.orelse or []) + ([] if else_t else rest), target)
                out.append(ast.copy_location(ast.If(test=st.test, body=nb or [ast.Pass()], orelse=ne), st))
                return out
            nb = _elim_returns(st.body, target)
            ne = _elim_returns(st.orelse, target) if st.orelse else []
            out.append(ast.copy_location(ast.If(test=st.test, body=nb or [ast.Pass()], orelse=ne), st))
            if body_t and else_t:
                return out
            if has_ret and not rest:
                continue
            if has_ret:
                raise _NoInline("return in a non-tail branch")
            continue
        if any(isinstance(x, ast.Return) for x in ast.walk(st)) and not isinstance(st, (ast.FunctionDef, ast.AsyncFunctionDef, ast.Lambda)):
            raise _NoInline("return inside a loop / try / with")
        out.append(st)
    return out


class _Subst(ast.NodeTransformer):
    def __init__(self, mapping, rename):
        self.mapping, self.rename = mapping, rename

    def visit_Name(self, node):
        if node.id in self.mapping and isinstance(node.ctx, ast.Load):
            return ast.copy_location(clone(self.mapping[node.id]), node)
        if node.id in self.rename:
            return ast.copy_location(ast.Name(id=self.rename[node.id], ctx=node.ctx), node)
        return node


class Inliner:
    """Replaces calls to private helpers (methods of the same class family called on a simple receiver, or module-level
    `_functions`) by their bodies, so that every path / dominance / effects question is asked on the combined code."""

    def __init__(self, mod, max_depth: int = 3):
        self.mod = mod
        self.max_depth = max_depth
        self.count = 0
        self.inlined: List[str] = []
        self.methods: Dict[str, List[ast.AST]] = {}
        for c in mod.classes():
            for st in c.body:
                if isinstance(st, ast.FunctionDef) and not any((dotted(d) or "").split(".")[-1] in ("overload", "classmethod", "staticmethod", "property")
                                                               for d in st.decorator_list):
                    self.methods.setdefault(st.name, []).append(st)
        self.functions = {st.name: st for st in mod.tree.body if isinstance(st, ast.FunctionDef)}
        self.classes = {st.name: st for st in mod.tree.body if isinstance(st, ast.ClassDef)}
        self.siblings: Dict[str, ast.AST] = {}
        self.unread: List[str] = []       # private helpers / context managers on the way that could not be read as code

    def _callee(self, call: ast.Call):
        f = call.func
        if isinstance(f, ast.Attribute) and f.attr.startswith("_") and f.attr not in ANCHORS and not f.attr.startswith("__") \
                and _simple_expr(f.value) and len(self.methods.get(f.attr, [])) == 1:
            return self.methods[f.attr][0], f.value
        if isinstance(f, ast.Name) and f.id.startswith("_") and f.id not in ANCHORS and f.id in self.functions:
            return self.functions[f.id], None
        if isinstance(f, ast.Name) and f.id in self.siblings:
            return self.siblings[f.id], None       # a local closure of the enclosing function, called directly
        return None, None

    def _expand(self, call: ast.Call, target, depth):
        """statements replacing `target = call` / `call` ; raises _NoInline"""
        helper, recv = self._callee(call)
        if helper is None or depth >= self.max_depth:
            raise _NoInline("not a private helper")
        a = helper.args
        if a.vararg or a.kwarg or a.kwonlyargs or any(isinstance(x, ast.Starred) for x in call.args) or any(k.arg is None for k in call.keywords):
            raise _NoInline("variadic")
        if any(isinstance(x, (ast.FunctionDef, ast.AsyncFunctionDef, ast.Lambda, ast.Yield, ast.YieldFrom, ast.Await, ast.Global, ast.Nonlocal))
               for st in helper.body for x in ast.walk(st)):
            raise _NoInline("nested scope / generator")
        ps = [x.arg for x in list(a.posonlyargs) + list(a.args)]
        defaults = dict(zip(ps[len(ps) - len(a.defaults):], a.defaults))
        actual = {}
        args = list(call.args)
        if recv is not None:
            if not ps:
                raise _NoInline("method without self")
            actual[ps[0]] = recv
            ps_rest = ps[1:]
        else:
            ps_rest = ps
        if len(args) > len(ps_rest):
            raise _NoInline("too many arguments")
        for pn, av in zip(ps_rest, args):
            actual[pn] = av
        for k in call.keywords:
            actual[k.arg] = k.value
        for pn in ps:
            if pn not in actual:
                if pn in defaults:
                    actual[pn] = defaults[pn]
                else:
                    raise _NoInline("missing argument")
        self.count += 1
        tag = f"__i{self.count}"
        body = [st for st in helper.body]
        if body and isinstance(body[0], ast.Expr) and isinstance(body[0].value, ast.Constant) and isinstance(body[0].value.value, str):
            body = body[1:]
        body = clone(body)
        assigned = {x.id for st in body for x in ast.walk(st) if isinstance(x, ast.Name) and isinstance(x.ctx, (ast.Store, ast.Del))}
        pre = []
        mapping = {}
        for pn, av in actual.items():
            if pn in assigned or not _simple_expr(av):
                nm = pn + tag
                pre.append(ast.copy_location(ast.Assign(targets=[ast.Name(id=nm, ctx=ast.Store())], value=clone(av)), call))
                mapping[pn] = ast.Name(id=nm, ctx=ast.Load())
            else:
                mapping[pn] = av
        rename = {n: n + tag for n in assigned}
        for pn in list(mapping):
            if pn in assigned:
                rename[pn] = pn + tag
        body = _elim_returns(body, target)
        sub = _Subst(mapping, rename)
        body = [sub.visit(st) for st in body]
        for st in pre + body:
            for x in ast.walk(st):
                if not hasattr(x, "lineno"):
                    ast.copy_location(x, call)
            ast.fix_missing_locations(st)
        self.inlined.append(helper.name)
        return self._stmts(pre + body, depth + 1) or [ast.copy_location(ast.Pass(), call)]

    def _pure_expr(self, call: ast.Call, depth):
        """expression replacing a call of a helper whose body is a single `return <expr>`"""
        helper, recv = self._callee(call)
        if helper is None or depth >= self.max_depth:
            return None
        body = [st for st in helper.body if not (isinstance(st, ast.Expr) and isinstance(st.value, ast.Constant))]
        if len(body) != 1 or not isinstance(body[0], ast.Return) or body[0].value is None:
            return None
        a = helper.args
        if a.vararg or a.kwarg or a.kwonlyargs or call.keywords or any(isinstance(x, ast.Starred) for x in call.args):
            return None
        ps = [x.arg for x in list(a.posonlyargs) + list(a.args)]
        vals = ([recv] if recv is not None else []) + list(call.args)
        if len(vals) != len(ps) or not all(_simple_expr(v) for v in vals):
            return None
        self.inlined.append(helper.name)
        return ast.copy_location(_Subst(dict(zip(ps, vals)), {}).visit(clone(body[0].value)), call)

    def _exprs(self, node, depth):
        inl = self

        class T(ast.NodeTransformer):
            def visit_Call(self, c):
                self.generic_visit(c)
                r = inl._pure_expr(c, depth)
                return r if r is not None else c

            def visit_FunctionDef(self, n):
                return n

            visit_AsyncFunctionDef = visit_Lambda = visit_FunctionDef
        return T().visit(node)

    def _with_cm(self, st, depth):
        """`with _Private(args): body`  ->  <__enter__ body>; try: body; finally: <__exit__ body>   (None when not applicable)"""
        if len(st.items) != 1 or st.items[0].optional_vars is not None:
            return None
        ce = st.items[0].context_expr
        if not (isinstance(ce, ast.Call) and isinstance(ce.func, ast.Name) and ce.func.id in self.classes and ce.func.id.startswith("_")):
            return None
        cls = self.classes[ce.func.id]
        ms = {m.name: m for m in cls.body if isinstance(m, ast.FunctionDef)}
        if "__enter__" not in ms or "__exit__" not in ms or ce.keywords or any(isinstance(a, ast.Starred) or not _simple_expr(a) for a in ce.args):
            self.unread.append("with " + ce.func.id)
            return None
        fields: Dict[str, ast.AST] = {}
        if "__init__" in ms:
            ips = [a.arg for a in ms["__init__"].args.args][1:]
            if len(ips) != len(ce.args):
                self.unread.append("with " + ce.func.id)
                return None
            amap = dict(zip(ips, ce.args))
            for x in ms["__init__"].body:
                if isinstance(x, ast.Expr) and isinstance(x.value, ast.Constant):
                    continue
                tv = targets_values(x)
                if len(tv) == 1 and attr_of(tv[0][0], tv[0][0].attr if isinstance(tv[0][0], ast.Attribute) else "", "self") and isinstance(tv[0][1], ast.Name) \
                        and tv[0][1].id in amap:
                    fields[tv[0][0].attr] = amap[tv[0][1].id]
                else:
                    self.unread.append("with " + ce.func.id)
                    return None
        elif ce.args:
            self.unread.append("with " + ce.func.id)
            return None

        class F(ast.NodeTransformer):
            def visit_Attribute(self, n):
                self.generic_visit(n)
                if isinstance(n.value, ast.Name) and n.value.id == "self" and n.attr in fields and isinstance(n.ctx, ast.Load):
                    return ast.copy_location(clone(fields[n.attr]), n)
                return n

        def body_of(m):
            b = [x for x in m.body if not (isinstance(x, ast.Expr) and isinstance(x.value, ast.Constant))]
            b = clone(b)
            for x in b:
                for y in ast.walk(x):
                    if isinstance(y, ast.Return) and y.value is not None and not (isinstance(y.value, ast.Constant) and not y.value.value):
                        raise _NoInline("context manager returns a value")
                    if isinstance(y, ast.Name) and y.id == "self" and not (isinstance(getattr(y, "_p", None), ast.Attribute)):
                        pass
            b = [x for x in b if not isinstance(x, ast.Return)]
            b = [F().visit(x) for x in b]
            for x in b:
                if any(isinstance(y, ast.Name) and y.id == "self" for y in ast.walk(x)):
                    raise _NoInline("context manager uses self beyond its fields")
                for y in ast.walk(x):
                    ast.copy_location(y, st) if not hasattr(y, "lineno") else None
                    if hasattr(y, "lineno"):
                        y.lineno = st.lineno
            return b
        try:
            enter, exit_ = body_of(ms["__enter__"]), body_of(ms["__exit__"])
        except _NoInline:
            self.unread.append("with " + ce.func.id)
            return None
        self.inlined.append(ce.func.id)
        tr = ast.copy_location(ast.Try(body=self._stmts(st.body, depth), handlers=[], orelse=[], finalbody=exit_ or [ast.Pass()]), st)
        res = enter + [tr]
        for x in res:
            ast.fix_missing_locations(x)
        return res

    def _sink_selection(self, stmts):
        """`if c: a, b = X, Y  else: a, b = X2, Y2` followed by a statement that is the only reader of a, b
        ->  the statement duplicated into both branches with the selected values substituted (selection through a tuple)"""
        out = list(stmts)
        i = 0
        while i + 1 < len(out):
            st, nxt = out[i], out[i + 1]
            if isinstance(st, ast.If) and st.orelse and st.body and not isinstance(nxt, (ast.If, ast.While, ast.For, ast.Try, ast.With, ast.FunctionDef)):
                def sel(block):
                    last = block[-1]
                    tv = targets_values(last) if isinstance(last, (ast.Assign, ast.AnnAssign)) else []
                    if tv and all(isinstance(t, ast.Name) and v is not None for t, v in tv):
                        return {t.id: v for t, v in tv}
                    return None
                a, b = sel(st.body), sel(st.orelse)
                if a and b and set(a) == set(b):
                    names = set(a)
                    reads_next = {x.id for x in ast.walk(nxt) if isinstance(x, ast.Name) and isinstance(x.ctx, ast.Load)}
                    stores_next = {x.id for x in ast.walk(nxt) if isinstance(x, ast.Name) and isinstance(x.ctx, ast.Store)}
                    only_here = all(self.loads.get(n, 0) == sum(1 for x in ast.walk(nxt) if isinstance(x, ast.Name) and x.id == n and isinstance(x.ctx, ast.Load))
                                    and self.stores.get(n, 0) == 2 for n in names)
                    # the selected values must not be changed by the assignment itself (simultaneous semantics) nor by `nxt` before use
                    safe = all(not ({y.id for v in m.values() for y in ast.walk(v) if isinstance(y, ast.Name)} & names) for m in (a, b))
                    if names <= reads_next and only_here and safe and not (names & stores_next):
                        def branch(block, m):
                            return clone(block[:-1]) + [_Subst({k: v for k, v in m.items()}, {}).visit(clone(nxt))]
                        new_if = ast.copy_location(ast.If(test=st.test, body=branch(st.body, a), orelse=branch(st.orelse, b)), st)
                        ast.fix_missing_locations(new_if)
                        out[i:i + 2] = [new_if]
                        continue
            i += 1
        return out

    def _inline_test_temporaries(self, stmts):
        """`t = <boolean expression>` immediately followed by `if t:` / `if not t:` / `while`-free use, t assigned once and read once
        ->  the expression is tested directly (so that the CFG splits its and/or/not into atomic guards)"""
        out = list(stmts)
        i = 0
        while i + 1 < len(out):
            st, nxt = out[i], out[i + 1]
            tv = targets_values(st) if isinstance(st, (ast.Assign, ast.AnnAssign)) else []
            if len(tv) == 1 and isinstance(tv[0][0], ast.Name) and isinstance(tv[0][1], (ast.BoolOp, ast.Compare, ast.UnaryOp)) and isinstance(nxt, ast.If):
                name = tv[0][0].id
                test = nxt.test
                neg = False
                while isinstance(test, ast.UnaryOp) and isinstance(test.op, ast.Not):
                    test, neg = test.operand, not neg
                if is_name(test, name) and self.stores.get(name, 0) == 1 and self.loads.get(name, 0) == 1:
                    expr = clone(tv[0][1])
                    new_if = clone(nxt)
                    new_if.test = ast.copy_location(ast.UnaryOp(op=ast.Not(), operand=expr), nxt.test) if neg else expr
                    ast.fix_missing_locations(new_if)
                    out[i:i + 2] = [new_if]
                    continue
            i += 1
        return out

    def _stmts(self, stmts, depth):
        out = []
        stmts = self._sink_selection(stmts) if depth == 0 else stmts
        stmts = self._inline_test_temporaries(stmts) if depth == 0 else stmts
        for st in stmts:
            if isinstance(st, (ast.FunctionDef, ast.AsyncFunctionDef, ast.ClassDef)):
                out.append(st)
                continue
            if isinstance(st, ast.With):
                r = self._with_cm(st, depth)
                if r is not None:
                    out.extend(r)
                    continue
            # `targets = X if c else Y`  ->  if c: targets = X  else: targets = Y   (selection by conditional expression)
            if isinstance(st, (ast.Assign, ast.AnnAssign)) and isinstance(st.value, ast.IfExp) and not isinstance(getattr(st, "target", None), ast.Attribute):
                def branch(v):
                    n = clone(st)
                    n.value = v
                    return n
                iff = ast.copy_location(ast.If(test=st.value.test, body=[branch(st.value.body)], orelse=[branch(st.value.orelse)]), st)
                ast.fix_missing_locations(iff)
                out.extend(self._stmts([iff], depth))
                continue
            try:
                if isinstance(st, ast.Expr) and isinstance(st.value, ast.Call):
                    out.extend(self._expand(st.value, None, depth))
                    continue
                if isinstance(st, ast.Assign) and len(st.targets) == 1 and isinstance(st.targets[0], ast.Name) and isinstance(st.value, ast.Call) \
                        and self._pure_expr(st.value, self.max_depth) is None and self._callee(st.value)[0] is not None:
                    out.extend(self._expand(st.value, st.targets[0], depth))
                    continue
                if isinstance(st, ast.Return) and isinstance(st.value, ast.Call) and self._pure_expr(st.value, self.max_depth) is None \
                        and self._callee(st.value)[0] is not None:
                    # `return self._helper(...)`  ->  <helper body, its returns assigning a temporary>; return <temporary>
                    tmp = ast.Name(id=f"_ret__i{self.count + 1}", ctx=ast.Store())
                    body = self._expand(st.value, tmp, depth)
                    ret = ast.copy_location(ast.Return(value=ast.Name(id=tmp.id, ctx=ast.Load())), st)
                    ast.fix_missing_locations(ret)
                    # a helper that falls off its end returns None
                    init = ast.copy_location(ast.Assign(targets=[ast.Name(id=tmp.id, ctx=ast.Store())], value=ast.Constant(value=None)), st)
                    ast.fix_missing_locations(init)
                    out.extend([init] + body + [ret])
                    continue
            except _NoInline as ex:
                c_ = st.value if isinstance(st, (ast.Expr, ast.Assign)) else None
                if isinstance(c_, ast.Call) and self._callee(c_)[0] is not None and "not a private helper" not in str(ex):
                    self.unread.append(src(c_.func))
            for fld in ("body", "orelse", "finalbody"):
                if isinstance(getattr(st, fld, None), list) and getattr(st, fld) and isinstance(getattr(st, fld)[0], ast.stmt):
                    setattr(st, fld, self._stmts(getattr(st, fld), depth))
            for h in getattr(st, "handlers", []) or []:
                h.body = self._stmts(h.body, depth)
            # expressions of this statement (not of nested statements)
            for fld, val in list(ast.iter_fields(st)):
                if isinstance(val, ast.expr):
                    setattr(st, fld, self._exprs(val, depth))
                elif isinstance(val, list) and val and isinstance(val[0], ast.expr):
                    setattr(st, fld, [self._exprs(v, depth) for v in val])
            out.append(st)
        return out

    def _cell_classes(self):
        """module-private state classes that are nothing but a record of constant-initialised fields:
        {class name: [(field, initial constant expr), ...]} - read as the anonymous list cell `[c0, c1, ...]`"""
        out = {}
        for name, cls in self.classes.items():
            if not name.startswith("_"):
                continue
            ms = [m for m in cls.body if isinstance(m, ast.FunctionDef)]
            if [m.name for m in ms] != ["__init__"] or len(ms[0].args.args) != 1 or cls.bases:
                continue
            fields = []
            ok = True
            for st in ms[0].body:
                if isinstance(st, ast.Expr) and isinstance(st.value, ast.Constant):
                    continue
                tv = targets_values(st)
                if len(tv) == 1 and isinstance(tv[0][0], ast.Attribute) and is_name(tv[0][0].value, "self") and isinstance(tv[0][1], ast.Constant):
                    fields.append((tv[0][0].attr, tv[0][1]))
                else:
                    ok = False
            if ok and fields:
                out[name] = fields
        return out

    def _cells(self, f):
        """`w = _Cell()` / parameter `w: _Cell`  +  `w.field`   ->   `w = [c0, c1]`  +  `w[i]`"""
        cells = self._cell_classes()
        if not cells:
            return f
        recv: Dict[str, str] = {}
        a = f.args
        for p_ in list(a.posonlyargs) + list(a.args):
            ann = p_.annotation
            nm = ann.value if isinstance(ann, ast.Constant) and isinstance(ann.value, str) else (dotted(ann) if ann is not None else None)
            if nm in cells:
                recv[p_.arg] = nm
        for st in ast.walk(f):
            if isinstance(st, (ast.Assign, ast.AnnAssign)):
                for t, v in targets_values(st):
                    if isinstance(t, ast.Name) and isinstance(v, ast.Call) and isinstance(v.func, ast.Name) and v.func.id in cells and not v.args and not v.keywords:
                        recv[t.id] = v.func.id
        if not recv:
            return f

        class T(ast.NodeTransformer):
            def visit_Attribute(self, n):
                self.generic_visit(n)
                if isinstance(n.value, ast.Name) and n.value.id in recv:
                    names = [x for x, _ in cells[recv[n.value.id]]]
                    if n.attr in names:
                        return ast.copy_location(ast.Subscript(value=n.value, slice=ast.Constant(value=names.index(n.attr)), ctx=n.ctx), n)
                return n

            def visit_Call(self, n):
                self.generic_visit(n)
                if isinstance(n.func, ast.Name) and n.func.id in cells and not n.args and not n.keywords:
                    return ast.copy_location(ast.List(elts=[clone(c) for _, c in cells[n.func.id]], ctx=ast.Load()), n)
                return n
        g = T().visit(f)
        ast.fix_missing_locations(g)
        self.inlined.extend(sorted(set(recv.values())))
        return g

    def _named_indices(self, f):
        """`cell[_NAME]` with `_NAME = <int>` a module-level constant assigned once  ->  `cell[<int>]`"""
        consts: Dict[str, int] = {}
        seen: Dict[str, int] = {}
        for st in self.mod.tree.body:
            for t, v in (targets_values(st) if isinstance(st, (ast.Assign, ast.AnnAssign)) else []):
                if isinstance(t, ast.Name):
                    seen[t.id] = seen.get(t.id, 0) + 1
                    if isinstance(v, ast.Constant) and isinstance(v.value, int) and not isinstance(v.value, bool):
                        consts[t.id] = v.value
        consts = {k: v for k, v in consts.items() if seen.get(k) == 1}
        if not consts:
            return f
        local = {x.id for x in ast.walk(f) if isinstance(x, ast.Name) and isinstance(x.ctx, ast.Store)} | {a.arg for a in f.args.args}

        class T(ast.NodeTransformer):
            def visit_Subscript(self, n):
                self.generic_visit(n)
                if isinstance(n.slice, ast.Name) and n.slice.id in consts and n.slice.id not in local:
                    n.slice = ast.copy_location(ast.Constant(value=consts[n.slice.id]), n.slice)
                return n
        g = T().visit(f)
        ast.fix_missing_locations(g)
        return g

    def function(self, func):
        f = clone(func)
        self.loads, self.stores = {}, {}
        for x in ast.walk(f):
            if isinstance(x, ast.Name):
                d = self.loads if isinstance(x.ctx, ast.Load) else self.stores
                d[x.id] = d.get(x.id, 0) + 1
        f.body = self._stmts(f.body, 0)
        f = self._cells(f)
        f = self._named_indices(f)
        ast.fix_missing_locations(f)
        return f


def inlined_func(ctx, rel: str, qual: str):
    """``real_func`` with the private helpers it calls inlined (cached per run)."""
    cache = ctx.__dict__.setdefault("_inl_cache", {})
    key = (rel, qual)
    if key not in cache:
        f = real_func(ctx, rel, qual)
        inl = Inliner(ctx.mod(rel))
        if "." in qual:
            parent = ctx.mod(rel).find(qual.rsplit(".", 1)[0])
            if isinstance(parent, (ast.FunctionDef, ast.AsyncFunctionDef)):
                inl.siblings = {st.name: st for st in parent.body if isinstance(st, ast.FunctionDef) and st is not f}
        g = inl.function(f)
        changed = bool(inl.inlined) or src(g) != src(f)
        cache[key] = g if changed else f      # nothing rewritten: keep the original nodes (identity with the call graph's sites)
        ctx.__dict__.setdefault("_unread", {})[key] = sorted(set(inl.unread))
        if inl.inlined:
            ctx.note(f"{qual}: private helpers read as if inlined: {', '.join(sorted(set(inl.inlined)))}")
    return cache[key]


def unread_in(ctx, rel: str, qual: str) -> List[str]:
    """constructs of the function that the normaliser could not read as code (un-inlinable private helper, unknown context manager):
    while this is non-empty, "X is absent" is not a verdict"""
    inlined_func(ctx, rel, qual)
    return ctx.__dict__.get("_unread", {}).get((rel, qual), [])


def root_callers(mod, qual: str, _seen=None) -> Set[str]:
    """For a private helper: the functions (outside the helper family) through which it is reached; for anything else: itself.
    A helper that nobody calls is its own root."""
    name = qual.split(".")[-1]
    if not name.startswith("_") or name.startswith("__") or name in ANCHORS:
        return {qual}
    _seen = _seen or set()
    if qual in _seen:
        return set()
    _seen.add(qual)
    callers = set()
    for q, f in mod.functions():
        if q == qual:
            continue
        for x in ast.walk(f):
            if isinstance(x, ast.Call) and ((isinstance(x.func, ast.Attribute) and x.func.attr == name) or (isinstance(x.func, ast.Name) and x.func.id == name)):
                # the innermost function containing the call
                if mod.qualname(x) == q or mod.qualname(x).startswith(q + ".<lambda>"):
                    callers.add(q)
    if not callers:
        return {qual}
    out = set()
    for c in callers:
        out |= root_callers(mod, c, _seen)
    return out or {qual}


def params(f) -> List[str]:
    a = f.args
    return [x.arg for x in list(a.posonlyargs) + list(a.args)]


# ---------------------------------------------------------------------------------------------
# AST predicates
# ---------------------------------------------------------------------------------------------

def is_name(n, ident: Optional[str] = None) -> bool:
    return isinstance(n, ast.Name) and (ident is None or n.id == ident)


def attr_of(n, attr: str, recv: Optional[str] = None) -> bool:
    """``<recv>.attr`` with a plain-name receiver."""
    return (isinstance(n, ast.Attribute) and n.attr == attr and isinstance(n.value, ast.Name)
            and (recv is None or n.value.id == recv))


def is_const(n, value) -> bool:
    return isinstance(n, ast.Constant) and n.value is value


def sub0(n, base: Optional[str] = None, index: int = 0) -> bool:
    """``base[index]`` with constant index."""
    if not (isinstance(n, ast.Subscript) and isinstance(n.value, ast.Name) and (base is None or n.value.id == base)):
        return False
    return const_int(n.slice) == index


def const_int(n) -> Optional[int]:
    if isinstance(n, ast.Constant) and isinstance(n.value, int) and not isinstance(n.value, bool):
        return n.value
    if isinstance(n, ast.UnaryOp) and isinstance(n.op, ast.USub) and isinstance(n.operand, ast.Constant) \
            and isinstance(n.operand.value, int):
        return -n.operand.value
    return None


def targets_values(st) -> List[Tuple[ast.AST, Optional[ast.AST]]]:
    """Flat (target, value) pairs of an assignment statement.  ``a, b = x, y`` is paired
    element-wise; ``a, b = expr`` gives (a, None), (b, None) [unpacking]."""
    out: List[Tuple[ast.AST, Optional[ast.AST]]] = []
    if isinstance(st, ast.Assign):
        for t in st.targets:
            if isinstance(t, (ast.Tuple, ast.List)):
                if isinstance(st.value, (ast.Tuple, ast.List)) and len(st.value.elts) == len(t.elts):
                    out.extend(zip(t.elts, st.value.elts))
                else:
                    out.extend((e, None) for e in t.elts)
            else:
                out.append((t, st.value))
    elif isinstance(st, ast.AnnAssign) and st.value is not None:
        out.append((st.target, st.value))
    elif isinstance(st, ast.AugAssign):
        out.append((st.target, None))
    return out


def assigns_name(st, name: str) -> bool:
    if isinstance(st, (ast.For, ast.AsyncFor)):
        return any(is_name(x, name) for x in ast.walk(st.target))
    if isinstance(st, ast.ExceptHandler):
        return st.name == name
    return any(is_name(t, name) for t, _ in targets_values(st))


def aliases(f, name: str) -> Set[str]:
    """``name`` plus the locals bound to it by plain copies (``x = name`` / ``x, y = name, z``)."""
    out = {name}
    changed = True
    while changed:
        changed = False
        for st in ast.walk(f):
            if isinstance(st, (ast.Assign, ast.AnnAssign)):
                for t, v in targets_values(st):
                    if isinstance(t, ast.Name) and isinstance(v, ast.Name) and v.id in out and t.id not in out:
                        out.add(t.id)
                        changed = True
    return out


def name_assign_nodes(g, name: str) -> List[int]:
    """CFG nodes that (re)bind the local ``name``."""
    out = []
    for n in g.nodes:
        if n.ast is None or not g.reachable(n.id):
            continue
        if n.kind == "stmt" and assigns_name(n.ast, name):
            out.append(n.id)
        elif n.kind == "for" and assigns_name(n.ast, name):
            out.append(n.id)
        elif n.kind == "handler" and n.ast.name == name:
            out.append(n.id)
        elif n.kind == "with" and any(it.optional_vars is not None and any(is_name(x, name) for x in ast.walk(it.optional_vars))
                                      for it in n.ast.items):
            out.append(n.id)
    return out


def stmt_nodes(g, pred: Callable[[ast.stmt], bool]) -> List[int]:
    return g.ids(lambda n: n.kind == "stmt" and pred(n.ast))


def call_nodes(g, pred: Callable[[ast.Call], bool]) -> List[int]:
    return g.find(lambda x: isinstance(x, ast.Call) and pred(x))


def calls_of(g, nid: int, pred: Callable[[ast.Call], bool]) -> List[ast.Call]:
    n = g.node(nid)
    roots = [n.ast]
    if n.kind == "for":
        roots = [n.ast.iter]
    elif n.kind == "with":
        roots = [it.context_expr for it in n.ast.items]
    return [x for r in roots for x in walk_local(r) if isinstance(x, ast.Call) and pred(x)]


def method_call(c: ast.Call, meth: str, recv: Optional[str] = None) -> bool:
    """``<recv>.meth(...)`` with plain-name receiver."""
    return attr_of(c.func, meth, recv)


def kw(call: ast.Call, name: str) -> Optional[ast.AST]:
    for k in call.keywords:
        if k.arg == name:
            return k.value
    return None


# ---------------------------------------------------------------------------------------------
# guard facts
# ---------------------------------------------------------------------------------------------

def facts(g, n: int) -> List[Tuple[ast.AST, bool]]:
    """[(atomic test expr, outcome)] for the test edges every entry->n path takes."""
    return [(g.node(t).ast, lab == "T") for t, lab in g.edge_guards(n)]


def _bool_fact(e, pol: bool, subj) -> Optional[bool]:
    if subj(e):
        return pol
    if isinstance(e, ast.Compare) and len(e.ops) == 1 and subj(e.left) and isinstance(e.comparators[0], ast.Constant) \
            and isinstance(e.comparators[0].value, bool):
        c = e.comparators[0].value
        if isinstance(e.ops[0], (ast.Is, ast.Eq)):
            return c if pol else (not c)
        if isinstance(e.ops[0], (ast.IsNot, ast.NotEq)):
            return (not c) if pol else c
    return None


def known_bool(g, n: int, subj) -> Optional[bool]:
    """Truth value of the subject expression established by the guards of node n."""
    for e, pol in facts(g, n):
        v = _bool_fact(e, pol, subj)
        if v is not None:
            return v
    return None


def _zero_fact(e, pol: bool, subj) -> Optional[bool]:
    """True: subject known to be 0; False: known non-zero (counter assumed >= 0)."""
    if subj(e):
        return not pol
    if isinstance(e, ast.Compare) and len(e.ops) == 1:
        l, r, op = e.left, e.comparators[0], type(e.ops[0])
        flip = {ast.Lt: ast.Gt, ast.Gt: ast.Lt, ast.LtE: ast.GtE, ast.GtE: ast.LtE}
        if subj(r) and not subj(l):
            l, r, op = r, l, flip.get(op, op)
        if subj(l):
            c = const_int(r)
            if c is None:
                return None
            table = {(ast.Eq, 0): True, (ast.NotEq, 0): False, (ast.Gt, 0): False, (ast.GtE, 1): False,
                     (ast.Lt, 1): True, (ast.LtE, 0): True}
            v = table.get((op, c))
            if v is None:
                return None
            return v if pol else (not v)
    return None


def known_zero(g, n: int, subj) -> Optional[bool]:
    for e, pol in facts(g, n):
        v = _zero_fact(e, pol, subj)
        if v is not None:
            return v
    return None


def _none_fact(e, pol: bool, subj) -> Optional[bool]:
    """True: subject known to be None."""
    if subj(e):
        return None if pol else None  # plain truthiness says nothing certain about None-ness
    if isinstance(e, ast.Compare) and len(e.ops) == 1 and subj(e.left) and is_const(e.comparators[0], None):
        if isinstance(e.ops[0], (ast.Is, ast.Eq)):
            return pol
        if isinstance(e.ops[0], (ast.IsNot, ast.NotEq)):
            return not pol
    return None


def known_none(g, n: int, subj, falsy_is_none: bool = False) -> Optional[bool]:
    for e, pol in facts(g, n):
        v = _none_fact(e, pol, subj)
        if v is None and falsy_is_none and subj(e):
            v = not pol
        if v is not None:
            return v
    return None


def ident_fact(e, pol: bool, a, b) -> Optional[bool]:
    """For ``X is Y`` / ``X is not Y`` / ``==`` / ``!=`` with a(X) and b(Y) (either order):
    True when the guard establishes identity, False when it establishes difference."""
    if isinstance(e, ast.Compare) and len(e.ops) == 1:
        l, r = e.left, e.comparators[0]
        if (a(l) and b(r)) or (a(r) and b(l)):
            if isinstance(e.ops[0], (ast.Is, ast.Eq)):
                return pol
            if isinstance(e.ops[0], (ast.IsNot, ast.NotEq)):
                return not pol
    return None


def known_ident(g, n: int, a, b) -> Optional[bool]:
    for e, pol in facts(g, n):
        v = ident_fact(e, pol, a, b)
        if v is not None:
            return v
    return None


def guarded_by_any(g, n: int, pred, polarity: bool) -> bool:
    """Every entry->n path takes the ``polarity`` edge of at least one atomic test satisfying
    pred (a disjunctive guard such as ``a(x) or b(x)``)."""
    lab = "T" if polarity else "F"
    tests = {t.id for t in g.nodes if t.kind == "test" and pred(t.ast)}
    if not tests:
        return False

    def ok(a, b, l):
        return not (a in tests and l == lab)

    return n not in g.reach([g.entry], edge_ok=ok)


def guarded_by_some_fact(g, n: int, establishes) -> bool:
    """Every entry->n path takes at least one test edge for which ``establishes(test_ast, outcome)``
    is true (disjunctive guards: ``if a or b:``)."""
    def ok(a, b, l):
        if l in ("T", "F") and g.node(a).kind == "test" and establishes(g.node(a).ast, l == "T"):
            return False
        return True
    return n not in g.reach([g.entry], edge_ok=ok)


def deferred_fact(e, pol: bool, subj) -> Optional[bool]:
    """`type(X) in _DEFERRED_SUBCLASSES` / `not in` / `isinstance(X, Deferred)`: True when the edge
    establishes that X is a Deferred, False when it establishes that it is not."""
    if isinstance(e, ast.Compare) and len(e.ops) == 1 and isinstance(e.ops[0], (ast.In, ast.NotIn)) and isinstance(e.left, ast.Call) \
            and dotted(e.left.func) == "type" and len(e.left.args) == 1 and subj(e.left.args[0]) \
            and (dotted(e.comparators[0]) or "").endswith("_DEFERRED_SUBCLASSES"):
        return pol if isinstance(e.ops[0], ast.In) else (not pol)
    if isinstance(e, ast.Call) and dotted(e.func) == "isinstance" and len(e.args) == 2 and subj(e.args[0]) \
            and (dotted(e.args[1]) or "").split(".")[-1] == "Deferred":
        return pol
    return None


# ---------------------------------------------------------------------------------------------
# path helpers
# ---------------------------------------------------------------------------------------------

def no_exc(a, b, l):
    return l != "exc"


def handlers_of(g) -> Set[int]:
    return {h.id for h in g.nodes if h.kind == "handler"}


def exc_escape(g, n: int) -> Optional[List[int]]:
    """Witness path along which an exception raised *by node n* leaves the function without
    being caught by a handler (finally copies are traversed).  Build the CFG with
    exception_is_all=False so that only bare / BaseException handlers are catch-alls."""
    hs = handlers_of(g)
    starts = [d for d, l in g.succ[n] if l in ("exc", "raise")]
    if g.raise_exit in starts:
        return [n, g.raise_exit]
    starts = [s for s in starts if s not in hs]
    if not starts:
        return None
    p = g.path(starts, [g.raise_exit], avoid=hs, edge_ok=no_exc)
    return ([n] + p) if p else None


def catching_handlers(g, n: int) -> Set[int]:
    """Handler nodes an exception raised by node n can enter first."""
    hs = handlers_of(g)
    out = set()
    seen = set()
    dq = deque(d for d, l in g.succ[n] if l in ("exc", "raise"))
    while dq:
        a = dq.popleft()
        if a in seen:
            continue
        seen.add(a)
        if a in hs:
            out.add(a)
            continue
        for b, l in g.succ[a]:
            if l != "exc":
                dq.append(b)
    return out


def handler_catches_all(h: ast.ExceptHandler) -> bool:
    if h.type is None:
        return True
    names = [dotted(e) for e in h.type.elts] if isinstance(h.type, ast.Tuple) else [dotted(h.type)]
    return "BaseException" in names


def handler_names(h: ast.ExceptHandler) -> List[str]:
    if h.type is None:
        return ["<bare>"]
    return [(dotted(e) or "?") for e in (h.type.elts if isinstance(h.type, ast.Tuple) else [h.type])]


def avoiding_path(g, srcs, dsts, avoid, exc=False, strict=True):
    """Witness path srcs -> dsts avoiding ``avoid`` (flag-sensitive, see fpath), or None.
    strict=True: paths *leaving* a src (at least one edge; the src itself is not tested against
    ``avoid``).  strict=False: paths *starting at* a src, the src included."""
    return fpath(g, list(srcs), set(dsts), set(avoid), exc=exc, strict=strict)


def marker_locals(g) -> List[str]:
    """Locals that are assigned a constant / module-level marker at least once and are tested (bare, or compared with a constant /
    marker): the generalisation of a boolean flag (`returned = _NOT_RETURNED ... if returned is not _NOT_RETURNED:`)."""
    stores = {}
    local = set()
    for n in g.nodes:
        if n.ast is None:
            continue
        for x in ast.walk(n.ast):
            if isinstance(x, ast.Name) and isinstance(x.ctx, ast.Store):
                local.add(x.id)
    for n in g.nodes:
        if n.kind == "stmt" and n.ast is not None:
            for t, v in targets_values(n.ast):
                if isinstance(t, ast.Name) and v is not None and (isinstance(v, (ast.Constant, ast.Tuple, ast.List, ast.Dict, ast.Set))
                                                                  or (isinstance(v, (ast.Name, ast.Attribute)) and dotted(v) and dotted(v).split(".")[0] not in local)):
                    stores[t.id] = True
    tested = set()
    for n in g.nodes:
        if n.kind == "test" and n.ast is not None:
            e = n.ast
            if isinstance(e, ast.Name):
                tested.add(e.id)
            elif isinstance(e, ast.Compare) and len(e.ops) == 1 and isinstance(e.ops[0], (ast.Is, ast.IsNot, ast.Eq, ast.NotEq)):
                for x in (e.left, e.comparators[0]):
                    if isinstance(x, ast.Name):
                        tested.add(x.id)
    return sorted(set(stores) & tested)


def bool_locals(g) -> List[str]:
    """Locals of the function that are only ever assigned the constants True / False."""
    vals: Dict[str, bool] = {}
    for n in g.nodes:
        if n.ast is None:
            continue
        if n.kind == "stmt":
            for t, v in targets_values(n.ast):
                if isinstance(t, ast.Name):
                    ok = isinstance(v, ast.Constant) and isinstance(v.value, bool)
                    vals[t.id] = vals.get(t.id, True) and ok
        elif n.kind == "for":
            for x in ast.walk(n.ast.target):
                if isinstance(x, ast.Name):
                    vals[x.id] = False
        elif n.kind == "with":
            for it in n.ast.items:
                for x in (ast.walk(it.optional_vars) if it.optional_vars is not None else ()):
                    if isinstance(x, ast.Name):
                        vals[x.id] = False
        elif n.kind == "handler" and n.ast.name:
            vals[n.ast.name] = False
    return sorted(k for k, ok in vals.items() if ok)


def fpath(g, srcs, dsts, avoid=(), exc: bool = False, strict: bool = True, through=None) -> Optional[List[int]]:
    """Like ``avoiding_path`` but path-sensitive in the function's boolean flag locals
    (``finished = False ... if finished:``): a test on such a flag only follows the edge that
    agrees with the value the flag was last assigned on this very path.
    ``through``: when given, a destination only counts once the path has visited one of these nodes
    (the flag values are carried across, unlike two separate searches)."""
    bools = set(bool_locals(g))
    flags = sorted(bools | set(marker_locals(g)))
    idx = {f: i for i, f in enumerate(flags)}
    avoid, dsts = set(avoid), set(dsts)
    through = set(through) if through is not None else None
    start_val = tuple([None] * len(flags)) + (through is None,)
    local = {x.id for n in g.nodes if n.ast is not None for x in ast.walk(n.ast) if isinstance(x, ast.Name) and isinstance(x.ctx, ast.Store)}

    def absv(v):
        """True/False, ("k", const), ("n", marker name), "OTHER"; None = unknown"""
        if isinstance(v, ast.Constant):
            return v.value if isinstance(v.value, bool) else ("k", v.value)
        if isinstance(v, (ast.Tuple, ast.List, ast.Set)):
            return ("k", ()) if not v.elts else ("k", "non-empty")      # `returned = ()` ... `returned = (value,)` ... `if returned:`
        if isinstance(v, ast.Dict):
            return ("k", ()) if not v.keys else ("k", "non-empty")
        if isinstance(v, (ast.Name, ast.Attribute)) and dotted(v) and dotted(v).split(".")[0] not in local:
            return ("n", dotted(v).split(".")[-1])
        return "OTHER"

    def step_val(nid, val):
        n = g.node(nid)
        if n.kind == "stmt" and flags:
            for t, v in targets_values(n.ast):
                if isinstance(t, ast.Name) and t.id in idx:
                    val = val[:idx[t.id]] + ((absv(v) if v is not None else "OTHER"),) + val[idx[t.id] + 1:]
        elif n.kind == "handler" and n.ast.name in idx:
            val = val[:idx[n.ast.name]] + ("OTHER",) + val[idx[n.ast.name] + 1:]
        return val

    def decide(e, val):
        """outcome of an atomic test under the tracked values, or None"""
        def truth(c):
            if c is True or c is False:
                return c
            if isinstance(c, tuple):
                return bool(c[1]) if c[0] == "k" else True
            return None
        if isinstance(e, ast.Name) and e.id in idx:
            return truth(val[idx[e.id]])
        if isinstance(e, ast.Compare) and len(e.ops) == 1 and isinstance(e.ops[0], (ast.Is, ast.IsNot, ast.Eq, ast.NotEq)):
            l, r = e.left, e.comparators[0]
            if isinstance(r, ast.Name) and r.id in idx and not (isinstance(l, ast.Name) and l.id in idx):
                l, r = r, l
            if isinstance(l, ast.Name) and l.id in idx:
                c, k = val[idx[l.id]], absv(r)
                if c is None or k == "OTHER":
                    return None
                if c == "OTHER":
                    same = False if (isinstance(k, tuple) and k[0] == "n") else None    # an ordinary value is never a private marker
                else:
                    same = (c == k)
                if same is None:
                    return None
                return same if isinstance(e.ops[0], (ast.Is, ast.Eq)) else not same
        return None

    prev: Dict[Tuple[int, tuple], Optional[Tuple[int, tuple]]] = {}
    dq = deque()
    for s in srcs:
        if not strict and s in dsts:
            return [s]
        if not strict and s in avoid:
            continue  # inclusive start: the path already passes an `avoid` node
        k = (s, start_val[:-1] + (True,)) if (through is not None and s in through) else (s, start_val)
        if k not in prev:
            prev[k] = None
            dq.append(k)
    while dq:
        a, val = dq.popleft()
        out_val = step_val(a, val)
        na = g.node(a)
        for b, l in g.succ[a]:
            if not exc and l == "exc":
                continue
            nv = out_val
            if na.kind == "test" and l in ("T", "F") and flags:
                d_ = decide(na.ast, out_val)
                if d_ is not None and d_ != (l == "T"):
                    continue
                if d_ is None and isinstance(na.ast, ast.Name) and na.ast.id in idx and na.ast.id in bools:
                    nv = out_val[:idx[na.ast.id]] + ((l == "T"),) + out_val[idx[na.ast.id] + 1:]
            if through is not None and b in through:
                nv = nv[:-1] + (True,)
            if b in dsts and nv[-1]:
                out = [b, a]
                k = (a, val)
                while prev[k] is not None:
                    k = prev[k]
                    out.append(k[0])
                return list(reversed(out))
            if b in avoid:
                continue
            k = (b, nv)
            if k in prev:
                continue
            prev[k] = (a, val)
            dq.append(k)
    return None


def passes_between(g, a: Iterable[int], mid: Iterable[int], b: Iterable[int], stop: Iterable[int] = ()) -> bool:
    """Is there a path a -> m -> b (m in mid), none of whose inner nodes is in ``stop``?"""
    a, mid, b, stop = list(a), list(mid), set(b), set(stop)
    for m in mid:
        if g.path(a, [m], avoid=stop, edge_ok=no_exc, strict=True) is not None or m in a:
            if g.path([m], b, avoid=stop, edge_ok=no_exc, strict=True) is not None:
                return True
    return False


def succ_on(g, tests: Iterable[int], label: str) -> List[int]:
    return [d for t in tests for d, l in g.succ[t] if l == label]


# ---------------------------------------------------------------------------------------------
# Deferred._runCallbacks skeleton
# ---------------------------------------------------------------------------------------------

class RunShape:
    """Roles inside Deferred._runCallbacks, recognised semantically:

    cur      local holding the Deferred whose ``callbacks`` are consumed
    pops     CFG nodes consuming ``cur.callbacks`` (any pop kind; the *kind* is judged by a rule)
    item     local receiving the popped pair
    unpacks  nodes ``cb, a, kw = item[k]`` -> (node, k)
    cb/a/kw  locals of the unpacked triple
    callouts nodes calling ``cb(...)``  (the opaque user callback)
    chain    local list used as the explicit stack (``cur = chain[i]``)
    binds    nodes binding ``cur`` from the chain
    """

    def __init__(self, ctx):
        self.ctx = ctx
        self.f = inlined_func(ctx, DEFER, "Deferred._runCallbacks")
        self.unread = unread_in(ctx, DEFER, "Deferred._runCallbacks")
        if self.unread:
            raise AnalysisError("Deferred._runCallbacks is not fully read (" + ", ".join(self.unread) + "): no absence-based verdict is given for it")
        self.g = ctx.cfg(self.f, exception_is_all=False)
        self.q = Q + "Deferred._runCallbacks"
        g = self.g
        # consumption sites of <X>.callbacks: pop()/popleft() [kind pop], `item = X.callbacks[k]` [peek],
        # `for item in X.callbacks` [iter].  Which kind is acceptable is judged by C01's queue rules.
        self.pops: List[int] = []
        self.pop_kind: Dict[int, str] = {}
        self.cur: Optional[str] = None
        self.item: Optional[str] = None
        self.pop_calls: Dict[int, ast.Call] = {}
        is_pop = lambda c: isinstance(c.func, ast.Attribute) and c.func.attr in ("pop", "popleft") and attr_of(c.func.value, "callbacks")
        for n in g.nodes:
            if not g.reachable(n.id) or n.ast is None:
                continue
            if n.kind == "stmt":
                for c in calls_of(g, n.id, is_pop):
                    self.pops.append(n.id)
                    self.pop_kind[n.id] = "pop"
                    self.pop_calls[n.id] = c
                    self.cur = c.func.value.value.id
                    tv = targets_values(n.ast)
                    if tv and is_name(tv[0][0]) and tv[0][1] is c:
                        self.item = tv[0][0].id
                for t, v in targets_values(n.ast):
                    if isinstance(t, ast.Name) and isinstance(v, ast.Subscript) and attr_of(v.value, "callbacks") and n.id not in self.pops:
                        self.pops.append(n.id)
                        self.pop_kind[n.id] = "peek"
                        self.cur = self.cur or v.value.value.id
                        self.item = self.item or t.id
            elif n.kind == "for" and isinstance(n.ast.target, ast.Name) and _iter_over_callbacks(n.ast.iter) is not None:
                self.pops.append(n.id)
                self.pop_kind[n.id] = "iter"
                self.cur = self.cur or _iter_over_callbacks(n.ast.iter)
                self.item = self.item or n.ast.target.id
        ctx.need(self.pops, "any consumption of <d>.callbacks in Deferred._runCallbacks")
        # unpack: `cb, a, kw = <item>[k]` (or directly from the pop call); k constant, a conditional
        # expression or the failure test itself (judged by the slot-selection rule)
        self.unpacks: List[Tuple[int, object]] = []
        self.cb = self.a = self.kw = None
        for n in g.nodes:
            if n.kind == "stmt" and g.reachable(n.id) and isinstance(n.ast, ast.Assign) and len(n.ast.targets) == 1 \
                    and isinstance(n.ast.targets[0], ast.Tuple) and len(n.ast.targets[0].elts) == 3 \
                    and isinstance(n.ast.value, ast.Subscript):
                base = n.ast.value.value
                if not ((self.item and is_name(base, self.item)) or (isinstance(base, ast.Call) and is_pop(base))):
                    continue
                sl = n.ast.value.slice
                k = const_int(sl)
                if k is None and isinstance(sl, (ast.IfExp, ast.Call, ast.UnaryOp, ast.Compare)):
                    k = sl
                names = [e.id if isinstance(e, ast.Name) else None for e in n.ast.targets[0].elts]
                if k is None or None in names:
                    continue
                self.unpacks.append((n.id, k))
                self.cb, self.a, self.kw = names
        if not self.unpacks and self.item:
            slots = {}
            for n in g.nodes:
                if n.kind == "stmt" and g.reachable(n.id):
                    for t, v in targets_values(n.ast):
                        if isinstance(t, ast.Name) and isinstance(v, ast.Subscript) and is_name(v.value, self.item):
                            slots.setdefault(t.id, []).append((n.id, const_int(v.slice) if const_int(v.slice) is not None else v.slice))
            used = None
            for n in g.nodes:
                if n.kind == "stmt" and g.reachable(n.id) and isinstance(n.ast, ast.Assign) and len(n.ast.targets) == 1 \
                        and isinstance(n.ast.targets[0], ast.Tuple) and len(n.ast.targets[0].elts) == 3 and isinstance(n.ast.value, ast.Name) \
                        and n.ast.value.id in slots and all(isinstance(e, ast.Name) for e in n.ast.targets[0].elts):
                    self.cb, self.a, self.kw = [e.id for e in n.ast.targets[0].elts]
                    used = n.ast.value.id
            if used:
                self.unpacks = sorted(slots[used], key=lambda x: x[0])   # the slot choice is made where item[k] is read
        ctx.need(self.unpacks, "unpacking `callback, args, kwargs = item[k]` in Deferred._runCallbacks")
        self.callouts: List[int] = call_nodes(g, lambda c: is_name(c.func, self.cb))
        ctx.need(self.callouts, "the user callback call-out in Deferred._runCallbacks")
        # chain stack (optional: its absence is a finding of C02, not an unreadable shape)
        self.chain: Optional[str] = None
        self.binds: List[int] = []
        self.bind_index: Dict[int, Optional[int]] = {}
        for n in g.nodes:
            if n.kind == "stmt" and g.reachable(n.id):
                for t, v in targets_values(n.ast):
                    if is_name(t, self.cur) and isinstance(v, ast.Subscript) and isinstance(v.value, ast.Name):
                        self.chain = v.value.id
                        self.binds.append(n.id)
                        self.bind_index[n.id] = const_int(v.slice)
                    elif is_name(t, self.cur) and isinstance(v, ast.Call) and isinstance(v.func, ast.Attribute) and v.func.attr == "pop" \
                            and isinstance(v.func.value, ast.Name):
                        self.chain = v.func.value.id
                        self.binds.append(n.id)
                        self.bind_index[n.id] = -1 if (not v.args or const_int(v.args[0]) == -1) else const_int(v.args[0])
        # every (re)definition of the current-Deferred variable counts as a re-bind for the "until the next round" rules
        peek_binds = list(self.binds)
        self.peek_binds = peek_binds
        self.binds = sorted(set(self.binds) | set(name_assign_nodes(g, self.cur)))
        # CONTINUE tests
        self.cont_tests: List[int] = [n.id for n in g.nodes if n.kind == "test" and g.reachable(n.id) and self._cont_fact(n.ast, True) is not None]
        # chainee: local bound from <a>[0]
        self.chainee: Optional[str] = None
        self.chainee_binds: List[int] = []
        for n in g.nodes:
            if n.kind == "stmt" and g.reachable(n.id):
                for t, v in targets_values(n.ast):
                    if isinstance(t, ast.Name) and v is not None and sub0(v, self.a, 0):
                        self.chainee = t.id
                        self.chainee_binds.append(n.id)
        # named temporaries holding <cur>.result: `x = cur.result`, or co-assigned with it (`x = cur.result = callback(...)`);
        # kept only while fresh: no other store to <cur>.result between the definition and any use of the temporary
        writes = [n.id for n in g.nodes if n.kind == "stmt" and g.reachable(n.id) and any(attr_of(t, "result", self.cur) for t, _ in targets_values(n.ast))]
        cand: Dict[str, List[int]] = {}
        for n in g.nodes:
            if n.kind == "stmt" and g.reachable(n.id):
                tv = targets_values(n.ast)
                co = any(attr_of(t, "result", self.cur) for t, _ in tv)
                for t, v in tv:
                    if isinstance(t, ast.Name) and v is not None and (attr_of(v, "result", self.cur) or (co and isinstance(n.ast, ast.Assign) and len(n.ast.targets) > 1)):
                        cand.setdefault(t.id, []).append(n.id)
        self.cur_val: Set[str] = set()
        for name, defs in cand.items():
            if set(name_assign_nodes(g, name)) != set(defs):
                continue
            uses = [u.id for u in g.nodes if u.ast is not None and u.kind in ("stmt", "test") and g.reachable(u.id) and u.id not in defs
                    and any(isinstance(x, ast.Name) and x.id == name and isinstance(x.ctx, ast.Load) for x in ast.walk(u.ast))]
            stale = any(c not in defs and g.path(defs, [c], avoid=set(defs), edge_ok=no_exc, strict=True) is not None
                        and g.path([c], uses, avoid=set(defs), edge_ok=no_exc, strict=True) is not None for c in writes)
            if not stale:
                self.cur_val.add(name)
        # returned-Deferred alias: local bound from <cur>.result (or from a fresh temporary holding it)
        self.res_alias: Set[str] = set(self.cur_val)
        for _ in range(2):
            for n in g.nodes:
                if n.kind == "stmt" and g.reachable(n.id):
                    for t, v in targets_values(n.ast):
                        if isinstance(t, ast.Name) and v is not None and (attr_of(v, "result", self.cur) or (isinstance(v, ast.Name) and v.id in self.res_alias)):
                            self.res_alias.add(t.id)
        # registration of a continuation on the returned Deferred
        self.regs: List[int] = call_nodes(g, self._is_reg)
        # value taken from the returned Deferred: V = getattr(Y, "result", ...) | Y.result
        self.stolen: Set[str] = set()
        for n in g.nodes:
            if n.kind == "stmt" and g.reachable(n.id):
                for t, v in targets_values(n.ast):
                    if isinstance(t, ast.Name) and v is not None and self._reads_inner_result(v):
                        self.stolen.add(t.id)
        self.steals: List[int] = stmt_nodes(g, lambda st: any(attr_of(t, "result", self.cur) and is_name(v) and v.id in self.stolen
                                                              for t, v in targets_values(st) if v is not None))

    # -- role predicates ----------------------------------------------------------------------
    def is_cur_result(self, e) -> bool:
        """expression denoting the current result of the current Deferred: `<cur>.result` or a fresh temporary holding it"""
        return attr_of(e, "result", self.cur) or (isinstance(e, ast.Name) and e.id in self.cur_val)

    def is_inner(self, e) -> bool:
        """expression denoting the Deferred returned by the callback"""
        return (isinstance(e, ast.Name) and e.id in self.res_alias) or attr_of(e, "result", self.cur)

    def _reads_inner_result(self, v) -> bool:
        if isinstance(v, ast.Call) and dotted(v.func) == "getattr" and len(v.args) >= 2 and self.is_inner(v.args[0]) \
                and is_const_str(v.args[1], "result"):
            return True
        return isinstance(v, ast.Attribute) and v.attr == "result" and self.is_inner(v.value)

    def _resumer_methods(self) -> Set[str]:
        """methods of Deferred of the form `def m(self, r): self.result = r; self.unpause()` - a continuation as an ordinary callback"""
        if getattr(self, "_resumers", None) is None:
            out = set()
            cls = self.ctx.mod(DEFER).find("Deferred")
            for m in (cls.body if isinstance(cls, ast.ClassDef) else []):
                if isinstance(m, ast.FunctionDef) and len(m.args.args) == 2:
                    p = m.args.args[1].arg
                    stores = any(isinstance(st, ast.Assign) and any(attr_of(t, "result", "self") and is_name(v, p) for t, v in targets_values(st)) for st in ast.walk(m))
                    unp = any(isinstance(x, ast.Call) and method_call(x, "unpause", "self") for x in ast.walk(m))
                    if stores and unp:
                        out.add(m.name)
            self._resumers = out
        return self._resumers

    def reg_is_api(self, c: ast.Call) -> bool:
        """`<inner>.addBoth(<cur>.<resumer>)`: waiting arranged through the public API (same results and per-Deferred order; re-entrant - a C02 matter)"""
        if not (isinstance(c.func, ast.Attribute) and c.func.attr in ("addBoth", "addCallbacks") and c.args):
            return False
        fns = c.args[:1] if c.func.attr == "addBoth" else c.args[:2]
        return len(fns) == (1 if c.func.attr == "addBoth" else 2) and all(
            isinstance(a, ast.Attribute) and is_name(a.value, self.cur) and a.attr in self._resumer_methods() for a in fns)

    def _is_reg(self, c: ast.Call) -> bool:
        if self.reg_is_api(c):
            return True
        if not (isinstance(c.func, ast.Attribute) and c.func.attr in ("append", "appendleft", "insert", "extend")):
            return False
        tgt = c.func.value
        if not (isinstance(tgt, ast.Attribute) and tgt.attr == "callbacks"):
            return False
        return any(isinstance(x, ast.Call) and isinstance(x.func, ast.Attribute) and x.func.attr == "_continuation"
                   for a in c.args for x in ast.walk(a))

    def _cont_fact(self, e, pol) -> Optional[bool]:
        return ident_fact(e, pol, lambda x: is_name(x, self.cb),
                          lambda x: (dotted(x) or "").split(".")[-1] == "_CONTINUE")

    def is_continue(self, n: int) -> Optional[bool]:
        for e, pol in facts(self.g, n):
            v = self._cont_fact(e, pol)
            if v is not None:
                return v
        return None


def _iter_over_callbacks(it) -> Optional[str]:
    """receiver name when a for-loop iterates `X.callbacks` (possibly through list()/tuple()/iter()/reversed())"""
    while isinstance(it, ast.Call) and dotted(it.func) in ("list", "tuple", "iter", "reversed", "sorted") and it.args:
        it = it.args[0]
    return it.value.id if attr_of(it, "callbacks") else None


class ChainWalk:
    """Symbolic walk of one round of the outer loop of Deferred._runCallbacks.

    The *logical* chain stack L is what matters: the explicit list plus - when the current Deferred is kept in a variable of its
    own rather than on top of the list - that variable.  Starting a round with L = (…, C) the walk follows every path (locals
    holding True/False/None/one of the symbols are tracked, so `finished` flags, Optional `resumed` locals and while/else are read by
    meaning) to the next round or to the function's exit and records what L has become:

      kind "handover"  (the _CONTINUE marker was met, waiting Deferred W):   L must be (…, C, W)
      kind "chained"   (a continuation was registered on a returned Deferred): L must be (…, B)   - C retired, B from below
      kind "exhausted" (the callbacks ran out):                               L must be (…, B) or the walk ends with L empty
    """

    MUT = ("append", "pop", "insert", "remove", "clear", "extend", "reverse", "sort", "popleft", "appendleft")

    def __init__(self, S: "RunShape"):
        self.S, self.g, self.f = S, S.g, S.f
        g = self.g
        self.cur = S.cur
        lists = {}
        for n in g.nodes:
            if n.kind == "stmt" and g.reachable(n.id):
                for t, v in targets_values(n.ast):
                    if isinstance(t, ast.Name) and isinstance(v, ast.List):
                        lists.setdefault(t.id, []).append(n.id)
        used = {x.func.value.id for x in ast.walk(self.f) if isinstance(x, ast.Call) and isinstance(x.func, ast.Attribute)
                and isinstance(x.func.value, ast.Name) and x.func.attr in ("append", "pop")}
        cands = sorted(set(lists) & used)
        self.stack_var: Optional[str] = cands[0] if len(cands) == 1 else None
        self.ambiguous = len(cands) > 1
        self.transitions: List[Tuple[str, tuple, Optional[str], bool, List[int]]] = []   # (kind, L', cur', at_exit, path)
        self.queued: List[bool] = []      # per transition: did the waiting Deferred become a work item of the loop (anywhere in the worklist)?
        self.lifo_bad: List[int] = []
        self.checkpoint: Optional[int] = None
        self.mode: Optional[str] = None
        if self.stack_var is None:
            return
        # outermost `while` containing the consumption
        whiles = [w for w in ast.walk(self.f) if isinstance(w, ast.While)]
        pop_asts = [g.node(p).ast for p in S.pops]
        outer = [w for w in whiles if any(any(x is pa for x in ast.walk(w)) for pa in pop_asts)]
        outer = [w for w in outer if not any(w is not o and any(x is w for x in ast.walk(o)) for o in outer)]
        joins = [n.id for n in g.nodes if n.kind == "join" and n.note == "while" and outer and n.ast is outer[0] and g.reachable(n.id)]
        if not joins:
            return
        self.checkpoint = joins[0]
        self.inner_tests = {t.id for t in g.nodes if t.kind == "test" and any(attr_of(x, "callbacks", self.cur) for x in ast.walk(t.ast))}
        # where a round begins by role: the tests a round starts with - is the current Deferred paused? has it callbacks? -
        # so that a hand-over which makes the waiting Deferred the loop's next work item *without* going round the outer loop
        # (cursor re-pointed, inner loop continued) is judged at that point
        self.round_starts = set(self.inner_tests) | {t.id for t in g.nodes if t.kind == "test" and g.reachable(t.id)
                                                      and any(attr_of(x, "paused", self.cur) for x in ast.walk(t.ast))}
        # phase 1: from the entry to the first arrival at the checkpoint -> how is the current Deferred kept?
        first = self._explore(g.entry, ((), frozenset(), False, False, False, False), stop_at_start=False)
        modes = set()
        for kind, phys, env, at_exit, path in first:
            if at_exit:
                continue
            cur = dict(env).get(self.cur)
            modes.add("separate" if (cur is not None and (not phys or phys[-1] != cur)) else "peek")
        if len(modes) != 1:
            return
        self.mode = modes.pop()
        start_phys = ("…", "C") if self.mode == "peek" else ("…",)
        start_env = frozenset() if self.mode == "peek" else frozenset({(self.cur, "C")})
        for kind, phys, env, at_exit, path in self._explore(self.checkpoint, (start_phys, start_env, False, False, False, False), stop_at_start=True):
            cur = dict(env).get(self.cur)
            L = phys if self.mode == "peek" else (phys + ((cur,) if not at_exit else ()))
            self.transitions.append((kind, L, cur, at_exit, path))
            self.queued.append(bool(dict(env).get("#W")) or "W" in L or cur == "W")

    # -- symbolic evaluation ---------------------------------------------------------------------
    def _materialise(self, phys, fresh):
        if phys and phys[-1] == "…":
            return phys + (f"B{fresh}",), fresh + 1
        return phys, fresh

    def _explore(self, start, state0, stop_at_start):
        g = self.g
        results = []
        seen = set()
        prev = {}
        dq = deque([(start, state0, 0)])
        seen.add((start, state0))
        prev[(start, state0)] = None

        def path_to(key):
            out = []
            while key is not None:
                out.append(key[0])
                key = prev[key]
            return list(reversed(out))
        while dq:
            nid, st, fresh = dq.popleft()
            phys, envf, hand, chained, inner, exh = st
            env = dict(envf)
            node = g.node(nid)
            if hand and env.get(self.cur) == "W" and nid in getattr(self, "round_starts", ()) and nid != start:
                # the waiting Deferred has become the current work item: the hand-over round ends here
                results.append(("handover-exhausted" if exh else "handover", phys, envf, False, path_to((nid, st))))
                continue
            if node.kind == "stmt":
                phys, env, hand, fresh = self._stmt(node, nid, phys, env, hand, fresh)
                if nid in self.S.regs:
                    chained = True
            env["#m"] = fresh
            labels = None
            if node.kind == "test":
                if nid in getattr(self, "inner_tests", ()):
                    inner = True
                labels, phys, fresh = self._test(node.ast, phys, env, fresh)
            for b, l in g.succ[nid]:
                if l == "exc":
                    continue
                nphys = phys
                if labels is not None and l in ("T", "F"):
                    if isinstance(labels, dict):
                        if l not in labels:
                            continue
                        nphys = labels[l]
                nexh = exh
                if hand and node.kind == "test" and nid in getattr(self, "inner_tests", ()) and l in ("T", "F"):
                    subj = lambda e: attr_of(e, "callbacks", self.cur) or (isinstance(e, ast.Call) and dotted(e.func) == "len" and e.args
                                                                             and attr_of(e.args[0], "callbacks", self.cur))
                    if _zero_fact(node.ast, l == "T", subj) is True:
                        nexh = True          # after the hand-over the current Deferred is known to have no callbacks left
                new = (nphys, frozenset(env.items()), hand, chained, inner, nexh)
                key = (b, new)
                kind = "handover" if hand else ("chained" if chained else "exhausted")
                if hand and nexh:
                    kind = "handover-exhausted"
                if b == g.exit:
                    if inner or not stop_at_start:
                        results.append((kind, nphys, new[1], True, path_to((nid, st)) + [b]))
                    continue
                if b == g.raise_exit:
                    continue
                if b == self.checkpoint and (stop_at_start or True) and not (nid == start and not stop_at_start and False):
                    if b == self.checkpoint and (stop_at_start or start != self.checkpoint):
                        results.append((kind, nphys, new[1], False, path_to((nid, st)) + [b]))
                        continue
                if key in seen or len(seen) > 20000:
                    continue
                seen.add(key)
                prev[key] = (nid, st)
                dq.append((b, new, fresh))
        return results

    def _length(self, phys, fresh):
        """symbolic length of the stack: exact when the base is known, else relative to the unknown base (materialised elements
        were part of that base, so they do not change the true length)"""
        if phys and phys[0] == "…":
            return ("len", len(phys) - 1 - fresh)
        if "?" in phys:
            return "?"
        return ("len!", len(phys))

    def _val(self, v, phys, env, fresh, nid):
        """(value, phys, fresh) of an expression assigned to a tracked local"""
        X = self.stack_var
        if isinstance(v, ast.Call) and dotted(v.func) == "len" and len(v.args) == 1 and is_name(v.args[0], X):
            return self._length(phys, fresh), phys, fresh
        if isinstance(v, ast.Constant) and (v.value is None or isinstance(v.value, bool)):
            return v.value, phys, fresh
        if isinstance(v, ast.Name):
            if v.id in env:
                return env[v.id], phys, fresh
            if v.id == "self":
                return "SELF", phys, fresh
            return "?", phys, fresh
        if isinstance(v, ast.Subscript) and is_name(v.value, X):
            if const_int(v.slice) == -1:
                phys, fresh = self._materialise(phys, fresh)
                return (phys[-1] if phys else "?"), phys, fresh
            self.lifo_bad.append(nid)
            return "?", phys, fresh
        if isinstance(v, ast.Call) and isinstance(v.func, ast.Attribute) and is_name(v.func.value, X) and v.func.attr == "pop":
            if not v.args or const_int(v.args[0]) == -1:
                phys, fresh = self._materialise(phys, fresh)
                return (phys[-1] if phys else "?"), (phys[:-1] if phys else phys), fresh
            self.lifo_bad.append(nid)
            return "?", ("?",), fresh
        return "?", phys, fresh

    def _stmt(self, node, nid, phys, env, hand, fresh):
        X = self.stack_var
        st = node.ast
        if nid in self.S.chainee_binds:
            env[self.S.chainee] = "W"
            return phys, env, True, fresh
        if hand and isinstance(st, ast.Expr) and isinstance(st.value, ast.Call) and isinstance(st.value.func, ast.Attribute) \
                and st.value.func.attr in ("unpause", "_runCallbacks") and is_name(st.value.func.value, self.S.chainee):
            # the waiting Deferred is processed by a nested call right here (a matter for C02, not for the stack discipline)
            return phys, env, False, fresh
        if isinstance(st, ast.Expr) and isinstance(st.value, ast.Call) and isinstance(st.value.func, ast.Attribute) and is_name(st.value.func.value, X):
            c = st.value
            m = c.func.attr
            if m == "append" and len(c.args) == 1:
                v, phys, fresh = self._val(c.args[0], phys, env, fresh, nid)
                phys = phys + (v,)
                if v == "W":
                    env["#W"] = True
            elif m == "insert" and len(c.args) == 2:
                v, phys, fresh = self._val(c.args[1], phys, env, fresh, nid)
                if v == "W":
                    env["#W"] = True          # the waiting Deferred is in the worklist, wherever (its position is C01's business)
                if const_int(c.args[0]) == -1:
                    phys, fresh = self._materialise(phys, fresh)
                    phys = (phys[:-1] + (v, phys[-1])) if phys else (v,)
                else:
                    self.lifo_bad.append(nid)
                    phys = ("?",)
            elif m == "pop" and (not c.args or const_int(c.args[0]) == -1):
                phys, fresh = self._materialise(phys, fresh)
                phys = phys[:-1] if phys else phys
            elif m in self.MUT:
                self.lifo_bad.append(nid)
                phys = ("?",)
            return phys[-8:] if len(phys) > 8 else phys, env, hand, fresh
        for t, v in targets_values(st):
            if isinstance(t, ast.Name):
                if t.id == X:
                    if isinstance(v, ast.List):
                        vals = []
                        for e in v.elts:
                            x, phys, fresh = self._val(e, phys, env, fresh, nid)
                            vals.append(x)
                        phys = tuple(vals)
                    else:
                        phys = ("?",)
                    continue
                if v is None:
                    env.pop(t.id, None)
                    continue
                val, phys, fresh = self._val(v, phys, env, fresh, nid)
                if (not isinstance(val, tuple)) and val == "?" and t.id != self.cur:
                    env.pop(t.id, None)
                else:
                    env[t.id] = val
            elif isinstance(t, ast.Subscript) and is_name(t.value, X):
                if const_int(t.slice) == -1 and v is not None:
                    val, phys, fresh = self._val(v, phys, env, fresh, nid)
                    phys, fresh = self._materialise(phys, fresh)
                    phys = (phys[:-1] if phys else phys) + (val,)       # the top of the stack is replaced
                else:
                    self.lifo_bad.append(nid)
                    phys = ("?",)
        if isinstance(st, ast.Delete) and any(isinstance(t, ast.Subscript) and is_name(t.value, X) for t in st.targets):
            self.lifo_bad.append(nid)
            phys = ("?",)
        if fresh > 12:
            phys = ("?",)
        return phys, env, hand, fresh

    def _test(self, e, phys, env, fresh):
        """None (undecided: both edges, same stack) or {label: stack on that edge}"""
        X = self.stack_var

        def truth(val):
            if isinstance(val, tuple):
                return None
            if val is None or val is False:
                return False
            if val is True or (isinstance(val, str) and val != "?"):
                return True
            return None
        if isinstance(e, ast.Name):
            if e.id == X:
                if phys == ():
                    return {"F": phys}, phys, fresh
                if phys[-1] == "…":
                    m, fresh2 = self._materialise(phys, fresh)
                    return {"T": m, "F": phys[:-1]}, phys, fresh2
                if phys[-1] == "?":
                    return None, phys, fresh
                return {"T": phys}, phys, fresh
            if e.id in env:
                t = truth(env[e.id])
                if t is not None:
                    return {"T" if t else "F": phys}, phys, fresh
            return None, phys, fresh
        if isinstance(e, ast.Compare) and len(e.ops) == 1 and isinstance(e.left, ast.Name) and e.left.id in env and is_const(e.comparators[0], None):
            val = env[e.left.id]
            if val == "?":
                return None, phys, fresh
            isnone = val is None
            if isinstance(e.ops[0], (ast.Is, ast.Eq)):
                return {"T" if isnone else "F": phys}, phys, fresh
            if isinstance(e.ops[0], (ast.IsNot, ast.NotEq)):
                return {"F" if isnone else "T": phys}, phys, fresh
        if isinstance(e, ast.Compare) and len(e.ops) == 1 and type(e.ops[0]) in (ast.Lt, ast.Gt, ast.LtE, ast.GtE, ast.Eq, ast.NotEq):
            def lenval(x):
                if isinstance(x, ast.Name) and isinstance(env.get(x.id), tuple):
                    return env[x.id]
                if isinstance(x, ast.Call) and dotted(x.func) == "len" and len(x.args) == 1 and is_name(x.args[0], X):
                    return self._length(phys, fresh)
                return None
            a, b = lenval(e.left), lenval(e.comparators[0])
            if isinstance(a, tuple) and isinstance(b, tuple) and a[0] == b[0]:
                import operator
                op = {ast.Lt: operator.lt, ast.Gt: operator.gt, ast.LtE: operator.le, ast.GtE: operator.ge, ast.Eq: operator.eq, ast.NotEq: operator.ne}[type(e.ops[0])]
                return {"T" if op(a[1], b[1]) else "F": phys}, phys, fresh
        if isinstance(e, ast.Call) and dotted(e.func) == "len" and len(e.args) == 1 and is_name(e.args[0], X):
            return self._test(e.args[0], phys, env, fresh)
        if isinstance(e, ast.Compare) and len(e.ops) == 1 and isinstance(e.left, ast.Call) and dotted(e.left.func) == "len" and e.left.args \
                and is_name(e.left.args[0], X) and const_int(e.comparators[0]) == 0:
            r, phys2, fresh2 = self._test(e.left.args[0], phys, env, fresh)
            if isinstance(r, dict):
                if isinstance(e.ops[0], (ast.Gt, ast.NotEq)):
                    return r, phys2, fresh2
                if isinstance(e.ops[0], (ast.Eq, ast.LtE)):
                    return {("F" if k == "T" else "T"): v for k, v in r.items()}, phys2, fresh2
        return None, phys, fresh

    # -- verdicts --------------------------------------------------------------------------------
    def handover_worklist(self):
        """[(ok, observed, path)] for the hand-over rounds, judged for *iteration only*: the waiting Deferred became a work item of the
        same loop (top of the stack, elsewhere in it, or the cursor) and the frame goes on - its position is not judged here"""
        out = []
        for (kind, L, cur, at_exit, path), q_ in zip(self.transitions, self.queued):
            if kind.startswith("handover"):
                obs = ("the walk ends" if at_exit else "the loop goes on") + (" with the waiting Deferred among its work items" if q_ else
                                                                              " without the waiting Deferred among its work items")
                out.append((q_ and not at_exit, obs, path))
        return out

    def verdicts(self):
        """[(kind, ok, observed description, witness path)] for every recorded transition"""
        out = []
        for kind, L, cur, at_exit, path in self.transitions:
            if kind == "handover-exhausted":
                # the current Deferred has nothing left to run: keeping it below the waiting one or retiring it right away are equivalent
                kind = "handover"
                ok = (not at_exit) and L in (("…", "C", "W"), ("…", "W")) and (self.mode == "peek" or cur == "W")
            elif kind == "handover":
                ok = (not at_exit) and L == ("…", "C", "W") and (self.mode == "peek" or cur == "W")
            else:
                below = len(L) == 2 and L[0] == "…" and isinstance(L[1], str) and L[1].startswith("B")
                if at_exit:
                    ok = L == ()
                elif self.mode == "peek":
                    ok = L == ("…",) or below        # C removed; the loop head tests for emptiness and re-reads the top
                else:
                    ok = below and cur == L[1]
            obs = ("the walk ends with " if at_exit else "the next round starts with ") + "the logical chain stack " + \
                "(" + ", ".join({"…": "…below", "C": "current", "W": "waiting Deferred"}.get(x, str(x)) for x in L) + ")"
            out.append((kind, ok, obs, path))
        return out


def value_aliases(g, is_read, changers) -> Set[str]:
    """Locals that hold the value of a tracked location (``t = W[0]``) and are still current wherever they are tested: no node that
    may change the location (``changers``) lies on a path from the copy to a test of the local."""
    cands: Dict[str, List[int]] = {}
    for n in g.nodes:
        if n.kind == "stmt" and g.reachable(n.id):
            for t, v in targets_values(n.ast):
                if isinstance(t, ast.Name) and v is not None and is_read(v):
                    cands.setdefault(t.id, []).append(n.id)
    out = set()
    for name, defs in cands.items():
        if set(name_assign_nodes(g, name)) != set(defs):
            continue
        tests = [t.id for t in g.nodes if t.kind == "test" and g.reachable(t.id) and is_name(t.ast, name)]
        stale = any(g.path(defs, [c], edge_ok=no_exc, strict=True) is not None and g.path([c], tests, avoid=set(defs), edge_ok=no_exc, strict=True) is not None
                    for c in changers)
        if tests and not stale:
            out.add(name)
    return out


def nodes_of(g, node) -> List[int]:
    """CFG nodes holding this AST node; when the function was rebuilt with helpers inlined (new node objects), the nodes whose
    text contains the node's text."""
    ids = g.ids_of(node)
    if ids:
        return ids
    text = src(node)
    return [n.id for n in g.nodes if n.ast is not None and n.kind in ("stmt", "test") and g.reachable(n.id) and text in src(n.ast)]


def is_const_str(n, s: str) -> bool:
    return isinstance(n, ast.Constant) and n.value == s


# ---------------------------------------------------------------------------------------------
# call graph of one module
# ---------------------------------------------------------------------------------------------

class Site:
    __slots__ = ("func", "node", "kind", "target", "text")

    def __init__(self, func, node, kind, target):
        self.func = func      # qualified name of the function containing the site
        self.node = node      # ast.Call (kind call) or the referencing expression (kind ref)
        self.kind = kind      # "call" | "ref"
        self.target = target  # qualified name of the resolved in-module function
        self.text = src(node)


class CallGraph:
    """Calls and function references of one module, resolved by this policy:

    * ``f(...)`` / bare ``f`` as an argument: nested def of an enclosing function, else module-level
      function, else module-level class (-> its ``__init__`` through the module-local MRO);
    * ``self.m`` / ``cls.m`` inside class K: K.m through the module-local MRO;
    * ``Class.m``: that class's m;
    * any other ``<expr>.m``: *every* class of the ``family`` (Deferred and its in-module
      subclasses) defining m — name-based over-approximation: every object the chain engine
      handles is a Deferred;
    * a local alias ``x = <expr>.m`` followed by ``x(...)`` resolves like ``<expr>.m``;
    * lambdas belong to the function that creates them.
    Calls on builtins / imported names / other locals are unresolved (opaque)."""

    def __init__(self, mod, family_root: str = "Deferred"):
        self.mod = mod
        self.funcs: Dict[str, ast.AST] = {}
        for q, f in mod.functions():
            if any((dotted(d) or "").split(".")[-1] == "overload" for d in f.decorator_list):
                continue
            self.funcs[q] = f
        self.classes: Dict[str, ast.ClassDef] = {}
        for st in ast.walk(mod.tree):
            if isinstance(st, ast.ClassDef) and getattr(st, "_parent", None) is mod.tree:
                self.classes[st.name] = st
        self.family: List[str] = [c for c in self.classes if self._is_sub(c, family_root)]
        self.sites: Dict[str, List[Site]] = {q: self._sites(q, f) for q, f in self.funcs.items()}
        self.edges: Dict[str, Set[str]] = {q: {s.target for s in ss} for q, ss in self.sites.items()}

    def _is_sub(self, cname: str, root: str, seen=None) -> bool:
        if cname == root:
            return True
        seen = seen or set()
        if cname in seen or cname not in self.classes:
            return False
        seen.add(cname)
        from sa.source import base_names
        return any(self._is_sub(b, root, seen) for b in base_names(self.classes[cname]))

    def _class_of(self, qual: str) -> Optional[str]:
        head = qual.split(".")[0]
        return head if head in self.classes else None

    def _method(self, cname: str, m: str) -> Optional[str]:
        r = mro_lookup(self.mod, self.classes[cname], m)
        if r and isinstance(r[1], (ast.FunctionDef, ast.AsyncFunctionDef)):
            q = f"{r[0].name}.{m}"
            return q if q in self.funcs else None
        return None

    def _resolve_name(self, qual: str, ident: str) -> List[str]:
        parts = qual.split(".")
        for i in range(len(parts), 0, -1):
            cand = ".".join(parts[:i] + [ident])
            if cand in self.funcs and self._class_of(".".join(parts[:i])) != ".".join(parts[:i]):
                return [cand]
        if ident in self.funcs:
            return [ident]
        if ident in self.classes:
            t = self._method(ident, "__init__")
            return [t] if t else []
        return []

    def _resolve_attr(self, qual: str, node: ast.Attribute) -> List[str]:
        m = node.attr
        recv = node.value
        k = self._class_of(qual)
        if isinstance(recv, ast.Name) and recv.id in ("self", "cls") and k:
            t = self._method(k, m)
            if t:
                return [t]
        if isinstance(recv, ast.Name) and recv.id in self.classes:
            t = self._method(recv.id, m)
            return [t] if t else []
        if isinstance(recv, ast.Call) and dotted(recv.func) == "super" and k:
            from sa.source import base_names
            out = []
            for b in base_names(self.classes[k]):
                if b in self.classes:
                    t = self._method(b, m)
                    if t:
                        out.append(t)
            return out
        out = []
        for c in self.family:
            ms = methods(self.classes[c])
            if m in ms and f"{c}.{m}" in self.funcs:
                out.append(f"{c}.{m}")
        return out

    def _sites(self, qual: str, f) -> List[Site]:
        out: List[Site] = []
        nodes = list(_walk_with_lambdas(f))
        local_alias: Dict[str, ast.Attribute] = {}
        assigned: Set[str] = set(params(f)) if not isinstance(f, ast.Lambda) else set()
        for n in nodes:
            if isinstance(n, (ast.Assign, ast.AnnAssign, ast.AugAssign, ast.For)):
                for t, v in (targets_values(n) if not isinstance(n, ast.For) else [(n.target, None)]):
                    for x in ast.walk(t):
                        if isinstance(x, ast.Name):
                            assigned.add(x.id)
                    if isinstance(t, ast.Name) and isinstance(v, ast.Attribute):
                        local_alias[t.id] = v
        called_funcs = set()
        for n in nodes:
            if isinstance(n, ast.Call):
                called_funcs.add(id(n.func))
                fn = n.func
                if isinstance(fn, ast.Name):
                    if fn.id in local_alias:
                        tg = self._resolve_attr(qual, local_alias[fn.id])
                    elif fn.id in assigned:
                        tg = []
                    else:
                        tg = self._resolve_name(qual, fn.id)
                elif isinstance(fn, ast.Attribute):
                    tg = self._resolve_attr(qual, fn)
                else:
                    tg = []
                for t in tg:
                    out.append(Site(qual, n, "call", t))
        # references: function-valued expressions used as call arguments, assigned or returned
        for n in nodes:
            cands: List[ast.AST] = []
            if isinstance(n, ast.Call):
                cands = list(n.args) + [k.value for k in n.keywords]
            elif isinstance(n, (ast.Assign, ast.AnnAssign)) and n.value is not None:
                cands = [n.value] + (list(n.value.elts) if isinstance(n.value, (ast.Tuple, ast.List)) else [])
            elif isinstance(n, ast.Return) and n.value is not None:
                cands = [n.value]
            for a in cands:
                if isinstance(a, ast.Starred):
                    a = a.value
                if id(a) in called_funcs:
                    continue
                if isinstance(a, ast.Name) and a.id not in assigned:
                    for t in self._resolve_name(qual, a.id):
                        if a.id in self.classes:
                            continue  # passing a class object is not a call
                        out.append(Site(qual, a, "ref", t))
                elif isinstance(a, ast.Attribute):
                    for t in self._resolve_attr(qual, a):
                        out.append(Site(qual, a, "ref", t))
        return out

    # -- queries ------------------------------------------------------------------------------
    def reach_from(self, start: str, skip: Optional[Callable[[Site], bool]] = None) -> Set[str]:
        seen = {start}
        dq = deque([start])
        while dq:
            a = dq.popleft()
            for s in self.sites.get(a, []):
                if skip is not None and skip(s):
                    continue
                if s.target not in seen:
                    seen.add(s.target)
                    dq.append(s.target)
        return seen

    def reaching(self, target: str, skip: Optional[Callable[[Site], bool]] = None) -> Set[str]:
        """Functions from which ``target`` is reachable (target included)."""
        rev: Dict[str, Set[str]] = {}
        for q, ss in self.sites.items():
            for s in ss:
                if skip is not None and skip(s):
                    continue
                rev.setdefault(s.target, set()).add(q)
        seen = {target}
        dq = deque([target])
        while dq:
            a = dq.popleft()
            for b in rev.get(a, ()):
                if b not in seen:
                    seen.add(b)
                    dq.append(b)
        return seen

    def chain_to(self, start: str, target: str, skip=None) -> List[str]:
        """A shortest chain of functions start -> ... -> target ([start] when start is target)."""
        if start == target:
            return [start]
        prev: Dict[str, Optional[str]] = {start: None}
        dq = deque([start])
        while dq:
            a = dq.popleft()
            for s in self.sites.get(a, []):
                if skip is not None and skip(s):
                    continue
                if s.target in prev:
                    continue
                prev[s.target] = a
                if s.target == target:
                    return _unwind(prev, target)
                dq.append(s.target)
        return []


def _unwind(prev, a):
    out = [a]
    while prev[out[-1]] is not None:
        out.append(prev[out[-1]])
    return list(reversed(out))


def _walk_with_lambdas(f) -> Iterable[ast.AST]:
    """Nodes of a function body, entering lambdas but not nested defs / classes."""
    stack = list(reversed(f.body)) if not isinstance(f, ast.Lambda) else [f.body]
    while stack:
        n = stack.pop()
        yield n
        if isinstance(n, (ast.FunctionDef, ast.AsyncFunctionDef, ast.ClassDef)):
            continue
        stack.extend(reversed(list(ast.iter_child_nodes(n))))


# ---------------------------------------------------------------------------------------------
# _inlineCallbacks: finite-state abstract interpretation
# ---------------------------------------------------------------------------------------------

REG_METHODS = ("addBoth", "addCallback", "addErrback", "addCallbacks")
_ADDCALLBACKS_SIG = ("callback", "errback", "callbackArgs", "callbackKeywords", "errbackArgs", "errbackKeywords")


def routes_of(c: ast.Call) -> List[Tuple[str, Optional[ast.AST], Optional[List[ast.AST]]]]:
    """What a registration call does with a success ("ok") and with a failure ("err"):
    (outcome, callable expression | None = passes through unchanged, extra positional args | None = unreadable)."""
    m = c.func.attr
    kws = {k.arg: k.value for k in c.keywords if k.arg}
    if m in ("addBoth", "addCallback", "addErrback"):
        first = "errback" if m == "addErrback" else "callback"
        callee = c.args[0] if c.args else kws.get(first)
        extra = list(c.args[1:]) if c.args else []
        if any(isinstance(a, ast.Starred) for a in extra):
            extra = None
        r_ok = ("ok", callee, extra) if m != "addErrback" else ("ok", None, [])
        r_err = ("err", callee, extra) if m != "addCallback" else ("err", None, [])
        return [r_ok, r_err]
    b = dict(zip(_ADDCALLBACKS_SIG, c.args))
    b.update(kws)

    def tup(e):
        if e is None:
            return []
        return list(e.elts) if isinstance(e, (ast.Tuple, ast.List)) and not any(isinstance(x, ast.Starred) for x in e.elts) else None
    eb = b.get("errback")
    if eb is not None and is_const(eb, None):
        eb = None
    return [("ok", b.get("callback"), tup(b.get("callbackArgs"))), ("err", eb, tup(b.get("errbackArgs")))]


class ICModel:
    """Collecting semantics of ``_inlineCallbacks`` over the product state

        (cell, pending, fired)
          cell    value of ``W[0]`` (True / False / None = not a known constant)
          pending 1 when the helper has been registered on a Deferred and has not run yet
          fired   1 when ``status.deferred`` has been fired by this invocation

    ``W`` is the local list passed, together with the module-level helper H, to the registration
    call ``<d>.addBoth(H, W, ...)``.  The helper is modelled by what its own CFG was checked to do:
    when it runs with cell True it stores False (and the result) and returns; with cell False it
    calls back into ``_inlineCallbacks``.  A registration therefore maps (True, 0, f) to
    {(True, 1, f) [not fired yet], (False, 0, f) [fired synchronously]}.
    """

    def __init__(self, ctx):
        self.ctx = ctx
        self.f = inlined_func(ctx, DEFER, "_inlineCallbacks")
        self.q = Q + "_inlineCallbacks"
        self.g = g = ctx.cfg(self.f, exception_is_all=False)
        ps = params(self.f)
        ctx.need(len(ps) >= 4, "_inlineCallbacks(result, gen, status, context) signature")
        self.p_result, self.p_gen, self.p_status, self.p_context = ps[:4]
        mod = ctx.mod(DEFER)
        self.mod = mod
        self.local_names = set(ps) | {x.id for x in ast.walk(self.f) if isinstance(x, ast.Name) and isinstance(x.ctx, ast.Store)}
        # cell list W: local bound to a list literal of constants / module-level marker objects
        self.cells: Dict[str, List[int]] = {}
        for n in g.nodes:
            if n.kind == "stmt" and g.reachable(n.id):
                for t, v in targets_values(n.ast):
                    if isinstance(t, ast.Name) and isinstance(v, ast.List) and v.elts and all(isinstance(e, (ast.Constant, ast.Name)) for e in v.elts) \
                            and all(not isinstance(e, ast.Name) or e.id not in self.local_names for e in v.elts):
                        self.cells.setdefault(t.id, []).append(n.id)
        # registrations: EVERY <x>.addBoth / addCallback / addErrback / addCallbacks(...) call.  Each yields one
        # Route per outcome: (outcome, callable expression or None for pass-through, extra positional args or None).
        self.regs: List[int] = []
        self.reg_calls: Dict[int, ast.Call] = {}
        self.routes: Dict[int, List[Tuple[str, Optional[ast.AST], Optional[List[ast.AST]]]]] = {}
        for n in g.nodes:
            if n.kind not in ("stmt", "test") or not g.reachable(n.id):
                continue
            for c in calls_of(g, n.id, lambda c: isinstance(c.func, ast.Attribute) and c.func.attr in REG_METHODS):
                if n.id in self.reg_calls:
                    continue
                self.regs.append(n.id)
                self.reg_calls[n.id] = c
                self.routes[n.id] = routes_of(c)
        # the cell list W: the one handed to a registered callable, else the first one
        self.W: Optional[str] = None
        for n in self.regs:
            for _, callee, extra in self.routes[n]:
                for a in extra or []:
                    if isinstance(a, ast.Name) and a.id in self.cells and self.W is None:
                        self.W = a.id
        if self.W is None and self.cells:
            self.W = sorted(self.cells)[0]
        # helpers: registered module-level functions that receive W; name -> (def, index of the W parameter)
        self.helpers: Dict[str, Tuple[ast.AST, int]] = {}
        for n in self.regs:
            for _, callee, extra in self.routes[n]:
                if isinstance(callee, ast.Name) and isinstance(mod.find(callee.id), (ast.FunctionDef, ast.AsyncFunctionDef)) and extra is not None:
                    ks = [i for i, a in enumerate(extra) if self.W and is_name(a, self.W)]
                    if ks:
                        self.helpers.setdefault(callee.id, (inlined_func(ctx, DEFER, callee.id), ks[0] + 1))
        self.helper_name: Optional[str] = sorted(self.helpers)[0] if self.helpers else None
        self.helper = self.helpers[self.helper_name][0] if self.helper_name else None
        W = self.W
        # locals holding <status>.deferred
        self.deferred_aliases: Dict[str, List[int]] = {}
        for n in g.nodes:
            if n.kind == "stmt" and g.reachable(n.id):
                for t, v in targets_values(n.ast):
                    if isinstance(t, ast.Name) and v is not None and attr_of(v, "deferred", self.p_status):
                        self.deferred_aliases.setdefault(t.id, []).append(n.id)
        # fire sites: <status>.deferred.callback/errback(...)
        self.fires: List[int] = call_nodes(g, self.is_fire)
        # resume sites: the generator is advanced
        self.resumes: List[int] = g.find(self._mentions_resume, kinds=("stmt", "test"))
        ctx.need(self.resumes, "generator resumption (gen.send / throwExceptionIntoGenerator) in _inlineCallbacks")
        self._eff: Dict[str, Set[Tuple[object, bool]]] = {}
        changers = list(self.regs) + ([n.id for n in g.nodes if n.kind == "stmt" and g.reachable(n.id) and self.cell_store(n.ast) is not None] if W else [])
        self.cell_aliases: Set[str] = value_aliases(g, lambda v: bool(W) and sub0(v, W, 0), changers) if W else set()
        self.cell_tests: List[int] = [n.id for n in g.nodes if n.kind == "test" and g.reachable(n.id) and W and self.mentions_cell(n.ast)]
        self.states: Dict[int, Set[Tuple]] = {}
        self._run()

    # -- recognisers ----------------------------------------------------------------------------
    def is_fire(self, c: ast.Call) -> bool:
        f = c.func
        if not (isinstance(f, ast.Attribute) and f.attr in ("callback", "errback")):
            return False
        if isinstance(f.value, ast.Attribute) and f.value.attr == "deferred" and is_name(f.value.value, self.p_status):
            return True
        return isinstance(f.value, ast.Name) and f.value.id in self.deferred_aliases     # d = status.deferred ... d.callback(...)

    def _mentions_resume(self, x) -> bool:
        if isinstance(x, ast.Attribute) and x.attr in ("send", "throw") and is_name(x.value, self.p_gen):
            return True
        return isinstance(x, ast.Attribute) and x.attr == "throwExceptionIntoGenerator"

    # -- abstract cell values: True / False / ("k", None) / ("n", <module-level marker name>) / "OUT" (anything else) / None = unknown
    @staticmethod
    def absval(v, locals_) -> object:
        if isinstance(v, ast.Constant):
            return v.value if isinstance(v.value, bool) else ("k", v.value)
        if isinstance(v, (ast.Name, ast.Attribute)) and dotted(v) and dotted(v).split(".")[0] not in locals_:
            return ("n", dotted(v).split(".")[-1])
        return "OUT"

    def cell_store(self, st, W=None, locals_=None) -> Optional[object]:
        """abstract value stored into W[0] by this statement, else None (wrapped in a 1-tuple to tell 'no store' from unknown)"""
        W = W or self.W
        for t, v in targets_values(st):
            if W and sub0(t, W, 0):
                return (self.absval(v, locals_ if locals_ is not None else self.local_names) if v is not None else "OUT",)
        return None

    @staticmethod
    def cell_test(e, c, is_read, locals_) -> Optional[bool]:
        """outcome of atomic test e when the cell holds abstract value c (None: not decided / not a test of the cell)"""
        def truth(c):
            if c is True or c is False:
                return c
            if isinstance(c, tuple):
                return bool(c[1]) if c[0] == "k" else True
            return None
        if is_read(e):
            return truth(c)
        if isinstance(e, ast.Compare) and len(e.ops) == 1 and isinstance(e.ops[0], (ast.Is, ast.IsNot, ast.Eq, ast.NotEq)):
            l, r = e.left, e.comparators[0]
            other = r if is_read(l) else (l if is_read(r) else None)
            if other is None or c is None:
                return None
            k = ICModel.absval(other, locals_)
            if k == "OUT":
                return None
            if c == "OUT":
                same = False if isinstance(k, tuple) and k[0] == "n" else None     # an outcome is never one of the private markers
            else:
                same = (c == k)
            if same is None:
                return None
            return same if isinstance(e.ops[0], (ast.Is, ast.Eq)) else not same
        return None

    def is_yielded(self, name: str) -> bool:
        """the outcome variable itself, or a local every definition of which is `= <outcome>` / `= _cancellableInlineCallbacks(<outcome>)`
        (the yielded Deferred, or the Deferred of a yielded generator / coroutine)"""
        res = self.p_result
        if name == res:
            return True
        g = self.g
        vals = [v for d in name_assign_nodes(g, name) for t, v in targets_values(g.node(d).ast) if is_name(t, name)]
        return bool(vals) and all(v is not None and (is_name(v, res) or (isinstance(v, ast.Call) and is_name(v.func, "_cancellableInlineCallbacks")
                                                                         and len(v.args) == 1 and is_name(v.args[0], res))) for v in vals)

    def is_cell_read(self, e) -> bool:
        return bool(self.W) and (sub0(e, self.W, 0) or (isinstance(e, ast.Name) and e.id in self.cell_aliases))

    def mentions_cell(self, e) -> bool:
        return self.is_cell_read(e) or (isinstance(e, ast.Compare) and len(e.ops) == 1 and (self.is_cell_read(e.left) or self.is_cell_read(e.comparators[0])))

    def helper_effect(self, c) -> Set[Tuple[object, bool]]:
        """what the registered helper(s) do when they run with the cell holding c: {(cell value afterwards, re-entered _inlineCallbacks?)}"""
        key = repr(c)
        if key in self._eff:
            return self._eff[key]
        out: Set[Tuple[object, bool]] = set()
        for name, (H, k) in self.helpers.items():
            hp = params(H)
            if len(hp) <= k:
                continue
            hg = self.ctx.cfg(H)
            Wa = aliases(H, hp[k])
            hloc = set(hp) | {x.id for x in ast.walk(H) if isinstance(x, ast.Name) and isinstance(x.ctx, ast.Store)}
            reads = lambda e: any(sub0(e, w, 0) for w in Wa)
            writers = [n.id for n in hg.nodes if n.kind == "stmt" and hg.reachable(n.id) and any(reads(t) for t, _ in targets_values(n.ast))] + \
                call_nodes(hg, lambda c_: is_name(c_.func, "_inlineCallbacks"))
            temps = value_aliases(hg, reads, writers)
            is_read = lambda e: reads(e) or (isinstance(e, ast.Name) and e.id in temps)
            seen = set()
            stack = [(hg.entry, c, False)]
            while stack:
                n, v, called = stack.pop()
                if (n, repr(v), called) in seen:
                    continue
                seen.add((n, repr(v), called))
                node = hg.node(n)
                if n == hg.exit:
                    out.add((v, called))
                    continue
                if n == hg.raise_exit:
                    continue
                labs = None
                if node.kind == "stmt":
                    for w in Wa:
                        cs = self.cell_store(node.ast, W=w, locals_=hloc)
                        if cs is not None:
                            v = cs[0]
                    if any(isinstance(x, ast.Call) and is_name(x.func, "_inlineCallbacks") for x in ast.walk(node.ast)):
                        called = True
                elif node.kind == "test":
                    t = self.cell_test(node.ast, v, is_read, hloc)
                    if t is not None:
                        labs = "T" if t else "F"
                for d, l in hg.succ[n]:
                    if l == "exc" or (labs is not None and l in ("T", "F") and l != labs):
                        continue
                    stack.append((d, v, called))
        self._eff[key] = out
        return out

    # -- fixpoint -------------------------------------------------------------------------------
    def _transfer(self, nid: int, S: Set[Tuple]) -> Tuple[Set[Tuple], Set[Tuple]]:
        """(normal out-state, exceptional out-state)"""
        n = self.g.node(nid)
        out = set(S)
        exc = set(S)
        if n.kind == "stmt":
            if self.W and nid in self.cells.get(self.W, []):
                v0 = None
                for t, v in targets_values(n.ast):
                    if is_name(t, self.W):
                        v0 = self.absval(v.elts[0], self.local_names)
                        v0 = None if v0 == "OUT" else v0
                out = {(v0, p, f) for (_, p, f) in S}
                exc = out
            cs = self.cell_store(n.ast)
            if cs is not None:
                out = {(cs[0], p, f) for (_, p, f) in out}
                exc = out | set(S)
        if nid in self.regs:
            new = set()
            for (c, p, f) in out:
                new.add((c, 1, f))            # registered, the Deferred has not fired yet
                effs = self.helper_effect(c) if self.helpers else set()
                if not effs:
                    new.add((c, 0, f))
                for c2, called in effs:       # fired synchronously: the helper has run with the cell holding c
                    new.add((c2, 0, f))       # (a helper that re-enters here is reported by the registration rule)
            exc = new | set(S)
            out = new
        if nid in self.fires:
            out = {(c, p, 1) for (c, p, f) in out}
            exc = out
        return out, exc

    def _run(self):
        g = self.g
        IN: Dict[int, Set[Tuple]] = {g.entry: {(None, 0, 0)}}
        work = deque([g.entry])
        while work:
            a = work.popleft()
            S = IN.get(a, set())
            out, exc = self._transfer(a, S)
            for b, l in g.succ[a]:
                T = exc if l in ("exc", "raise") else out
                if a in self.cell_tests and l in ("T", "F"):
                    want = (l == "T")
                    T2 = set()
                    for (c, p, f) in T:
                        t = self.cell_test(g.node(a).ast, c, self.is_cell_read, self.local_names)
                        if t is None:
                            # unknown value: a plain truthiness test pins it down, otherwise both edges are possible
                            c2 = want if (c is None and self.is_cell_read(g.node(a).ast)) else c
                            T2.add((c2, p, f))
                        elif t is want:
                            T2.add((c, p, f))
                    T = T2
                old = IN.get(b)
                if old is None:
                    IN[b] = set(T)
                    work.append(b)
                elif not T <= old:
                    old |= T
                    work.append(b)
        self.states = IN

    def edge_states(self, a: int, l) -> Set[Tuple]:
        """states flowing along the edge (a, label l)"""
        o, e = self._transfer(a, self.at(a))
        T = e if l in ("exc", "raise") else o
        if a in self.cell_tests and l in ("T", "F"):
            want = (l == "T")
            T2 = set()
            for (c, p, f) in T:
                t = self.cell_test(self.g.node(a).ast, c, self.is_cell_read, self.local_names)
                if t is None:
                    T2.add(((want if (c is None and self.is_cell_read(self.g.node(a).ast)) else c), p, f))
                elif t is want:
                    T2.add((c, p, f))
            T = T2
        return T

    def resumes_later(self, c) -> bool:
        """with the cell left at c, does the helper re-enter _inlineCallbacks (on every path) when the Deferred fires later?"""
        effs = self.helper_effect(c)
        return bool(effs) and all(called for _, called in effs)

    def at(self, nid: int) -> Set[Tuple]:
        return self.states.get(nid, set())

    def returns(self) -> List[int]:
        """nodes with an edge to the normal exit"""
        return sorted({a for a, l in self.g.pred[self.g.exit]})
