"""C09 - task.Clock runs scheduled calls exactly once in time order."""
from __future__ import annotations

import ast
import itertools

from sa.astx import call_name, dotted, src, walk_local
from sa.effects import accesses, class_accesses
from sa.selftest import Mutant, Silent
from sa.source import methods
from sa.props._lib_b import (Normaliser, check_equality_is_identity, equality_locator_sites, MiniBudget, MiniEval, MiniRaise, check_delayed_call, public_api_effects, lin_cmp, lin_cmp_text, lin_eq, linform, model_class, resolve_locals, Unsupported, clone, _Subst, single_assignment_locals, single_return)

PROPERTY = "C09"
TASK = "internet/task.py"
BASE = "internet/base.py"
MODNAME = "twisted.internet.task"
C = MODNAME + ".Clock"
TECHNIQUE = "CFG must-intervene/dominance with exception edges, who-may-write closure, linear forms; model lists second layer"
RULE_KINDS = {
    "*": "structural",
    "model/": "bounded", "sort/ascending-stable": "bounded", "getDelayedCalls/exactly-pending": "bounded",
}
EXPLANATION = (
    "Structural deciders (for-all), on a view with single-assignment temporaries substituted and private predicates / one-argument "
    "helpers read as inlined: in Clock.advance's CFG the clock moves by `amount` exactly once before any look at `calls`; between "
    "entry, the time change or any call-out and the next look at the head there is a re-sort (must-intervene); a call is taken "
    "from the front under the exact boundary head.getTime() <= now (linear normal form) on a non-empty list, is removed and marked "
    "`called` before its function runs with its own args/kw (dominance), every removed call runs and the loop re-examines `calls`; "
    "after the time change every normal path reaches the run loop; a guard attribute set before the call-out is cleared on every "
    "exit, the exceptional one included.  `calls` who-may-write by operation kind (append / in-place sort / pop-front, never "
    "re-bound: cancellers hold its bound remove) and who-may-mutate through the public API; the sorter's key resolved to the "
    "scheduled time and no reverse (list.sort is stable: creation order for ties follows from append-at-end); callLater wiring "
    "(def-use: time = seconds()+delay, canceller removes from `calls`, the clock's own seconds); seconds() returns rightNow; "
    "getDelayedCalls() returns `calls`; DelayedCall reset/delay/activate_delay by symbolic linear evaluation of every path, "
    "getTime as a linear form, cancel() notifies on every live path.  Bounded second layer only (no clause rests on it alone): "
    "the sorter, seconds() and getDelayedCalls() evaluated on model clocks.  Not decided: numeric float order."
)
ASSUMPTIONS = [
    "list.sort is stable (language guarantee)",
    "calls are modified from outside advance() only through callLater / DelayedCall.cancel / reset / delay",
]


def _self_attr(node, name):
    return isinstance(node, ast.Attribute) and node.attr == name and isinstance(node.value, ast.Name) and node.value.id == "self"


def _is_sort_call(x, sorters):
    if not isinstance(x, ast.Call):
        return False
    n = call_name(x) or ""
    if n.startswith("self.") and n[5:] in sorters:
        return True
    return isinstance(x.func, ast.Attribute) and x.func.attr == "sort" and _self_attr(x.func.value, "calls")


def _kind(a):
    """Operation kind of an access to `calls`, with two spellings normalised: `del self.calls[0]` takes the first element,
    `self.calls[:] = sorted(self.calls, ...)` sorts in place."""
    n = a.node
    if a.kind == "delitem" and isinstance(n, ast.Delete) and any(isinstance(t, ast.Subscript) and isinstance(t.slice, ast.Constant) and t.slice.value == 0 for t in n.targets):
        return "pop_first"
    if a.kind == "setitem" and isinstance(n, ast.Assign) and len(n.targets) == 1 and isinstance(n.targets[0], ast.Subscript) \
            and isinstance(n.targets[0].slice, ast.Slice) and not (n.targets[0].slice.lower or n.targets[0].slice.upper or n.targets[0].slice.step) \
            and isinstance(n.value, ast.Call) and dotted(n.value.func) == "sorted" and n.value.args and _self_attr(n.value.args[0], "calls"):
        return "sort"
    return a.kind


def _predicate_body(ms, e):
    """`self.helper()` whose body is a single `return <expr>` -> that expression (a private predicate read as if inlined)."""
    if isinstance(e, ast.Call) and not e.args and not e.keywords and (call_name(e) or "").startswith("self.") and call_name(e).count(".") == 1:
        h = ms.get(call_name(e)[5:])
        if h is not None and len(h.args.args) == 1:
            body = [st for st in h.body if not (isinstance(st, ast.Expr) and isinstance(st.value, ast.Constant))]
            if len(body) == 1 and isinstance(body[0], ast.Return) and body[0].value is not None:
                return body[0].value
    return None


def _atoms(ms, e, pol, depth=0):
    """Facts implied by `e` evaluating to `pol`: [(atomic expr, polarity)] (and/or/not/bool()/predicate helpers opened up)."""
    if depth > 4:
        return [(e, pol)]
    if isinstance(e, ast.UnaryOp) and isinstance(e.op, ast.Not):
        return _atoms(ms, e.operand, not pol, depth + 1)
    if isinstance(e, ast.BoolOp) and ((isinstance(e.op, ast.And) and pol) or (isinstance(e.op, ast.Or) and not pol)):
        out = []
        for v in e.values:
            out += _atoms(ms, v, pol, depth + 1)
        return out
    if isinstance(e, ast.Call) and dotted(e.func) == "bool" and len(e.args) == 1:
        return _atoms(ms, e.args[0], pol, depth + 1)
    b = _predicate_body(ms, e)
    if b is not None:
        return _atoms(ms, b, pol, depth + 1)
    return [(e, pol)]


def _mentions_calls(ms, e, depth=0):
    for x in ast.walk(e):
        if _self_attr(x, "calls"):
            return True
        if depth < 2 and isinstance(x, ast.Call):
            b = _predicate_body(ms, x)
            if b is not None and _mentions_calls(ms, b, depth + 1):
                return True
    return False


def _sort_structure(ctx, mod, f, q):
    """Structural decider for the sorter: one in-place sort of self.calls (list.sort, or slice assignment of sorted(self.calls)),
    ascending (no reverse), keyed by the scheduled time (getTime, or time + delayed_time).  list.sort/sorted are stable."""
    sites = []
    for x in ast.walk(f):
        if isinstance(x, ast.Call) and isinstance(x.func, ast.Attribute) and x.func.attr == "sort" and _self_attr(x.func.value, "calls"):
            sites.append(x)
        if isinstance(x, ast.Assign) and len(x.targets) == 1 and isinstance(x.targets[0], ast.Subscript) and _self_attr(x.targets[0].value, "calls") \
                and isinstance(x.value, ast.Call) and dotted(x.value.func) == "sorted" and x.value.args and _self_attr(x.value.args[0], "calls"):
            sites.append(x.value)
    if len(sites) != 1:
        ctx.note("sort/key-is-scheduled-time: sorter shape not recognised, clause left to sort/ascending-stable")
        return
    c = sites[0]
    kw = {k.arg: k.value for k in c.keywords if k.arg}
    rev = kw.get("reverse")
    ctx.check(rev is None or (isinstance(rev, ast.Constant) and not rev.value), "sort/ascending", ctx.construct(q, c),
              "`calls` is sorted in descending order: the latest call is at the front and runs first")
    key = kw.get("key")
    if key is None:
        ctx.note("sort/key-is-scheduled-time: no key function (relies on DelayedCall ordering), clause left to sort/ascending-stable")
        return
    body, param = None, None
    if isinstance(key, ast.Lambda) and len(key.args.args) == 1:
        body, param = key.body, key.args.args[0].arg
    elif isinstance(key, ast.Name) and isinstance(mod.find(key.id), ast.FunctionDef) and len(mod.find(key.id).args.args) == 1:
        fn = mod.find(key.id)
        body, param = single_return(fn), fn.args.args[0].arg
    elif isinstance(key, ast.Attribute) and key.attr == "getTime":
        body, param = ast.parse("x.getTime()").body[0].value, "x"
    mv = mod.module_assign(key.id) if isinstance(key, ast.Name) and body is None else (key if isinstance(key, ast.Call) else None)
    if isinstance(mv, ast.Call) and (dotted(mv.func) or "").split(".")[-1] == "methodcaller" and len(mv.args) == 1 and isinstance(mv.args[0], ast.Constant):
        body, param = ast.parse(f"x.{mv.args[0].value}()").body[0].value, "x"
    if body is None:
        ctx.note("sort/key-is-scheduled-time: key function not recognised, clause left to sort/ascending-stable")
        return
    lf = linform(body)
    ok = src(body) == f"{param}.getTime()" or (lf is not None and lin_eq(lf, ({f"{param}.time": 1, f"{param}.delayed_time": 1}, 0)))
    ctx.check(ok, "sort/key-is-scheduled-time", ctx.construct(q, key),
              f"`calls` is ordered by `{src(body)}`, not by the scheduled time getTime() = time + delayed_time: calls that were reset()/delay()ed "
              "run at their old time or out of order", detail="key function resolved to its returned expression")


def check(ctx):
    mod = ctx.mod(TASK)
    cls = ctx.cls(TASK, "Clock")
    ms = methods(cls)
    Elem = check_delayed_call(ctx, ctx.mod(BASE), heap_rules=False)
    ClockM = model_class(cls, "ClockModel")
    MiniEval.GLOBALS = {"DelayedCall": Elem, "base": type("basemod", (), {"DelayedCall": Elem})}
    for st in mod.tree.body:
        if isinstance(st, ast.FunctionDef) and not st.decorator_list:
            MiniEval.GLOBALS[st.name] = (lambda *a_, _f=st, **k_: MiniEval.call(_f, a_, k_))
        elif isinstance(st, ast.Assign) and len(st.targets) == 1 and isinstance(st.targets[0], ast.Name) and isinstance(st.value, ast.Call) \
                and (dotted(st.value.func) or "").split(".")[-1] in ("methodcaller", "attrgetter", "itemgetter"):
            try:        # module-level key functions built from the operator module (pure stdlib constructors)
                MiniEval.GLOBALS[st.targets[0].id] = MiniEval({}, {}).expr(st.value)
            except Exception:
                pass

    sorters = set()
    with ctx.section("seconds"):
        # ---- seconds() is the controlled clock ---------------------------------------------------------
        f = ctx.func(TASK, "Clock.seconds")
        bad = None
        try:
            MiniEval.budget = 0
            got = MiniEval.call(f, (ClockM(rightNow=12.5, calls=[]),), {})
            if got != 12.5:
                bad = f"seconds() returns {got!r} with rightNow = 12.5"
        except (MiniRaise, MiniBudget) as e:
            bad = f"does not evaluate ({e})"
        except (AttributeError, TypeError, NameError) as e:
            raise Unsupported(f"Clock.seconds: model evaluation failed ({type(e).__name__}: {e})")
        r = single_return(f)
        if r is None:
            ctx.note("seconds/is-rightNow: shape not recognised, clause left to model/seconds")
        else:
            ctx.check(src(r) == "self.rightNow", "seconds/is-rightNow", C + ".seconds",
                      f"seconds() returns `{src(r)}`, not self.rightNow: the clock read by callLater/reset is not the one advance() moves",
                      detail="the single returned expression (locals resolved)")
        ctx.check(bad is None, "model/seconds", C + ".seconds", f"the clock read by callLater/reset is not the one advance() moves: {bad}")

    with ctx.section("calls ownership"):
        # ---- who may write `calls` ---------------------------------------------------------------------
        acc = class_accesses(mod, cls, {"calls"}, receivers={"self"})
        for a in acc:
            fn = a.func.split(".", 1)[1].split(".")[0]
            kind = _kind(a)
            c = ctx.construct(f"{MODNAME}.{a.func}", a.node)
            if fn == "__init__":
                ctx.check(kind in ("assign", "rebind-empty"), "calls/ownership", c, "unexpected operation on `calls` in __init__")
            elif kind == "append":
                ctx.ok("calls/ownership", c)
            elif kind == "sort":
                sorters.add(fn)
                ctx.ok("calls/ownership", c, "validated by model evaluation")
            elif kind == "pop_first":
                ctx.ok("calls/ownership", c)
            elif kind == "remove" and fn == "callLater" and a.func.count(".") >= 2:
                ctx.ok("calls/ownership", c, "canceller closure (checked by callLater/canceller-removes)")
            elif kind in ("assign", "rebind-empty"):
                ctx.violation("calls/ownership", c, "`calls` is re-bound to a new list: the cancellers of already scheduled calls hold the old "
                              "list's bound `remove`, so cancelling them no longer unschedules them (a cancelled call runs)")
            elif kind == "pop_last":
                ctx.violation("calls/ownership", c, "calls are taken from the back of the ascending list: the latest call runs first")
            elif kind in ("insert0", "appendleft", "insert"):
                ctx.violation("calls/ownership", c, "a new call is not added at the end: with the stable sort, calls for the same time no "
                              "longer run in creation order")
            else:
                ctx.violation("calls/ownership", c, f"operation of kind '{kind}' on `calls`")
        ctx.floor("calls/ownership", len(acc), 3)

    with ctx.section("cancel removes exactly that call"):
        # `calls.remove` (the canceller), `in`, index ... locate a DelayedCall with ==: that is the cancelled call itself only while
        # DelayedCall equality is identity
        dcls = ctx.cls(BASE, "DelayedCall")
        sites = equality_locator_sites(cls, {"calls"})
        ctx.floor("identity/located-by-equality", len(sites), 1, "equality-based look-ups in Clock")
        check_equality_is_identity(ctx, ctx.mod(BASE), dcls, C, sites)
        # bounded witness: cancel the second of two calls scheduled for the same time
        bad = None
        try:
            lst = []
            mk = lambda: Elem(time=1.0, delayed_time=0.0, cancelled=0, called=0, func=None, args=(), kw={}, debug=False, canceller=lst.remove, resetter=lambda c: None)
            a, b = mk(), mk()
            lst.extend([a, b])
            MiniEval.budget = 0
            MiniEval.call(methods(dcls)["cancel"], (b,), {})
            if [id(x) for x in lst] != [id(a)]:
                bad = "two calls scheduled for the same time, the second one cancelled: `calls` afterwards holds " + (
                    "the cancelled call instead of its sibling" if [id(x) for x in lst] == [id(b)] else f"{len(lst)} calls")
        except (MiniRaise, MiniBudget, ValueError) as e:
            bad = f"cancel raises ({e})"
        except (AttributeError, TypeError, NameError) as e:
            raise Unsupported(f"model evaluation of DelayedCall.cancel failed ({type(e).__name__}: {e})")
        ctx.check(bad is None, "model/cancel-removes-that-call", C + " | DelayedCall.cancel with calls.remove",
                  f"cancel() does not unschedule exactly the cancelled call: {bad}")
    with ctx.section("public API"):
        # user code runs inside advance()'s loop; what it can call there (every public method but advance/pump themselves, whose
        # nesting is part of the design) may add a call at the end and re-sort, nothing else: no call is taken out or reordered
        # behind advance()'s back (the canceller's remove is reached through DelayedCall.cancel and checked separately)
        roots = sorted(n for n in ms if not n.startswith("_") and n not in ("advance", "pump"))
        seen = set()
        for root, chain, a in public_api_effects(mod, cls, {"calls"}, roots, {"advance", "pump"}):
            key = (root, a.func, src(a.node))
            if key in seen:
                continue
            seen.add(key)
            ok = _kind(a) in ("append", "sort") or (a.kind == "remove" and a.func.count(".") >= 2)
            ctx.check(ok, "api/no-reordering-from-user-callable", ctx.construct(f"{C}.{root}", " -> ".join(chain) + ": " + src(a.node)[:90]),
                      f"{root}() can be called by user code from inside a running call and performs `{src(a.node)[:70]}` ({a.kind}) on `calls`: "
                      "a pending call disappears or changes place while advance() is iterating")
        ctx.floor("api/no-reordering-from-user-callable", len(seen), 1, "reachable mutations")
    if not sorters:
        sorters = {a.func.split(".")[1] for a in class_accesses(mod, cls, {"calls"}, receivers={"self"}) if _kind(a) == "sort"}
    NORM = Normaliser(mod, cls, keep=set(sorters))
    with ctx.section("sorter"):
        # ---- the sorter: ascending by scheduled time, stable, in place ------------------------------------
        ctx.check(bool(sorters), "sort/ascending-stable", C, "no method sorts `calls`")
        for name in sorted(sorters):
            f = ms[name]
            ctx.functions.add(f"{TASK}:Clock.{name}")
            q = f"{C}.{name}"
            bad = None
            n = 0
            try:
                specs = [(3, 0), (1, 0), (1, 0), (0, 5), (2, -1), (1, 0), (4, -4), (0, 1)]
                for k in range(1, 6):
                    for combo in itertools.permutations(specs[:6], k) if k <= 3 else [tuple(specs[i:i + k]) for i in range(0, 3)]:
                        elems = [Elem(time=t, delayed_time=d, cancelled=0, called=0) for t, d in combo]
                        lst = list(elems)
                        clk = ClockM(rightNow=0.0, calls=lst)
                        MiniEval.budget = 0
                        MiniEval.call(f, (clk,), {})
                        n += 1
                        got = clk.calls
                        want = sorted(elems, key=lambda e: e.time + e.delayed_time)
                        if got is not lst:
                            bad = "the list object is replaced instead of sorted in place"
                        elif [id(e) for e in got] != [id(e) for e in want]:
                            bad = (f"scheduled times {[t + d for t, d in combo]} (in creation order) come out as "
                                   f"{[e.time + e.delayed_time for e in got]}"
                                   + (" - ties not in creation order" if sorted(e.time + e.delayed_time for e in got) == [e.time + e.delayed_time for e in got] else ""))
                        if bad:
                            break
                    if bad:
                        break
            except MiniBudget:
                bad = "does not terminate on a model list"
            except MiniRaise as e:
                bad = f"raises on a model clock ({e})"
            except (AttributeError, TypeError, ValueError, NameError) as e:
                raise Unsupported(f"{q}: model evaluation failed ({type(e).__name__}: {e})")
            _sort_structure(ctx, mod, f, q)
            ctx.check(bad is None, "sort/ascending-stable", q,
                      f"`calls` is not sorted ascending by scheduled time (getTime), stably and in place: {bad}", detail=f"{n} model lists")

    with ctx.section("callLater"):
        # ---- callLater ------------------------------------------------------------------------------------
        f, understood, vnotes = NORM.view(ctx.func(TASK, "Clock.callLater"))
        for n_ in vnotes:
            ctx.note("callLater: " + n_)
        q = C + ".callLater"
        g = ctx.cfg(f)
        ctors = [c for c in ast.walk(f) if isinstance(c, ast.Call) and (dotted(c.func) or "").split(".")[-1] == "DelayedCall"]
        ctx.check(len(ctors) == 1, "callLater/creates-one-call", q, f"callLater constructs {len(ctors)} DelayedCall objects")
        if len(ctors) == 1:
            c = ctors[0]
            ctx.need(not any(isinstance(a, ast.Starred) for a in c.args) and all(k.arg for k in c.keywords), "DelayedCall(...) with explicit arguments")
            init = ctx.func(BASE, "DelayedCall.__init__")
            names = [a.arg for a in init.args.args][1:]
            bound = {names[i]: a for i, a in enumerate(c.args) if i < len(names)}
            bound.update({k.arg: k.value for k in c.keywords if k.arg})
            bound = {k: resolve_locals(f, v) for k, v in bound.items()}    # named temporaries
            prm = [a.arg for a in f.args.args][1:]
            ctx.need(len(prm) >= 2 and f.args.vararg and f.args.kwarg, "Clock.callLater(self, delay, callable, *args, **kw)")
            t = linform(bound["time"]) if "time" in bound else None
            ok = t is not None and (lin_eq(t, ({"self.seconds()": 1, prm[0]: 1}, 0)) or lin_eq(t, ({"self.rightNow": 1, prm[0]: 1}, 0)))
            ctx.check(ok, "callLater/time", ctx.construct(q, bound.get("time")), f"the call is scheduled for `{src(bound.get('time'))}` instead of seconds() + {prm[0]}")
            for k, v in {"func": prm[1], "args": f.args.vararg.arg, "kw": f.args.kwarg.arg, "seconds": "self.seconds"}.items():
                ctx.check(k in bound and src(bound[k]) == v, "callLater/wiring", f"{q} | {k}",
                          f"DelayedCall is created with {k}={src(bound.get(k)) or '<default>'} instead of {v}"
                          + (" (reset() would use the wall clock, not this Clock)" if k == "seconds" else ""))
            canc = bound.get("cancel")
            ok = canc is not None and src(canc) == "self.calls.remove"
            if not ok and isinstance(canc, ast.Lambda) and len(canc.args.args) == 1:
                b = canc.body
                ok = isinstance(b, ast.Call) and src(b.func) == "self.calls.remove" and len(b.args) == 1 and src(b.args[0]) == canc.args.args[0].arg
            ctx.check(ok, "callLater/canceller-removes", ctx.construct(q, canc) if canc is not None else q + " | cancel",
                      "the canceller handed to DelayedCall does not remove the call from `calls`: advance() does not look at `cancelled`, "
                      "so a cancelled call would still run and getDelayedCalls would still list it")
            local = next((st.targets[0].id for st in ast.walk(f) if isinstance(st, ast.Assign) and st.value is c and isinstance(st.targets[0], ast.Name)), None)
            apps = g.find(lambda x: isinstance(x, ast.Call) and isinstance(x.func, ast.Attribute) and x.func.attr == "append" and _self_attr(resolve_locals(f, x.func.value), "calls")
                          and len(x.args) == 1 and ((local and src(x.args[0]) == local) or x.args[0] is c))
            wit = g.must_pass(g.ids_of(c), apps, exc=False)
            if not apps and not understood:
                ctx.need(False, "the append to `calls` in callLater (a private helper it calls could not be read as inlined)")
            ctx.check(bool(apps) and wit is None, "callLater/scheduled", q, "the new call is not appended to `calls` on every path: it never runs",
                      witness=g.describe(wit))
            rets = [s for s in ast.walk(f) if isinstance(s, ast.Return)]
            ctx.check(bool(rets) and all(s.value is not None and (src(s.value) == local or s.value is c) for s in rets), "callLater/returns-call", q,
                      "callLater does not return the DelayedCall it scheduled")

    with ctx.section("getDelayedCalls"):
        # ---- getDelayedCalls ------------------------------------------------------------------------------
        f = ctx.func(TASK, "Clock.getDelayedCalls")
        a, b = Elem(time=1, delayed_time=0.0, cancelled=0, called=0), Elem(time=2, delayed_time=0.0, cancelled=0, called=0)
        bad = None
        try:
            MiniEval.budget = 0
            got = list(MiniEval.call(f, (ClockM(rightNow=0.0, calls=[a, b]),), {}))
            if sorted(map(id, got)) != sorted(map(id, (a, b))):
                bad = f"two pending calls, {len(got)} returned"
        except (MiniRaise, MiniBudget) as e:
            bad = f"does not evaluate ({e})"
        except (AttributeError, TypeError, NameError) as e:
            raise Unsupported(f"Clock.getDelayedCalls: model evaluation failed ({type(e).__name__}: {e})")
        r = single_return(f)
        plain = r is not None and (src(r) == "self.calls" or (isinstance(r, ast.Call) and dotted(r.func) in ("list", "tuple") and len(r.args) == 1 and src(r.args[0]) == "self.calls")
                                   or (isinstance(r, ast.ListComp) and len(r.generators) == 1 and not r.generators[0].ifs and src(r.generators[0].iter) == "self.calls"
                                       and src(r.elt) == src(r.generators[0].target)))
        if plain:
            ctx.ok("getDelayedCalls/returns-calls", C + ".getDelayedCalls", "returns `calls` (or an unfiltered copy): exactly the pending calls, given calls/ownership")
        else:
            ctx.note("getDelayedCalls/returns-calls: shape not recognised, clause left to getDelayedCalls/exactly-pending")
        ctx.check(bad is None, "getDelayedCalls/exactly-pending", C + ".getDelayedCalls", f"getDelayedCalls() does not list exactly the calls in `calls`: {bad}")

    with ctx.section("advance"):
        # ---- advance ---------------------------------------------------------------------------------------
        f, understood, vnotes = NORM.view(ctx.func(TASK, "Clock.advance"))
        for n_ in vnotes:
            ctx.note("advance: " + n_)
        q = C + ".advance"
        g = ctx.cfg(f)
        prm = [x.arg for x in f.args.args][1:]
        ctx.need(prm, "Clock.advance(self, amount)")
        # (a) the clock is moved forward by `amount`, exactly once, before anything else
        def is_time_write(n):
            if n.kind != "stmt":
                return False
            st = n.ast
            if isinstance(st, ast.AugAssign) and _self_attr(st.target, "rightNow"):
                return True
            return isinstance(st, ast.Assign) and any(_self_attr(t, "rightNow") for t in st.targets)
        def adds_to_clock(st, amount):
            if isinstance(st, ast.AugAssign):
                return isinstance(st.op, ast.Add) and src(st.value) == amount
            lf = linform(st.value)
            return lf is not None and lin_eq(lf, ({"self.rightNow": 1, amount: 1}, 0))
        tw = g.ids(is_time_write)
        via_helper = False
        if not tw:
            # the time change may live in a private helper: self._helper(amount) whose only effect is rightNow += its parameter
            for n in g.find(lambda x: isinstance(x, ast.Call) and (call_name(x) or "").startswith("self.") and len(x.args) == 1 and src(x.args[0]) == prm[0]):
                cl = next(x for x in walk_local(g.node(n).ast) if isinstance(x, ast.Call) and (call_name(x) or "").startswith("self.") and len(x.args) == 1)
                h = ms.get(call_name(cl)[5:])
                if h is not None and len(h.args.args) == 2:
                    hg = ctx.cfg(h)
                    hw = hg.ids(is_time_write)
                    if len(hw) == 1 and adds_to_clock(hg.node(hw[0]).ast, h.args.args[1].arg) and hg.must_pass([hg.entry], hw, exc=False) is None:
                        tw.append(n)
                        via_helper = True
        ok = len(tw) == 1
        if ok and not via_helper:
            ok = adds_to_clock(g.node(tw[0]).ast, prm[0])
        ctx.check(ok, "advance/moves-clock-once", q, f"advance({prm[0]}) does not add {prm[0]} to rightNow exactly once")
        ctx.check(all(g.path([t], [t], strict=True) is None for t in tw), "advance/moves-clock-once", q + " | <not in a loop>", "the clock is moved inside a loop")
        # sites
        acc = accesses(f, "Clock.advance", {"calls"}, {"self"})
        pops = [n for a_ in acc if a_.kind in ("pop_first", "pop_last", "pop_key") or (a_.kind == "delitem" and src(a_.node).endswith("[0]"))
                for n in g.ids_of(a_.node)]
        if not pops and not understood:
            ctx.need(False, "the removal of the head of `calls` in advance (a private helper it calls could not be read as inlined)")
        ctx.check(len(pops) == 1, "advance/takes-head", q, f"{len(pops)} sites take a call out of `calls` (exactly one expected)")
        outs = g.find(lambda x: isinstance(x, ast.Call) and isinstance(x.func, ast.Attribute) and x.func.attr == "func")
        sorts = g.find(lambda x: _is_sort_call(x, sorters))
        pure = {k: v for k, v in single_assignment_locals(f).items()
                if all(isinstance(x, (ast.Name, ast.Attribute, ast.Subscript, ast.Constant, ast.Load, ast.Call, ast.UnaryOp, ast.USub)) for x in ast.walk(v))
                and all((isinstance(x.func, ast.Attribute) and x.func.attr in ("getTime", "seconds") and not x.args) for x in ast.walk(v) if isinstance(x, ast.Call))}

        def norm(e):
            e = clone(e)
            for _ in range(3):
                e = _Subst(pure).visit(e)
            return e
        heads = g.find(lambda x: (isinstance(x, ast.Subscript) and _self_attr(norm(x.value), "calls"))
                       or (isinstance(x, ast.Call) and _predicate_body(ms, x) is not None and _mentions_calls(ms, x))) + pops
        heads = sorted(set(heads))
        runner = None
        if len(pops) == 1 and not outs:
            # the call-out may live in a private helper: self._helper(call) which marks the call and runs its function
            for n in g.find(lambda x: isinstance(x, ast.Call) and (call_name(x) or "").startswith("self.") and len(x.args) == 1 and isinstance(x.args[0], ast.Name)):
                cl = next(x for x in walk_local(g.node(n).ast) if isinstance(x, ast.Call) and (call_name(x) or "").startswith("self.") and len(x.args) == 1)
                h = ms.get(call_name(cl)[5:])
                if h is None or len(h.args.args) != 2:
                    continue
                hp = h.args.args[1].arg
                hg = ctx.cfg(h)
                ho = hg.find(lambda x: isinstance(x, ast.Call) and isinstance(x.func, ast.Attribute) and x.func.attr == "func" and src(x.func.value) == hp)
                if len(ho) == 1:
                    runner = (n, cl, h, hg, ho[0], hp)
        if not outs and runner is None and any(isinstance(x, ast.Call) and (call_name(x) or "").startswith("self.") and x.args for x in ast.walk(f)):
            ctx.need(False, "the call-out `X.func(*X.args, **X.kw)` of advance (not found directly or in a one-argument private helper)")
        ctx.check(len(outs) == 1 or (not outs and runner is not None), "advance/calls-once", q,
                  f"{len(outs)} call-outs `X.func(...)` in advance (exactly one expected)")
        if len(pops) != 1 or (len(outs) != 1 and runner is None):
            return
        pop = pops[0]
        out = outs[0] if outs else runner[0]
        pst = g.node(pop).ast
        if isinstance(pst, ast.Assign) and isinstance(pst.targets[0], ast.Name):
            var = pst.targets[0].id
        else:
            # `head = self.calls[0]` ... `self.calls.pop(0)` / `del self.calls[0]`: the call taken is the one peeked at
            peeks = [st for st in ast.walk(f) if isinstance(st, (ast.Assign, ast.AnnAssign)) and getattr(st, "value", None) is not None
                     and src(st.value) == "self.calls[0]" and isinstance((st.targets[0] if isinstance(st, ast.Assign) else st.target), ast.Name)
                     and all(g.dominates(n_, pop) for n_ in g.ids_of(st))]
            ctx.need(len(peeks) == 1, "`call = self.calls.pop(0)` (or a peeked head followed by pop/del)")
            var = (peeks[0].targets[0] if isinstance(peeks[0], ast.Assign) else peeks[0].target).id
        for t in tw:
            ctx.check(g.dominates(t, pop) and all(g.dominates(t, h) for h in heads), "advance/clock-before-calls", ctx.construct(q, g.node(t).ast),
                      "calls are examined before the clock has been moved: a call reached by this advance is left for the next one")
        # (b) MUST-INTERVENE: a re-sort between entry / time change / call-out and the next look at the head
        wit = g.path([g.entry], heads, avoid=sorts)
        ctx.check(bool(sorts) and wit is None, "advance/sorted-before-head", q + " | <entry>",
                  "the head of `calls` is examined without sorting first: a call reset()/delay()ed since the last advance is out of place",
                  witness=g.describe(wit))
        wit = g.path([out], heads, avoid=sorts, strict=True, edge_ok=lambda a_, b_, l: l != "exc")
        ctx.check(wit is None, "advance/resorted-after-call", ctx.construct(q, g.node(out).ast),
                  "after a call ran (it may have scheduled, reset or delayed calls) the head of `calls` is examined without re-sorting: "
                  "calls run out of time order or are missed by this advance", witness=g.describe(wit))
        # (c) boundary
        guards = g.edge_guards(pop)
        facts = [(norm(e_), pol, t) for t, lab in guards for e_, pol in _atoms(ms, g.node(t).ast, lab == "T")]
        nonempty = any((_self_attr(e_, "calls") and pol) or (lin_cmp(e_, negate=not pol) == (frozenset({("len(self.calls)", 1)}), 0, True))
                       or (lin_cmp(e_, negate=not pol) == (frozenset({("len(self.calls)", 1)}), 1, False)) for e_, pol, _ in facts)
        ctx.check(nonempty, "advance/loop-boundary", q + " | <calls non-empty>",
                  "a call is popped although `calls` may be empty")
        subst = {"self.rightNow": ({"self.seconds()": 1}, 0)}
        for st in ast.walk(f):
            if isinstance(st, ast.Assign) and isinstance(st.targets[0], ast.Name) and src(st.value) in ("self.seconds()", "self.rightNow") \
                    and all(g.dominates(tw_, n) for tw_ in tw for n in g.ids_of(st)):
                subst[st.targets[0].id] = ({"self.seconds()": 1}, 0)
        want = (frozenset({("self.seconds()", 1), ("self.calls[0].getTime()", -1)}), 0, False)
        nfs = [(lin_cmp(e_, subst, negate=not pol), t) for e_, pol, t in facts]
        # the due-test must read the clock's CURRENT time: a local holding the time may be used in it only if it is re-read after
        # every call-out (a running call can advance this very clock; a snapshot taken before the call-out is stale)
        clockish = {k for k, v in pure.items() if any(src(x) in ("self.seconds()", "self.rightNow") for x in ast.walk(norm(v)))}
        stale = 0
        for t, _lab in guards:
            used = {x.id for x in ast.walk(g.node(t).ast) if isinstance(x, ast.Name) and x.id in clockish}
            for nm in sorted(used):
                binds = g.ids(lambda n_: n_.kind == "stmt" and isinstance(n_.ast, (ast.Assign, ast.AnnAssign)) and any(
                    isinstance(t_, ast.Name) and t_.id == nm for t_ in (n_.ast.targets if isinstance(n_.ast, ast.Assign) else [n_.ast.target])))
                wit = g.path([out], [t], avoid=binds, strict=True, edge_ok=lambda a_, b_, l: l != "exc")
                stale += 1
                ctx.check(wit is None, "advance/clock-reread-after-call", ctx.construct(q, g.node(t).ast),
                          f"the due-test compares against `{nm}`, a snapshot of the clock taken before the call-out: a running call that "
                          "advances this clock and schedules / resets a call to the new time leaves it pending when advance() returns",
                          witness=g.describe(wit))
        if not stale:
            ctx.ok("advance/clock-reread-after-call", q + " | <the due-test reads seconds()/rightNow itself>")
        nfs = [(nf, t) for nf, t in nfs if nf is not None]
        hit = [t for nf, t in nfs if nf == want]
        near = [(nf, t) for nf, t in nfs if nf != want]
        ctx.check(bool(hit), "advance/loop-boundary", ctx.construct(q, g.node(near[0][1]).ast) if near and not hit else q + " | <head.getTime() <= now>",
                  "a call is taken under the condition `" + (lin_cmp_text(near[0][0]) if near else "<none>") + "` instead of "
                  "`now - head.getTime() >= 0`: a call scheduled exactly for the new time is not run by this advance, or a call is run "
                  "by its unadjusted time (before a reset()/delay() took effect)")
        # (d) the call-out
        if runner is not None:
            _, cl, h, hg, ho, hp = runner
            call = next(x for x in walk_local(hg.node(ho).ast) if isinstance(x, ast.Call) and isinstance(x.func, ast.Attribute) and x.func.attr == "func")
            c = ctx.construct(f"{C}.{h.name}", call)
            ctx.check(src(cl.args[0]) == var and g.dominates(pop, out), "advance/removed-before-call", c,
                      "the function that runs does not belong to the call just removed from `calls`")
            star = [src(x.value) for x in call.args if isinstance(x, ast.Starred)]
            dstar = [src(k.value) for k in call.keywords if k.arg is None]
            ctx.check(star == [f"{hp}.args"] and dstar == [f"{hp}.kw"] and len(call.args) == 1, "advance/arguments", c,
                      "the function is not called with the call's own args / kw")
            hmarks = hg.ids(lambda n: n.kind == "stmt" and isinstance(n.ast, ast.Assign) and any(src(t) == f"{hp}.called" for t in n.ast.targets)
                            and isinstance(n.ast.value, ast.Constant) and bool(n.ast.value.value))
            omarks = g.ids(lambda n: n.kind == "stmt" and isinstance(n.ast, ast.Assign) and any(src(t) == f"{var}.called" for t in n.ast.targets)
                           and isinstance(n.ast.value, ast.Constant) and bool(n.ast.value.value))
            ok_mark = (bool(hmarks) and hg.path([hg.entry], [ho], avoid=hmarks) is None) or (bool(omarks) and g.path([pop], [out], avoid=omarks) is None)
            ctx.check(ok_mark, "advance/called-before-call", c, "the function runs before `called` is set")
        call = next((x for x in walk_local(g.node(out).ast) if isinstance(x, ast.Call) and isinstance(x.func, ast.Attribute) and x.func.attr == "func"), None)
        c = ctx.construct(q, call if call is not None else g.node(out).ast)
        if call is None:
            call = ast.parse(f"{var}.func(*{var}.args, **{var}.kw)").body[0].value   # checked inside the helper above
        ctx.check(src(call.func.value) == var and g.dominates(pop, out), "advance/removed-before-call", c,
                  "the function that runs does not belong to the call just removed from `calls` (a running call must not be listed as "
                  "pending; a nested advance() would run it again)")
        star = [src(x.value) for x in call.args if isinstance(x, ast.Starred)]
        dstar = [src(k.value) for k in call.keywords if k.arg is None]
        ctx.check(star == [f"{var}.args"] and dstar == [f"{var}.kw"] and len(call.args) == 1, "advance/arguments", c,
                  "the function is not called with the call's own args / kw")
        marks = g.ids(lambda n: n.kind == "stmt" and isinstance(n.ast, ast.Assign) and any(src(t) == f"{var}.called" for t in n.ast.targets)
                      and isinstance(n.ast.value, ast.Constant) and bool(n.ast.value.value))
        wit = g.path([pop], [out], avoid=marks)
        if runner is not None:
            marks, wit = [out], None
        ctx.check(bool(marks) and wit is None, "advance/called-before-call", c,
                  "the function runs before `called` is set: cancel() from inside it tries to remove the call from `calls` again "
                  "(ValueError) and reset()/delay() silently re-time a call that is no longer scheduled", witness=g.describe(wit))
        loop_tests = [t for t, _ in guards]
        wit = g.path([pop], loop_tests + [g.exit], avoid=[out], strict=True,
                     edge_ok=lambda a_, b_, l: l != "exc" and not (g.node(a_).kind == "test" and src(g.node(a_).ast) == f"{var}.cancelled" and l == "T"))
        ctx.check(wit is None, "advance/removed-call-runs", q + " | <after pop>", "a call removed from `calls` can be dropped without being run",
                  witness=g.describe(wit))
        wit = g.path([out], [g.exit], avoid=loop_tests, strict=True, edge_ok=lambda a_, b_, l: l != "exc")
        ctx.check(wit is None, "advance/all-due-calls-run", q + " | <after the call>",
                  "after running one call advance() can return without re-examining the head of `calls`: further calls reached by this "
                  "advance are left for a later one", witness=g.describe(wit))
        # (e) once the clock has moved, advance() must examine `calls` (run loop / emptiness test) before it returns: an early
        #     return that relies on some other activation to run what became due loses calls when that activation is gone
        examines = set(g.ids(lambda n: n.kind == "test" and _mentions_calls(ms, norm(n.ast))))
        for t in tw:
            wit = g.path([t], [g.exit], avoid=examines, strict=True, edge_ok=lambda a_, b_, l: l != "exc")
            ctx.check(wit is None, "advance/time-change-reaches-run-loop", ctx.construct(q, g.node(t).ast),
                      "advance() can move the clock and return without looking at `calls`: calls reached by this advance do not run "
                      "during it (and never, if nobody else runs them)", witness=g.describe(wit))
        # (f) a guard attribute set before the call-out and tested in advance() must be cleared on EVERY way out, the
        #     exceptional one included (a raising call would otherwise leave every later advance() disabled)
        tested = {src(n.ast) for n in g.nodes if n.kind == "test" and isinstance(n.ast, ast.Attribute) and isinstance(n.ast.value, ast.Name)
                  and n.ast.value.id == "self"}
        flags = 0
        for n in g.ids(lambda n: n.kind == "stmt" and isinstance(n.ast, ast.Assign) and len(n.ast.targets) == 1
                       and isinstance(n.ast.targets[0], ast.Attribute) and src(n.ast.targets[0]) in tested
                       and isinstance(n.ast.value, ast.Constant) and bool(n.ast.value.value)):
            name = src(g.node(n).ast.targets[0])
            if not g.path([n], [out]):
                continue
            flags += 1
            clears = g.ids(lambda m: m.kind == "stmt" and isinstance(m.ast, ast.Assign) and any(src(t_) == name for t_ in m.ast.targets)
                           and isinstance(m.ast.value, ast.Constant) and not m.ast.value.value)
            wit = g.path([n], [g.exit, g.raise_exit], avoid=clears, strict=True)
            ctx.check(bool(clears) and wit is None, "advance/guard-reset-on-every-exit", ctx.construct(q, g.node(n).ast),
                      f"{name} is set before the call-out and tested by advance(), but is not cleared when a scheduled call raises: the "
                      "exception leaves it set and every later advance() skips the run loop - the remaining calls never run",
                      witness=g.describe(wit))
        if not flags:
            ctx.ok("advance/guard-reset-on-every-exit", q + " | <no guard attribute around the call-out>")
        k = next((a_.kind for a_ in acc if a_.kind.startswith("pop_")), "pop_first")   # `del self.calls[0]` takes the first
        ctx.check(k == "pop_first", "advance/takes-head", ctx.construct(q, g.node(pop).ast), "the call taken is not the first of the ascending list")




_ADV = ('        self.rightNow += amount\n        self._sortCalls()\n        while self.calls and self.calls[0].getTime() <= self.seconds():\n'
        '            call = self.calls.pop(0)\n            call.called = 1\n            call.func(*call.args, **call.kw)\n            self._sortCalls()\n')

MUTANTS = [
    Mutant("only-one-call-per-advance", TASK, "        while self.calls and self.calls[0].getTime() <= self.seconds():", "        if self.calls and self.calls[0].getTime() <= self.seconds():",
           expect_rule="advance/all-due-calls-run"),
    Mutant("no-resort-after-call", TASK, "            call.func(*call.args, **call.kw)\n            self._sortCalls()\n", "            call.func(*call.args, **call.kw)\n",
           expect_rule="advance/resorted-after-call"),
    Mutant("sort-descending", TASK, "self.calls.sort(key=lambda a: a.getTime())", "self.calls.sort(key=lambda a: a.getTime(), reverse=True)", expect_rule="sort/ascending-stable"),
    Mutant("pop-from-the-back", TASK, "call = self.calls.pop(0)", "call = self.calls.pop()", expect_rule="calls/ownership"),
    Mutant("boundary-strict", TASK, "self.calls[0].getTime() <= self.seconds()", "self.calls[0].getTime() < self.seconds()", expect_rule="advance/loop-boundary"),
    Mutant("boundary-ignores-delay", TASK, "self.calls[0].getTime() <= self.seconds()", "self.calls[0].time <= self.seconds()", expect_rule="advance/loop-boundary"),
    Mutant("called-after-call", TASK, "            call.called = 1\n            call.func(*call.args, **call.kw)\n", "            call.func(*call.args, **call.kw)\n            call.called = 1\n",
           expect_rule="advance/called-before-call"),
    Mutant("no-sort-on-entry", TASK, "        self.rightNow += amount\n        self._sortCalls()\n", "        self.rightNow += amount\n", expect_rule="advance/sorted-before-head"),
    Mutant("canceller-does-not-remove", TASK, "            self.calls.remove,\n", "            lambda c: None,\n", expect_rule="callLater/canceller-removes"),
    Mutant("sort-by-unadjusted-time", TASK, "key=lambda a: a.getTime()", "key=lambda a: a.time", expect_rule="sort/ascending-stable"),
    Mutant("clock-moved-after-calls", TASK, _ADV, _ADV.replace("        self.rightNow += amount\n", "") + "        self.rightNow += amount\n", expect_rule="advance/clock-before-calls"),
    Mutant("new-call-inserted-in-front", TASK, "        self.calls.append(dc)\n", "        self.calls.insert(0, dc)\n", expect_rule="calls/ownership"),
    Mutant("sort-rebinds-list", TASK, "        self.calls.sort(key=lambda a: a.getTime())", "        self.calls = sorted(self.calls, key=lambda a: a.getTime())", expect_rule="calls/ownership"),
    Mutant("wall-clock-for-reset", TASK, "            lambda c: None,\n            self.seconds,\n", "            lambda c: None,\n", expect_rule="callLater/wiring"),
    Mutant("cancel-does-not-notify", BASE, "            self.canceller(self)\n            self.cancelled = 1\n", "            self.cancelled = 1\n", expect_rule="cancel/marks-and-notifies"),
    Mutant("delay-ignored-by-getTime", BASE, "        return self.time + self.delayed_time", "        return self.time", expect_rule="key/effective-time"),
    Mutant("peeked-call-not-removed", TASK, "            call = self.calls.pop(0)\n            call.called = 1\n", "            call = self.calls[0]\n            call.called = 1\n",
           expect_rule="advance/takes-head"),
]
SILENT = [
    Silent("explicit-addition", TASK, "        self.rightNow += amount\n", "        self.rightNow = self.rightNow + amount\n"),
    Silent("boundary-swapped", TASK, "self.calls[0].getTime() <= self.seconds()", "self.seconds() >= self.calls[0].getTime()"),
    Silent("sort-key-inline", TASK, "key=lambda a: a.getTime()", "key=lambda c: c.time + c.delayed_time"),
    Silent("loop-with-break", TASK, _ADV,
           '        self.rightNow += amount\n        while True:\n            self._sortCalls()\n            if not self.calls or self.calls[0].getTime() > self.rightNow:\n'
           '                break\n            due = self.calls.pop(0)\n            due.called = 1\n            due.func(*due.args, **due.kw)\n'),
    Silent("get-delayed-calls-copy", TASK, "        return self.calls\n", "        return list(self.calls)\n"),
    Silent("canceller-lambda", TASK, "            self.calls.remove,\n", "            lambda c: self.calls.remove(c),\n"),
    Silent("no-sort-in-callLater", TASK, "        self.calls.append(dc)\n        self._sortCalls()\n", "        self.calls.append(dc)\n"),
]

_POP = "            call = self.calls.pop(0)\n            call.called = 1\n"
_POP_SKIP = "            call = self.calls.pop(0)\n            if call.cancelled:\n                continue\n            call.called = 1\n"
MUTANTS += [
    # lazy cancellation: cancelled calls stay in `calls` (getDelayedCalls lists them) and advance() skips them
    Mutant("lazy-cancellation", TASK, _POP, _POP_SKIP, expect_rule="callLater/canceller-removes", more=[(TASK, "            self.calls.remove,\n", "            lambda c: None,\n")]),
    # a violation in advance must be reported although callLater has a shape the rules cannot read
    Mutant("no-resort-behind-unreadable-callLater", TASK, "            call.func(*call.args, **call.kw)\n            self._sortCalls()\n", "            call.func(*call.args, **call.kw)\n",
           expect_rule="advance/resorted-after-call",
           more=[(TASK, "        dc = DelayedCall(\n            self.seconds() + delay,", "        dc = DelayedCall(\n            *(),\n            self.seconds() + delay,")]),
]
SILENT += [
    Silent("defensive-cancelled-skip", TASK, _POP, _POP_SKIP),
    Silent("advance-early-return-when-empty", TASK, "        self.rightNow += amount\n        self._sortCalls()\n", "        self.rightNow += amount\n        if not self.calls:\n            return\n        self._sortCalls()\n"),
]

MUTANTS += [
    # a public accessor that tidies up: callable from inside a running call, it takes calls out behind advance()'s back
    Mutant("accessor-drops-head", TASK, "        return self.calls\n", "        while self.calls and self.calls[0].called:\n            self.calls.pop(0)\n        return self.calls\n",
           expect_rule="api/no-reordering-from-user-callable"),
]
SILENT += [
    Silent("accessor-resorts", TASK, "        return self.calls\n", "        self._sortCalls()\n        return self.calls\n"),
]

_ADV_GUARDED = ('        self.rightNow += amount\n        if self._advancing:\n            return\n        self._advancing = True\n        self._sortCalls()\n'
                '        while self.calls and self.calls[0].getTime() <= self.seconds():\n            call = self.calls.pop(0)\n            call.called = 1\n'
                '            call.func(*call.args, **call.kw)\n            self._sortCalls()\n        self._advancing = False\n')
_ADV_FLAGGED = ('        self.rightNow += amount\n        self._advancing = True\n        try:\n            self._sortCalls()\n'
                '            while self.calls and self.calls[0].getTime() <= self.seconds():\n                call = self.calls.pop(0)\n                call.called = 1\n'
                '                call.func(*call.args, **call.kw)\n                self._sortCalls()\n        finally:\n            self._advancing = False\n')
MUTANTS += [
    # re-entrancy guard: a nested advance() only moves the clock and leaves the work to the outer loop; the flag is cleared by a plain
    # assignment after the loop, so one raising call disables every later advance()
    Mutant("reentrancy-guard-not-exception-safe", TASK, _ADV, _ADV_GUARDED, expect_rule="advance/guard-reset-on-every-exit",
           more=[(TASK, "    rightNow = 0.0\n", "    rightNow = 0.0\n    _advancing = False\n")]),
    Mutant("nested-advance-only-moves-clock", TASK, _ADV, _ADV_GUARDED, expect_rule="advance/time-change-reaches-run-loop",
           more=[(TASK, "    rightNow = 0.0\n", "    rightNow = 0.0\n    _advancing = False\n")]),
    Mutant("negative-advance-returns-early", TASK, "        self.rightNow += amount\n        self._sortCalls()\n",
           "        self.rightNow += amount\n        if amount <= 0:\n            return\n        self._sortCalls()\n", expect_rule="advance/time-change-reaches-run-loop"),
]
SILENT += [
    # an informational flag, set and cleared exception-safely, that never short-cuts the run loop
    Silent("advancing-flag-informational", TASK, _ADV, _ADV_FLAGGED, more=[(TASK, "    rightNow = 0.0\n", "    rightNow = 0.0\n    _advancing = False\n")]),
]

SILENT += [
    Silent("peek-then-delete-while-true", TASK, _ADV,
           "        self.rightNow += amount\n        while True:\n            self._sortCalls()\n            if not self.calls:\n                break\n            head = self.calls[0]\n"
           "            if head.getTime() > self.seconds():\n                break\n            del self.calls[0]\n            head.called = 1\n            head.func(*head.args, **head.kw)\n"),
    Silent("call-out-in-private-helper", TASK, _ADV,
           "        self.rightNow += amount\n        self._sortCalls()\n        while self.calls and self.calls[0].getTime() <= self.seconds():\n            call = self.calls.pop(0)\n"
           "            self._runCall(call)\n            self._sortCalls()\n\n    def _runCall(self, due):\n        due.called = 1\n        due.func(*due.args, **due.kw)\n"),
    Silent("clock-moved-in-private-helper", TASK, _ADV, _ADV.replace("        self.rightNow += amount\n", "        self._tick(amount)\n") + "\n    def _tick(self, seconds):\n        self.rightNow += seconds\n"),
    Silent("callLater-named-temporaries", TASK, "        dc = DelayedCall(\n            self.seconds() + delay,\n            callable,\n            args,\n            kw,\n            self.calls.remove,\n            lambda c: None,\n            self.seconds,\n        )",
           "        when = self.seconds() + delay\n        unschedule = self.calls.remove\n        dc = DelayedCall(when, callable, args, kw, unschedule, lambda c: None, self.seconds)"),
    Silent("sort-key-method-reference", TASK, "key=lambda a: a.getTime()", "key=DelayedCall.getTime"),
    Silent("head-time-in-local", TASK, _ADV,
           "        self.rightNow += amount\n        self._sortCalls()\n        while self.calls:\n            nextTime = self.calls[0].getTime()\n            if nextTime > self.rightNow:\n                break\n"
           "            call = self.calls.pop(0)\n            call.called = 1\n            call.func(*call.args, **call.kw)\n            self._sortCalls()\n"),
    Silent("sort-by-slice-assignment", TASK, "        self.calls.sort(key=lambda a: a.getTime())", "        self.calls[:] = sorted(self.calls, key=lambda a: a.getTime())"),
]

SILENT += [
    # compound loop header as `while True` with guard-clause breaks over named temporaries (test negated, not flipped)
    Silent("guard-clause-breaks-with-temporaries", TASK, _ADV,
           "        self.rightNow += amount\n        self._sortCalls()\n        while True:\n            queue = self.calls\n            if not queue:\n                break\n"
           "            first = queue[0].getTime()\n            nowTime = self.seconds()\n            if not (first <= nowTime):\n                break\n"
           "            due = self.calls.pop(0)\n            due.called = 1\n            due.func(*due.args, **due.kw)\n            self._sortCalls()\n"),
    # loop test in a private predicate, sort key / reset hook as module-level functions, callLater through a local alias
    Silent("loop-test-in-private-predicate", TASK, "        while self.calls and self.calls[0].getTime() <= self.seconds():", "        while self._somethingDue():",
           more=[(TASK, "    def callLater(\n        self, delay: float, callable: Callable[..., object], *args: object, **kw: object\n    ) -> IDelayedCall:",
                  "    def _somethingDue(self):\n        return bool(self.calls) and self.calls[0].getTime() <= self.seconds()\n\n"
                  "    def callLater(\n        self, delay: float, callable: Callable[..., object], *args: object, **kw: object\n    ) -> IDelayedCall:"),
                 (TASK, "        self.calls.append(dc)\n        self._sortCalls()\n        return dc", "        waiting = self.calls\n        waiting.append(dc)\n        self._sortCalls()\n        return dc"),
                 (TASK, "key=lambda a: a.getTime()", "key=_whenDue"),
                 (TASK, "@implementer(IReactorTime)\nclass Clock:", "def _whenDue(c):\n    return c.getTime()\n\n\n@implementer(IReactorTime)\nclass Clock:")]),
]

_DC_LT = '    def __lt__(self, other: "DelayedCall") -> bool:\n'
MUTANTS += [
    # DelayedCall gets a value equality "for symmetry with <": list.remove / index then pick the first call with the same time
    Mutant("delayed-call-value-equality", BASE, _DC_LT,
           "    def __eq__(self, other: object) -> bool:\n        if not isinstance(other, DelayedCall):\n            return NotImplemented\n"
           "        return self.time == other.time\n\n    __hash__ = object.__hash__\n\n" + _DC_LT, expect_rule="identity/located-by-equality"),
    Mutant("delayed-call-value-equality-witness", BASE, _DC_LT,
           "    def __eq__(self, other):\n        return self.getTime() == other.getTime()\n\n    __hash__ = object.__hash__\n\n" + _DC_LT,
           expect_rule="model/cancel-removes-that-call"),
]
SILENT += [
    Silent("delayed-call-identity-equality-spelled-out", BASE, _DC_LT,
           "    def __eq__(self, other: object) -> bool:\n        return self is other\n\n    __hash__ = object.__hash__\n\n" + _DC_LT),
]

_GEN = ("    def _due(self):\n        while self.calls and self.calls[0].getTime() <= self.seconds():\n            yield self.calls.pop(0)\n\n"
        "    def _run(self, item):\n        item.called = 1\n        item.func(*item.args, **item.kw)\n\n")
_PUMP_DEF = "    def pump(self, timings: Iterable[float]) -> None:"
_ADV_GEN = "        self.rightNow += amount\n        self._sortCalls()\n        for call in self._due():\n            self._run(call)\n            self._sortCalls()\n"
SILENT += [
    # due calls produced one at a time by a private generator, marking + invoking in a private helper, append-then-sort in a helper
    Silent("generator-of-due-calls", TASK, _ADV, _ADV_GEN,
           more=[(TASK, _PUMP_DEF, _GEN + _PUMP_DEF),
                 (TASK, "        self.calls.append(dc)\n        self._sortCalls()\n        return dc", "        self._track(dc)\n        return dc\n\n    def _track(self, item):\n        self.calls.append(item)\n        self._sortCalls()")]),
]
MUTANTS += [
    # the same violations must be seen THROUGH the generator / helper
    Mutant("generator-pops-from-the-back", TASK, _ADV, _ADV_GEN, expect_rule="calls/ownership", more=[(TASK, _PUMP_DEF, _GEN.replace("self.calls.pop(0)", "self.calls.pop()") + _PUMP_DEF)]),
    Mutant("generator-strict-boundary", TASK, _ADV, _ADV_GEN, expect_rule="advance/loop-boundary", more=[(TASK, _PUMP_DEF, _GEN.replace("<= self.seconds()", "< self.seconds()") + _PUMP_DEF)]),
    Mutant("helper-calls-before-marking", TASK, _ADV, _ADV_GEN, expect_rule="advance/called-before-call",
           more=[(TASK, _PUMP_DEF, _GEN.replace("        item.called = 1\n        item.func(*item.args, **item.kw)\n", "        item.func(*item.args, **item.kw)\n        item.called = 1\n") + _PUMP_DEF)]),
    Mutant("generator-loop-without-resort", TASK, _ADV, _ADV_GEN.replace("            self._run(call)\n            self._sortCalls()\n", "            self._run(call)\n"),
           expect_rule="advance/resorted-after-call", more=[(TASK, _PUMP_DEF, _GEN + _PUMP_DEF)]),
]

_STEP = ("    def _step(self):\n        self._sortCalls()\n        if self.calls:\n            if self.calls[0].getTime() <= self.seconds():\n                due = self.calls.pop(0)\n"
         "                due.called = 1\n                due.func(*due.args, **due.kw)\n                return True\n        return False\n\n")
_ADV_STEP = "        self.rightNow += amount\n        while self._step():\n            pass\n"
SILENT += [
    # advance as `while self._step(): pass`, the step sorting first and returning whether it ran a call; sort key from the operator module
    Silent("step-helper-returning-bool", TASK, _ADV, _ADV_STEP,
           more=[(TASK, _PUMP_DEF, _STEP + _PUMP_DEF), (TASK, "key=lambda a: a.getTime()", "key=_whenScheduled"),
                 (TASK, "@implementer(IReactorTime)\nclass Clock:", "from operator import methodcaller\n_whenScheduled = methodcaller(\"getTime\")\n\n\n@implementer(IReactorTime)\nclass Clock:")]),
]
MUTANTS += [
    Mutant("step-helper-does-not-sort", TASK, _ADV, _ADV_STEP, expect_rule="advance/sorted-before-head", more=[(TASK, _PUMP_DEF, _STEP.replace("        self._sortCalls()\n", "") + _PUMP_DEF)]),
    Mutant("step-helper-stops-after-one-call", TASK, _ADV, _ADV_STEP, expect_rule="advance/all-due-calls-run",
           more=[(TASK, _PUMP_DEF, _STEP.replace("                return True\n", "                return False\n") + _PUMP_DEF)]),
    Mutant("operator-key-on-unadjusted-time", TASK, "key=lambda a: a.getTime()", "key=_whenScheduled", expect_rule="sort/",
           more=[(TASK, "@implementer(IReactorTime)\nclass Clock:", "from operator import attrgetter\n_whenScheduled = attrgetter(\"time\")\n\n\n@implementer(IReactorTime)\nclass Clock:")]),
]

MUTANTS += [
    # the clock is read once before the loop and the snapshot is compared on every round
    Mutant("clock-snapshot-before-the-loop", TASK, "        self.rightNow += amount\n        self._sortCalls()\n        while self.calls and self.calls[0].getTime() <= self.seconds():",
           "        self.rightNow += amount\n        reached = self.rightNow\n        self._sortCalls()\n        while self.calls and self.calls[0].getTime() <= reached:",
           expect_rule="advance/clock-reread-after-call"),
    # ... also when the loop lives in a step helper that is handed the snapshot
    Mutant("step-helper-given-a-snapshot", TASK, _ADV, "        self.rightNow += amount\n        upTo = self.seconds()\n        while self._step(upTo):\n            pass\n",
           expect_rule="advance/clock-reread-after-call",
           more=[(TASK, _PUMP_DEF, _STEP.replace("def _step(self):", "def _step(self, limit):").replace("<= self.seconds()", "<= limit") + _PUMP_DEF)]),
]
SILENT += [
    Silent("clock-reread-into-local-each-round", TASK, _ADV,
           "        self.rightNow += amount\n        self._sortCalls()\n        while self.calls:\n            reached = self.seconds()\n            if self.calls[0].getTime() > reached:\n                break\n"
           "            call = self.calls.pop(0)\n            call.called = 1\n            call.func(*call.args, **call.kw)\n            self._sortCalls()\n"),
]
