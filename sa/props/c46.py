"""C46 - Endpoint description quoting round-trips (quoteStringArgument <-> _tokenize/_parse)."""
from __future__ import annotations

import ast

from sa.astx import call_name, src, statements
from sa.selftest import Mutant, Silent
from sa.source import AnalysisError
from sa.props._lib_i import sect, COMPAT, BlockRaised, FollowModule, Raised, domain_argument, interp, kinded, module_env, words

PROPERTY = "C46"
RULE_KINDS = {
    "entry/": "structural",
    # complete unit / (state x unit x next unit) domains, premise checked on the code
    "quote/escape-form": "finite-exhaustive", "quote/escaper-order": "finite-exhaustive", "quote/covers-reader-specials": "finite-exhaustive", "tokenize/transition": "finite-exhaustive",
    "quote/escape-form (bounded)": "bounded", "quote/escaper-order (bounded)": "bounded", "tokenize/transition (bounded)": "bounded",
    "roundtrip/": "bounded",
}
EP = "internet/endpoints.py"
TECHNIQUE = "finite-exhaustive writer/reader unit domains with premises checked; bounded round trip"
EXPLANATION = (
    'FINITE-EXHAUSTIVE (premises checked on the code): quoteStringArgument only rewrites single units, so evaluating it on '
    'every printable ASCII unit (plus TAB, LF, a non-ASCII one) and on the orderings of the escaped units is complete - eac'
    'h escaped unit becomes escape + unit with one escape unit and no double escaping; _tokenize takes its decisions from t'
    "he current unit, constants and its own state, a machine over (separator set) x ({':', '=', backslash, other}) x (next "
    'unit): every description over that alphabet up to length 4 equals the documented tokenizer; every unit the tokenizer t'
    "reats specially - printable ASCII, TAB, LF, a non-ASCII unit and every one-unit literal the reader's code mentions, probed at the start, inside, at the end of and as a whole positional / keyword / later argument against the same description with a plain letter in its place - is escaped by the writer (F46: '=' was missing; fixed). STRUCTURAL: serverFr"
    'omString, _parseServer and clientFromString pass their description unchanged to the parser on every path. BOUNDED only'
    ': _parse(_tokenize(...)) with quoteStringArgument(t) as first / last positional and keyword argument for texts <= 3 ov'
    'er the alphabet plus white space / non-ASCII samples. Not decided: per-endpoint conversion of the parsed strings.'
)
ASSUMPTIONS = ["_matchingString / iterbytes / nativeString behave as documented in twisted.python.compat (modelled)",
               "texts are str (quoteStringArgument is documented for str)"]

ALPHABET = (":", "=", "\\", "a")


def _call(fn, *args):
    try:
        return fn(*args), None
    except Raised as e:
        return None, str(e)
    except BlockRaised as e:
        return None, repr(e.exc)


def check(ctx):
    mod = ctx.mod(EP)
    env0 = module_env(mod)
    ctx.need("_OP" in env0 and "_STRING" in env0, "_OP, _STRING token kinds")
    base = "twisted.internet.endpoints."
    funcs = FollowModule(mod, dict(COMPAT), env0)      # explicit models + every other module-level helper of endpoints.py, interpreted on demand

    # ---- writer as an ordered rewrite system -------------------------------------------------------------------------------
    with sect(ctx, 'writer as an ordered rewrite system'):
        fq = ctx.func(EP, "quoteStringArgument")
        q = base + "quoteStringArgument"
        quote = interp(fq, funcs, env0)
        q_methods = {c.func.attr for c in ast.walk(fq) if isinstance(c, ast.Call) and isinstance(c.func, ast.Attribute)}
        ex_q = q_methods <= {"replace", "sub", "join"} and not any(isinstance(x, (ast.While,)) for x in ast.walk(fq))
        why_q = ("the quoter only rewrites single units (.replace / regex over one character class / per-character join): it acts character-wise, so every single unit plus the "
                 "orderings of the escaped units is a complete domain" if ex_q else "premise of exhaustiveness not established on this shape: bounded evidence")
        if not ex_q:
            ctx.note(f"{q}: {why_q}")
        units = [chr(c) for c in range(0x20, 0x7F)] + ["\t", "\n", "\u00e9"]
        outs = {}
        for u in units:
            got, err = _call(quote, u)
            if err is not None:
                raise AnalysisError(f"{q}({u!r}) not evaluable: {err}")
            outs[u] = got
        written = {u for u in units if outs[u] != u}
        escs = {outs[u][0] for u in written if isinstance(outs[u], str) and len(outs[u]) == 2 and outs[u][1] == u}
        ctx.check(len(escs) == 1 and all(len(outs[u]) == 2 and outs[u][1] == u for u in written), kinded("quote/escape-form", ex_q), q,
                  f"rewrites { {u: outs[u] for u in sorted(written)} !r} are not all of the form unit -> escape + unit with one escape unit")
        esc = next(iter(escs)) if len(escs) == 1 else "\\"
        for t in ("".join(sorted(written)), "".join(sorted(written, reverse=True)), esc + esc + ":", "a" + esc):
            got, err = _call(quote, t)
            want = "".join((esc + c) if c in written else c for c in t)
            ctx.check(err is None and got == want, kinded("quote/escaper-order", ex_q), f"{q} | {t!r}",
                      f"quoteStringArgument({t!r}) gives {(got if err is None else err)!r} instead of {want!r}: the escape unit must be escaped first, else the "
                      "backslashes added for other characters are doubled (or the escape unit itself is not escaped)")

    # ---- reader transition table --------------------------------------------------------------------------------------------------
    with sect(ctx, 'reader transition table'):
        ft = ctx.func(EP, "_tokenize")
        q = base + "_tokenize"
        tok = interp(ft, funcs, env0)
        S, O = env0["_STRING"], env0["_OP"]
        t_state = {t.id for st in ast.walk(ft) if isinstance(st, (ast.Assign, ast.AugAssign)) for t in (st.targets if isinstance(st, ast.Assign) else [st.target]) if isinstance(t, ast.Name)}
        ex_t, why_t = domain_argument([ft], inputs={a.arg for a in ft.args.args} | {n.id for st in ast.walk(ft) if isinstance(st, ast.For) for n in ast.walk(st.target) if isinstance(n, ast.Name)},
                                      state=t_state, helpers={h.name for h in mod.tree.body if isinstance(h, ast.FunctionDef)})
        why_t = (why_t + ": the tokenizer is a machine over (separator set) x (unit class {':', '=', backslash, other}) x (next unit), every such triple occurs in a description of "
                 "length <= 4") if ex_t else f"premise of exhaustiveness not established ({why_t}): bounded evidence"
        if not ex_t:
            ctx.note(f"{q}: {why_t}")

        def ref_tokens(text):
            """The documented tokenizer: ':' and '=' separate (after '=' only ':' does, until the next ':'), a backslash makes the next unit literal."""
            out, cur, ops, i = [], "", ":=", 0
            while i < len(text):
                n = text[i]
                if n in ops:
                    out += [(S, cur), (O, n)]
                    cur = ""
                    ops = ":=" if n == ":" else ":"
                elif n == "\\":
                    i += 1
                    cur += text[i]
                else:
                    cur += n
                i += 1
            return out + [(S, cur)]
        bad = None
        n_words = 0
        for w in words(ALPHABET + ("b",), 4):
            text = "".join(w)
            if len(text) - len(text.rstrip("\\")) & 1:
                continue                                   # a dangling escape at the very end is malformed input
            got, err = _call(tok, text)
            n_words += 1
            want = ref_tokens(text)
            if err is not None or list(got) != want:
                bad = (text, list(got) if err is None else err, want)
                break
        ctx.check(bad is None, kinded("tokenize/transition", ex_t), q,
                  bad and f"_tokenize({bad[0]!r}) yields {bad[1]!r}; the documented tokenizer yields {bad[2]!r} (separators end a token, a backslash makes the next unit literal "
                  "and is itself dropped)", detail=f"{n_words} descriptions over {{':', '=', backslash, 'a', 'b'}}^<=4; " + why_t)
    # ---- K10: every unit the reader treats specially is escaped by the writer ---------------------------------------------------------
    with sect(ctx, 'K10: every unit the reader treats specially is escaped by the writer'):
        ft = ctx.func(EP, "_tokenize")
        tok = interp(ft, funcs, env0)
        S = env0["_STRING"]
        rspecials, resc = set(), set()
        # probe units: printable ASCII, some others, and every one-unit literal the reader's code mentions (so a newly introduced metacharacter is probed wherever it lies)
        mentioned = {x.value for fn_ in ("_tokenize", "_parse") for x in ast.walk(ctx.func(EP, fn_)) if isinstance(x, ast.Constant) and isinstance(x.value, str) and len(x.value) == 1}
        units = [chr(c) for c in range(0x20, 0x7F)] + ["\t", "\n", "\u00e9"]
        units += sorted(mentioned - set(units))
        def plain_letter(c):
            got, err = _call(tok, "a" + c + "b")
            return err is None and list(got) == [(S, "a" + c + "b")]
        neutral = next((c for c in "qzwv" if plain_letter(c)), None)
        if neutral is None:
            raise AnalysisError("_tokenize: no neutral probe letter")
        where, ref_cache = {}, {}
        for u in units:
            t1, e1 = _call(tok, "a" + u + "b")
            if e1 is None and list(t1) == [(S, "ab")]:
                resc.add(u)
            if u == neutral:
                continue
            # the unit at the start, in the middle, at the end, alone and doubled; as positional argument, keyword value, later argument; followed by more or not:
            # it is plain iff the description tokenizes exactly as with a neutral letter in its place
            for text in (u + "b", "a" + u + "b", "a" + u, u, u + u):
                for pre in ("", "k=", "x:"):
                    for post in ("", ":k=y"):
                        rk = pre + text.replace(u, neutral) + post
                        if rk not in ref_cache:
                            ref_cache[rk] = _call(tok, rk)
                        ref, eref = ref_cache[rk]
                        if eref is not None:
                            raise AnalysisError(f"_tokenize not evaluable on {pre + text.replace(u, neutral) + post!r}: {eref}")
                        want_t = [(k_, v_.replace(neutral, u) if k_ == S else v_) for k_, v_ in ref]
                        got, e1 = _call(tok, pre + text + post)
                        if (e1 is not None or list(got) != want_t) and u not in rspecials:
                            rspecials.add(u)
                            where[u] = (pre + text + post, e1 if e1 is not None else list(got), want_t)
        ctx.check(len(resc) == 1 and resc <= written, "quote/covers-reader-specials", f"{base}quoteStringArgument | reader's escape unit",
                  f"_tokenize treats {sorted(resc)!r} as 'next unit is literal'; quoteStringArgument escapes {sorted(written)!r}")
        for u in sorted(rspecials):
            ctx.check(u in written, "quote/covers-reader-specials", f"{base}quoteStringArgument | reader-special {u!r}",
                      f"_tokenize gives {u!r} a special meaning ({'escape' if u == esc else 'separator or other metacharacter'}) but quoteStringArgument does not escape it: "
                      + ("a quoted positional argument containing '=' is parsed as a keyword" if u == "=" else "the quoted text is split or altered when parsed")
                      + f" (e.g. {where[u][0]!r} tokenizes to {where[u][1]!r}, with a plain letter in its place to {where[u][2]!r})")
        ctx.floor("quote/covers-reader-specials", len(rspecials), 2)

    # ---- bounded round trip through _parse --------------------------------------------------------------------------------------------------
    with sect(ctx, 'bounded round trip through _parse'):
        fp = ctx.func(EP, "_parse")
        tokenize = interp(ft, funcs, env0)
        f2 = FollowModule(mod, dict(funcs), env0)
        f2["_tokenize"] = tokenize
        parse = interp(fp, f2, env0)
        quote = interp(fq, funcs, env0)
        shapes = {
            "first positional argument": (lambda qd: "tcp:" + qd + ":80:k=v", lambda t: (["tcp", t, "80"], {"k": "v"})),
            "last positional argument": (lambda qd: "tcp:80:" + qd, lambda t: (["tcp", "80", t], {})),
            "keyword argument": (lambda qd: "tcp:80:k=" + qd + ":j=1", lambda t: (["tcp", "80"], {"k": t, "j": "1"})),
            "last keyword argument": (lambda qd: "unix:k=" + qd, lambda t: (["unix"], {"k": t})),
        }
        texts = ["".join(w) for w in words(ALPHABET, 3)] + [" a ", "\t", " ", "\u00e9:", "a\\:=b c", "k=v:w", "\n"]
        for shape, (build, want) in shapes.items():
            bad = None
            for t in texts:
                qd, err = _call(quote, t)
                if err:
                    raise AnalysisError(f"quoteStringArgument({t!r}) not evaluable: {err}")
                got, err = _call(parse, build(qd))
                if err is not None:
                    bad = (t, build(qd), err)
                    break
                got = (list(got[0]), dict(got[1]))
                if got != want(t):
                    bad = (t, build(qd), got)
                    break
            ctx.check(bad is None, "roundtrip/parse-of-quoted", f"{base}quoteStringArgument ~ _parse | {shape}",
                      bad and f"text {bad[0]!r} quoted into {bad[1]!r} parses to {bad[2]!r}; required {want(bad[0])!r}", detail=f"{len(texts)} texts over {ALPHABET!r}, length <= 3")

    # ---- both entry points parse the unmodified description ---------------------------------------------------------------------------------------
    with sect(ctx, 'both entry points parse the unmodified description'):
        for fname, via in (("_parseServer", "_parse"), ("serverFromString", "_parseServer"), ("clientFromString", "_parse")):
            f = ctx.func(EP, fname)
            g = ctx.cfg(f)
            dparam = next((a.arg for a in f.args.args if a.arg == "description"), None)
            ctx.need(dparam, f"description parameter of {fname}")
            calls = g.find(lambda x: isinstance(x, ast.Call) and call_name(x) == via and x.args and src(x.args[0]) == dparam)
            rebinds = [st for st in statements(f) if isinstance(st, (ast.Assign, ast.AugAssign)) and any(isinstance(t, ast.Name) and t.id == dparam
                       for t in (st.targets if isinstance(st, ast.Assign) else [st.target]))]
            wit = g.must_pass([g.entry], calls, exc=False) if calls else None
            ctx.check(bool(calls) and wit is None and not rebinds, "entry/description-parsed-verbatim", base + fname,
                      f"{fname} does not hand its description unchanged to {via} on every path (pre-processing breaks the quoting contract)", witness=g.describe(wit))


_Q = '    backslash, colon, equals = "\\\\:="\n    for c in backslash, colon, equals:\n        argument = argument.replace(c, backslash + c)\n'
MUTANTS = [
    Mutant("F46-revert-equals-not-escaped", EP, _Q, '    backslash, colon = "\\\\:"\n    for c in backslash, colon:\n        argument = argument.replace(c, backslash + c)\n',
           expect_rule="quote/covers-reader-specials"),
    Mutant("colon-escaped-before-backslash", EP, "    for c in backslash, colon, equals:\n", "    for c in colon, backslash, equals:\n", expect_rule="quote/escaper-order"),
    Mutant("backslash-not-escaped", EP, "    for c in backslash, colon, equals:\n", "    for c in colon, equals:\n", expect_rule="quote/"),
    Mutant("quote-by-regex-without-equals", EP, _Q, '    return re.sub(r"([\\\\:])", r"\\\\\\1", argument)\n', expect_rule="quote/covers-reader-specials"),
    Mutant("escape-keeps-backslash", EP, "            current += next(iterdesc)\n", "            current += n + next(iterdesc)\n", expect_rule="tokenize/transition"),
    Mutant("tokenizer-escape-only-for-colon", EP, "        elif n == backslash:\n            current += next(iterdesc)\n",
           "        elif n == backslash:\n            nxt = next(iterdesc)\n            current += nxt if nxt == colon else n + nxt\n", expect_rule="tokenize/transition"),
    Mutant("parse-drops-empty-token", EP, "        if type is _STRING:\n            sofar += (value,)\n", "        if type is _STRING:\n            if value:\n                sofar += (value,)\n",
           expect_rule="roundtrip/parse-of-quoted"),
    Mutant("parse-keyword-takes-last-part", EP, "            kw[nativeString(sofar[0])] = sofar[1]\n", "            kw[nativeString(sofar[0])] = sofar[-1].strip()\n", expect_rule="roundtrip/parse-of-quoted"),
    Mutant("client-description-preprocessed", EP, "    args, kwargs = _parse(description)\n", "    args, kwargs = _parse(description.replace(\"\\\\\\\\\", \"/\"))\n",
           expect_rule="entry/description-parsed-verbatim"),
    Mutant('tokenizer-learns-double-quoted-values-writer-does-not', EP, '        elif n == backslash:\n            current += next(iterdesc)\n        else:\n', '        elif n == backslash:\n            current += next(iterdesc)\n        elif n == dquote and not current:\n            for n in iterdesc:\n                if n == dquote:\n                    break\n                current += n\n        else:\n', more=[(EP, '    current = empty\n\n    ops = colon + equals\n', '    dquote = _matchingString(\'"\', description)\n    current = empty\n\n    ops = colon + equals\n')], expect_rule='quote/covers-reader-specials'),
    Mutant('tokenizer-treats-hash-as-end-of-description', EP, '        elif n == backslash:\n            current += next(iterdesc)\n        else:\n', '        elif n == backslash:\n            current += next(iterdesc)\n        elif n == _matchingString("#", description):\n            break\n        else:\n', expect_rule='quote/covers-reader-specials'),
]
SILENT = [
    Silent('double-quoted-values-known-to-reader-and-writer', EP, '        elif n == backslash:\n            current += next(iterdesc)\n        else:\n', '        elif n == backslash:\n            current += next(iterdesc)\n        elif n == dquote and not current:\n            for n in iterdesc:\n                if n == dquote:\n                    break\n                current += n\n        else:\n', more=[(EP, '    current = empty\n\n    ops = colon + equals\n', '    dquote = _matchingString(\'"\', description)\n    current = empty\n\n    ops = colon + equals\n'), (EP, '    backslash, colon, equals = "\\\\:="\n    for c in backslash, colon, equals:\n        argument = argument.replace(c, backslash + c)\n', '    backslash, colon, equals, dquote = "\\\\:=\\""\n    for c in backslash, colon, equals, dquote:\n        argument = argument.replace(c, backslash + c)\n')]),
    Silent("quote-explicit-chain", EP, _Q, '    backslash, colon, equals = "\\\\:="\n    argument = argument.replace(backslash, backslash + backslash).replace(equals, backslash + equals).replace(colon, backslash + colon)\n'),
    Silent("quote-by-regex", EP, _Q, '    return re.sub(r"([\\\\:=])", r"\\\\\\1", argument)\n'),
    Silent("quote-char-by-char", EP, _Q, '    return "".join("\\\\" + ch if ch in "\\\\:=" else ch for ch in argument)\n'),
    Silent("parse-store-helper-at-module-level", EP, "        elif value == colon:\n            add(sofar)\n            sofar = ()\n    add(sofar)\n    return args, kw\n",
           "        elif value == colon:\n            _store(sofar, args, kw)\n            sofar = ()\n    _store(sofar, args, kw)\n    return args, kw\n",
           more=[(EP, "def _parse(description):\n", "def _store(pieces, args, kw):\n    if len(pieces) == 1:\n        args.append(pieces[0])\n    else:\n        kw[nativeString(pieces[0])] = pieces[1]\n\n\ndef _parse(description):\n")]),
    Silent("tokenizer-operators-as-tuple", EP, "    ops = colon + equals\n    nextOps = {colon: colon + equals, equals: colon}\n", "    ops = (colon, equals)\n    nextOps = {colon: (colon, equals), equals: (colon,)}\n",
           more=[(EP, "        if n in iterbytes(ops):\n", "        if n in ops:\n")]),
    Silent("quote-table-at-module-level", EP, _Q, "    for c in _SPECIALS:\n        argument = argument.replace(c, _ESC + c)\n",
           more=[(EP, "def quoteStringArgument(argument):\n", "_ESC = \"\\\\\"\n_SPECIALS = (_ESC, \":\", \"=\")\n\n\ndef quoteStringArgument(argument):\n")]),
    Silent("tokenizer-stepped-with-sentinel", EP, "    for n in iterdesc:\n        if n in iterbytes(ops):\n", "    done = object()\n    while True:\n        n = next(iterdesc, done)\n        if n is done:\n            break\n        if n in iterbytes(ops):\n"),
    Silent("tokenizer-membership-spelling", EP, "        if n in iterbytes(ops):\n", "        if n in ops:\n"),
    Silent("parse-tuple-concat", EP, "            sofar += (value,)\n", "            sofar = sofar + (value,)\n"),
]
