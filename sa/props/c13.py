"""C13 - callFromThread runs each call once, in per-thread order."""
from __future__ import annotations

import ast

from sa.astx import body_walk, call_attr, call_name, dotted, src
from sa.effects import accesses
from sa.selftest import Mutant, Silent
from sa.source import AnalysisError, methods, mro_lookup
from sa.props._lib_c import (norm_class, norm_func, all_funcs_of_class, _class_functions, section, EvalUnsupported, Interp, SelfRef, LOGGER, assign_pairs, enclosing, gfind, is_const, isolating_with, must_pass, no_exc, parents, self_attr,
                             swallowing_predicate)

PROPERTY = "C13"
BASE = "internet/base.py"
POSIX = "internet/posixbase.py"
ASYNCIO = "internet/asyncioreactor.py"
SIGNALS = "internet/_signals.py"
QR = "twisted.internet.base.ReactorBase"
QUEUE = "threadCallQueue"
TECHNIQUE = "queue-end kinds, must-pass (enqueue-then-wake, prefix delete), coupled fields, guard table"
EXPLANATION = (
    "Clauses are decided on normalised copies of ReactorBase / AsyncioSelectorReactor (private helpers inlined, temporaries substituted). "
    "Exactly once, per-thread order - STRUCTURAL (queue-end kinds, who-may-write over the whole repository, must-pass): every callFromThread variant appends "
    "exactly (f, args, kwargs) at the tail on every path and never calls f itself; threadCallQueue is mutated nowhere else except the prefix delete of the "
    "drain; the drain iterates the live queue from its head (islice accepted), calls each entry once with its own arguments inside a swallowing handler "
    "inside the loop, counts one per iteration on every edge (exception and break edges included), deletes exactly the counted prefix on every path. "
    "In the reactor thread, promptly - STRUCTURAL (must-pass / must-precede): enqueue precedes wakeUp() and wakeUp() follows on every path (threads variant), "
    "wakeUp reaches waker.wakeUp unconditionally when a waker exists, a non-empty remainder wakes again, mainLoop drains every iteration under its top "
    "handler, __init__ installs the waker, installWaker adds it as reader, the selected waker writes a non-empty constant to the write end of its pair. "
    "Asyncio sibling - STRUCTURAL: call_soon_threadsafe with the call unchanged; _timerHandle/_scheduledAt coupled over all writers (deadline recorded => "
    "live handle); FINITE-EXHAUSTIVE: callLater's re-arm condition, shown to inspect its state only through None-tests and order comparisons with "
    "_scheduledAt, is evaluated on every class of (handle, recorded deadline, new deadline). "
    "Not decided (no decider): real thread interleavings, GIL atomicity of list.append, latency, IOCP / threadedselect wakers."
)
RULE_KINDS = {
    "*": "structural",
    # guard table of callLater's re-arm condition over every (handle None/armed) x (deadline None/past/future) x (new earlier/later) class; complete
    # because the condition is first shown to look at its inputs only through `is None` tests and </<=/>/>= against _scheduledAt
    "asyncio/rearm-decision": "finite-exhaustive",
    "asyncio/rearm-decision-sampled": "bounded",
}
ASSUMPTIONS = [
    "rules read a normalised copy of the class: a private non-generator method that is not an anchor, is only ever called as self._h(...) "
    "inside its class and is mentioned in no other module is inlined at its call sites; single-assignment naming temporaries are substituted "
    "only where nothing they read is written (and no call runs) in between",
    "list.append and prefix deletion are atomic with respect to each other under the GIL (documented in the source)",
    "asyncio's call_soon_threadsafe is a thread-safe FIFO that wakes the loop (asyncio contract)",
    "a byte written to the waker's write end makes the reactor's poll return (OS contract)",
]

# anchors of AsyncioSelectorReactor (never inlined away); other private helpers of the class are inlined, temporaries substituted
AK = ("__init__", "callFromThread", "callLater", "_onTimer", "_reschedule", "_moveCallLaterSooner", "crash", "stop", "run", "iterate")
KNOWN_SIBLINGS = {"internet/base.py", "internet/asyncioreactor.py", "internet/interfaces.py"}


def _is_call(x, name):
    return isinstance(x, ast.Call) and call_name(x) == name


def _queue_aliases(fx):
    out = {f"self.{QUEUE}"}
    if hasattr(fx, "body"):
        for st in body_walk(fx):
            for t, v in assign_pairs(st):
                if isinstance(t, ast.Name) and src(v) == f"self.{QUEUE}":
                    out.add(t.id)
    return out


def _index_walks(fx):
    """``while ...: f, a, kw = Q[i] ...`` loops over (an alias of) the queue: [(While node, unpack statement, index name)]."""
    out = []
    if not hasattr(fx, "body"):
        return out
    al = _queue_aliases(fx)
    for lp in [n for n in body_walk(fx) if isinstance(n, ast.While)]:
        for st in lp.body:
            if isinstance(st, ast.Assign) and isinstance(st.value, ast.Subscript) and src(st.value.value) in al and isinstance(st.value.slice, ast.Name) \
                    and len(st.targets) == 1 and isinstance(st.targets[0], ast.Tuple):
                out.append((lp, st, st.value.slice.id))
    return out


def _drains(fx):
    return any(isinstance(x, ast.For) and QUEUE in src(x.iter) for x in body_walk(fx)) or bool(_index_walks(fx))


def _const_one(e):
    return isinstance(e, ast.Constant) and type(e.value) is int and e.value == 1


def check(ctx):
    mod = ctx.mod(BASE)
    RK = ("callFromThread", "runUntilCurrent", "wakeUp", "mainLoop", "__init__", "installWaker", "callLater", "timeout", "fireSystemEvent", "addSystemEventTrigger")
    # normalised view of ReactorBase: private helpers that are not anchors (and not mentioned in any other module) are inlined
    rb = norm_class(ctx, BASE, "ReactorBase", RK)
    names, swallow = swallowing_predicate(ctx, BASE)
    ctx.check(bool(names), "drain/handlers-derived", "twisted.logger._logger.Logger.failureHandler",
              "no failure handler of internet/base.py is provably swallowing: one raising call aborts the drain loop before the executed prefix is deleted "
              "(the calls already made run a second time)")

    # ---- siblings: who defines callFromThread / touches the queue (repo-wide) --------------------------------------------
    with section(ctx, 'siblings: who defines callFromThread / touches the queue (repo-wide)'):
        definers, touchers = [], []
        for rel in ctx.tree.all_modules():
            text = ctx.tree.text(rel)
            if "def callFromThread" in text:
                definers.append(rel)
            if QUEUE in text:
                touchers.append(rel)
        unknown = sorted(set(definers) - KNOWN_SIBLINGS)
        if unknown:
            raise AnalysisError(f"C13: new callFromThread implementation(s) not known to the checker: {unknown}")
        nacc = 0
        drain_owner = next(("ReactorBase." + nm for nm, fx in methods(rb).items() if _drains(fx)), "ReactorBase.runUntilCurrent")
        for rel in touchers:
            m = ctx.mod(rel)
            fns = list(m.functions())
            if rel == BASE:
                fns = [(qn, fn) for qn, fn in fns if not qn.startswith("ReactorBase.")] + list(all_funcs_of_class(rb))
            for qn, fn in fns:
                for a in accesses(fn, qn, {QUEUE}, None):
                    nacc += 1
                    key = ctx.construct(f"twisted.{rel[:-3].replace('/', '.')}.{a.func}", a.node)
                    ok = rel == BASE and ((a.func == "ReactorBase.__init__" and a.kind in ("rebind-empty", "assign")) or
                                          (a.func == "ReactorBase.callFromThread" and a.kind == "append") or
                                          (a.func in ("ReactorBase.runUntilCurrent", drain_owner) and a.kind == "del-prefix"))
                    ctx.check(ok, "queue/who-may-mutate", key,
                              f"threadCallQueue is changed by {a.kind} in {a.func}: calls are lost, duplicated or reordered (only tail append and deletion of the executed prefix are allowed)")
        ctx.floor("queue/who-may-mutate", nacc, 2)

    # ---- ReactorBase.callFromThread variants -----------------------------------------------------------------------------------
    with section(ctx, 'ReactorBase.callFromThread variants'):
        variants = [fx for _, fx in _class_functions(rb) if fx.name == "callFromThread"]
        ctx.need(variants, "ReactorBase.callFromThread")
        ctx.functions.add(f"{BASE}:ReactorBase.callFromThread")
        threaded = []
        for i, f in enumerate(variants):
            par = getattr(f, "_parent", None)
            is_thr = isinstance(par, ast.If) and src(par.test) == "platform.supportsThreads()" and any(f is x for x in par.body)
            is_nothr = isinstance(par, ast.If) and src(par.test) == "platform.supportsThreads()" and any(f is x for x in par.orelse)
            label = "threads" if is_thr else ("no-threads" if is_nothr else f"variant{i}")
            if not is_nothr:
                threaded.append(f)
            q = f"{QR}.callFromThread[{label}]"
            g = ctx.cfg(f)
            ps = [a.arg for a in f.args.args]
            ctx.need(len(ps) >= 2 and f.args.vararg and f.args.kwarg, "callFromThread(self, f, *args, **kwargs)")
            fn, va, kwa = ps[1], f.args.vararg.arg, f.args.kwarg.arg
            apps = gfind(g, lambda x: _is_call(x, f"self.{QUEUE}.append"))
            ctx.check(len(apps) == 1, "enqueue/once", q, f"{len(apps)} enqueue sites (exactly one expected: a call must be queued exactly once)")
            for n in apps:
                c = next(x for x in ast.walk(g.node(n).ast) if _is_call(x, f"self.{QUEUE}.append"))
                ok = len(c.args) == 1 and isinstance(c.args[0], ast.Tuple) and [src(e) for e in c.args[0].elts] == [fn, va, kwa]
                ctx.check(ok, "enqueue/entry-shape", ctx.construct(q, g.node(n).ast), "the queued entry is not (f, args, kwargs) as consumed by runUntilCurrent")
            w = must_pass(g, [g.entry], apps, exc=False)
            ctx.check(w is None, "enqueue/once", q + " | <all paths>", "callFromThread can return without queueing the call", witness=g.describe(w))
            direct = [c for c in body_walk(f) if isinstance(c, ast.Call) and isinstance(c.func, ast.Name) and c.func.id == fn]
            ctx.check(not direct, "enqueue/never-runs-in-caller", q,
                      "callFromThread invokes f itself: the call runs in the calling thread / overtakes calls queued earlier by the same thread")
            if is_nothr:
                ctx.ok("wake/after-enqueue", q, "exempt: without thread support callFromThread is only used from signal handlers, which wake the reactor themselves")
                continue
            wakes = gfind(g, lambda x: _is_call(x, "self.wakeUp"))
            ctx.check(bool(wakes), "wake/after-enqueue", q, "the reactor is not woken after a call is queued: an idle reactor runs it only when an unrelated event arrives")
            for n in apps:
                w = must_pass(g, [n], wakes, exc=False)
                ctx.check(bool(wakes) and w is None, "wake/after-enqueue", ctx.construct(q, g.node(n).ast),
                          "after queueing, callFromThread can return without waking the reactor", witness=g.describe(w))
            for wk in wakes:
                w = g.must_precede(apps, [wk]) if apps else [g.entry]
                ctx.check(w is None, "wake/enqueue-before-wake", ctx.construct(q, g.node(wk).ast),
                          "the reactor is woken before the call is in the queue: the wake-up can be consumed with an empty queue and the call then waits "
                          "for an unrelated event", witness=g.describe(w))
        ctx.check(bool(threaded), "wake/after-enqueue", f"{QR}.callFromThread", "no thread-capable callFromThread variant exists")

    # ---- wakeUp ------------------------------------------------------------------------------------------------------------------
    with section(ctx, 'wakeUp'):
        f = norm_func(ctx, BASE, "ReactorBase", "wakeUp", RK)
        g = ctx.cfg(f)
        q = f"{QR}.wakeUp"
        wk = gfind(g, lambda x: _is_call(x, "self.waker.wakeUp"))
        ctx.check(bool(wk), "wake/reaches-waker", q, "wakeUp() no longer calls the waker")
        tests = g.ids(lambda n: n.kind == "test")
        extra = [src(g.node(t).ast) for t in tests if src(g.node(t).ast) not in ("self.waker", "self.waker is not None", "self.waker is None")]
        ctx.check(not extra, "wake/reaches-waker", q + " | <conditions>", "waking depends on an extra condition: " + ", ".join(extra))
        for t in tests:
            if src(g.node(t).ast) in ("self.waker", "self.waker is not None", "self.waker is None"):
                lab = "F" if src(g.node(t).ast).endswith("is None") else "T"
                s = [d for d, l in g.succ[t] if l == lab]
                w = must_pass(g, s, wk, exc=False)
                ctx.check(w is None, "wake/reaches-waker", ctx.construct(q, g.node(t).ast), "with a waker installed wakeUp() can return without using it", witness=g.describe(w))
        if not tests:
            w = must_pass(g, [g.entry], wk, exc=False)
            ctx.check(w is None, "wake/reaches-waker", q + " | <all paths>", "wakeUp() can return without using the waker", witness=g.describe(w))

    # ---- runUntilCurrent: the drain ------------------------------------------------------------------------------------------------
    with section(ctx, 'runUntilCurrent: the drain'):
        f_ruc = norm_func(ctx, BASE, "ReactorBase", "runUntilCurrent", RK)
        drainers = [(nm, fx) for nm, fx in methods(rb).items() if _drains(fx)]
        ctx.need(len(drainers) == 1, "exactly one ReactorBase method that walks self.threadCallQueue (for-loop, or index-driven while-loop)")
        drain_name, f = drainers[0]
        ctx.functions.add(f"{BASE}:ReactorBase.{drain_name}")
        if f is not f_ruc:
            # the drain was extracted into a helper: runUntilCurrent must reach it on every path, before anything else can return
            gr = ctx.cfg(f_ruc, swallowing=swallow)
            dc = gfind(gr, lambda x: _is_call(x, f"self.{drain_name}"))
            w = must_pass(gr, [gr.entry], dc, exc=False)
            ctx.check(bool(dc) and w is None, "drain/unconditional", f"{QR}.runUntilCurrent", f"runUntilCurrent does not always run the drain helper {drain_name}()", witness=gr.describe(w))
            for n in dc:
                conds = [src(gr.node(t).ast) for t, lab in gr.edge_guards(n) if src(gr.node(t).ast) != f"self.{QUEUE}"]
                ctx.check(not conds, "drain/unconditional", ctx.construct(f"{QR}.runUntilCurrent", gr.node(n).ast), "draining the queue depends on: " + ", ".join(conds))
        g = ctx.cfg(f, swallowing=swallow)
        q = f"{QR}.{drain_name}"
        heads = g.ids(lambda n: n.kind == "for" and QUEUE in src(n.ast.iter))
        walks = _index_walks(f)
        ctx.need(len(heads) + len(walks) == 1, "one walk over self.threadCallQueue in the drain function")
        index_var = None
        if heads:
            h = heads[0]
            loop = g.node(h).ast
            lkey = ctx.construct(q, f"for {src(loop.target)} in {src(loop.iter)}")
            it_e = loop.iter
            if isinstance(it_e, ast.Call) and dotted(it_e.func) in ("islice", "itertools.islice") and not it_e.keywords and (
                    len(it_e.args) == 2 or (len(it_e.args) == 3 and isinstance(it_e.args[1], ast.Constant) and it_e.args[1].value in (0, None))):
                it_e = it_e.args[0]   # islice(queue, n): the first n entries, from the head, of the live list
            ctx.check(src(it_e) == f"self.{QUEUE}", "drain/from-head", lkey,
                      "the queue is not iterated from its head in place: calls of one thread run out of order, or the executed entries are not the deleted prefix")
            target = loop.target
            it = [d for d, l in g.succ[h] if l == "iter"]
            after = [d for d, l in g.succ[h] if l == "done"]
        else:
            # index-driven walk: entries are read as queue[i], i = 0, 1, 2, ... (checked below: i is the executed counter, starts at 0, +1 per
            # iteration, read before it is incremented) - the same entries, in the same order, as iterating the live list from its head
            loop, unpack, index_var = walks[0]
            hs = g.ids(lambda n: n.kind == "join" and n.ast is loop)
            ctx.need(len(hs) == 1, "head of the index-driven walk")
            h = hs[0]
            lkey = ctx.construct(q, "<index-driven walk over the queue>")
            target = unpack.targets[0]
            it = g.ids_of(loop.body[0])
            ctests = [t for t in g.ids(lambda n: n.kind == "test") if any(g.node(t).ast is x for x in ast.walk(loop.test))]
            after = sorted({d for t in ctests for d, l in g.succ[t] if l == "F" and d not in ctests})
            reads = g.ids_of(unpack)
            ctx.ok("drain/from-head", lkey, f"entries read as {src(unpack.value)}")
        ok = isinstance(target, ast.Tuple) and len(target.elts) == 3 and all(isinstance(e, ast.Name) for e in target.elts)
        ctx.check(ok, "drain/entry-shape", lkey, "queue entries are not unpacked as (f, args, kwargs)")
        ctx.need(ok, "loop target (f, a, kw)")
        fn, a_, kw_ = [e.id for e in target.elts]
        outs = gfind(g, lambda x: isinstance(x, ast.Call) and isinstance(x.func, ast.Name) and x.func.id == fn and enclosing(x, (ast.For, ast.While)) is loop)
        ctx.check(len(outs) == 1, "drain/each-entry-called-once", lkey, f"{len(outs)} call sites for a queue entry inside the loop (one expected)")
        for o in outs:
            c = next(x for x in ast.walk(g.node(o).ast) if isinstance(x, ast.Call) and isinstance(x.func, ast.Name) and x.func.id == fn)
            okey = ctx.construct(q, g.node(o).ast)
            okargs = (len(c.args) == 1 and isinstance(c.args[0], ast.Starred) and src(c.args[0].value) == a_ and len(c.keywords) == 1 and c.keywords[0].arg is None
                      and src(c.keywords[0].value) == kw_)
            ctx.check(okargs, "drain/entry-shape", okey, "the queued call is not invoked with its own *args, **kwargs")
            ctx.check(isolating_with(c, names) is not None, "drain/isolated", okey,
                      "a queued call is not wrapped, inside the loop, by a swallowing failure handler: when it raises the loop is left before the executed prefix is deleted "
                      "(executed calls run again on the next iteration) and the other calls are delayed")
            esc = [d for d, l in g.succ[o] if l == "exc" and g.node(d).kind != "with_exit"]
            ctx.check(not esc, "drain/isolated", okey + " | <exception edge>", "an exception of a queued call leaves the loop")
        w = must_pass(g, it, outs, to=[h] + after, exc=False)
        ctx.check(w is None, "drain/each-entry-called-once", lkey + " | <every iteration>", "an iteration can skip calling its entry (which is nevertheless deleted)", witness=g.describe(w))

        dels = g.ids(lambda n: n.kind == "stmt" and isinstance(n.ast, ast.Delete) and any(
            isinstance(t, ast.Subscript) and src(t.value) == f"self.{QUEUE}" and isinstance(t.slice, ast.Slice) for t in n.ast.targets))
        ctx.check(len(dels) == 1, "drain/executed-prefix-deleted", q, f"{len(dels)} deletions of queue slices in runUntilCurrent (one prefix delete expected): executed calls would run again")
        counter = None
        for d in dels:
            t = next(t for t in g.node(d).ast.targets if isinstance(t, ast.Subscript))
            dkey = ctx.construct(q, g.node(d).ast)
            ok = t.slice.lower is None and t.slice.step is None and isinstance(t.slice.upper, ast.Name)
            ctx.check(ok, "drain/executed-prefix-deleted", dkey,
                      "the deletion is not `del queue[:count]` with the count of executed calls: entries appended by other threads during the loop are dropped unexecuted, or executed ones kept")
            if ok:
                counter = t.slice.upper.id
                if index_var is not None:
                    ctx.check(counter == index_var, "drain/executed-prefix-deleted", dkey + " | <index>",
                              f"the prefix deleted is counted by `{counter}` but the entries executed are those below the index `{index_var}`")
            ctx.check(enclosing(g.node(d).ast, (ast.For, ast.While)) is None, "drain/executed-prefix-deleted", dkey + " | <after loop>",
                      "the prefix is deleted while the queue is being iterated (the iterator skips entries)")
            w = must_pass(g, [h], [d], exc=False)
            ctx.check(w is None, "drain/executed-prefix-deleted", dkey + " | <all paths>", "the loop can be left (break / exhaustion) without deleting the executed prefix: those calls run a second time",
                      witness=g.describe(w))
        if counter:
            writes = g.ids(lambda n: n.kind == "stmt" and ((isinstance(n.ast, ast.AugAssign) and isinstance(n.ast.target, ast.Name) and n.ast.target.id == counter)
                                                         or any(isinstance(t, ast.Name) and t.id == counter for t, v in assign_pairs(n.ast))))
            inits = [n for n in writes if not isinstance(g.node(n).ast, ast.AugAssign)]
            incs = [n for n in writes if isinstance(g.node(n).ast, ast.AugAssign)]
            ckey = f"{q} | <executed counter {counter}>"
            ok = len(inits) == 1 and all(is_zero(v) for t, v in assign_pairs(g.node(inits[0]).ast) if isinstance(t, ast.Name) and t.id == counter) \
                and enclosing(g.node(inits[0]).ast, (ast.For, ast.While)) is None and g.must_precede(inits, [h]) is None
            ctx.check(ok, "drain/count-matches-executed", ckey + " | init", "the executed-calls counter does not start at 0 once before the loop")
            ok = len(incs) == 1 and isinstance(g.node(incs[0]).ast.op, ast.Add) and _const_one(g.node(incs[0]).ast.value) and enclosing(g.node(incs[0]).ast, (ast.For, ast.While)) is loop
            ctx.check(ok, "drain/count-matches-executed", ckey + " | increment", "the counter is not incremented by exactly one inside the loop")
            w = must_pass(g, it, incs, to=[h] + after + dels, exc=True)
            ctx.check(w is None, "drain/count-matches-executed", ckey + " | every iteration",
                      "an iteration (e.g. one whose call raised, or the one that breaks out) is not counted: its call is executed but stays in the queue and runs again",
                      witness=g.describe(w))
            if index_var is not None and counter == index_var:
                w = next((g.path([i], reads, avoid={h}) for i in incs if g.path([i], reads, avoid={h})), None)
                ctx.check(w is None, "drain/from-head", lkey + " | <read before increment>",
                          "the index is advanced before the entry is read: the first queued call is skipped (and deleted unexecuted)", witness=g.describe(w))
            for i in incs:
                w = g.path([i], incs, avoid={h}, strict=True)
                ctx.check(w is None, "drain/count-matches-executed", ckey + " | at most once", "an iteration can be counted twice: an unexecuted call is deleted", witness=g.describe(w))

    # ---- drain: remainder wake --------------------
    with section(ctx, 'drain: remainder wake'):
        # remainder wake
        for d in dels:
            rtests = [t for t in g.ids(lambda n: n.kind == "test" and src(n.ast) in (f"self.{QUEUE}", f"len(self.{QUEUE}) > 0", f"len(self.{QUEUE})")) if g.path([d], [t]) is not None]
            wakes = gfind(g, lambda x: _is_call(x, "self.wakeUp"))
            ctx.check(bool(rtests) and bool(wakes), "drain/remainder-wakes", q, "entries left in the queue after the drain (appended during the loop) do not trigger a wake-up: they wait for an unrelated event")
            for t in rtests:
                s = [x for x, l in g.succ[t] if l == "T"]
                w = must_pass(g, s, wakes, exc=False)
                ctx.check(w is None, "drain/remainder-wakes", ctx.construct(q, g.node(t).ast), "a non-empty remainder can skip the wake-up", witness=g.describe(w))
            w = must_pass(g, [x for x, l in g.succ[d] if l != "exc"], rtests, exc=False)
            ctx.check(w is None, "drain/remainder-wakes", q + " | <after delete>", "after the prefix delete the remainder test can be skipped", witness=g.describe(w))
        # the drain is not conditional on anything but the queue being non-empty
        conds = [src(g.node(t).ast) for t, lab in g.edge_guards(h)]
        ctx.check(all(c == f"self.{QUEUE}" for c in conds), "drain/unconditional", lkey, "draining the queue depends on: " + ", ".join(conds))

    # ---- mainLoop drains every iteration ------------------------------------------------------------------------------------------------
    with section(ctx, 'mainLoop drains every iteration'):
        f = norm_func(ctx, BASE, "ReactorBase", "mainLoop", RK)
        g = ctx.cfg(f, swallowing=swallow)
        q = f"{QR}.mainLoop"
        ru = gfind(g, lambda x: _is_call(x, "self.runUntilCurrent"))
        di = gfind(g, lambda x: _is_call(x, "self.doIteration"))
        ctx.check(bool(ru) and bool(di), "mainloop/drains-each-iteration", q, "mainLoop lost runUntilCurrent()/doIteration()")
        for n in ru:
            c = next(x for x in ast.walk(g.node(n).ast) if _is_call(x, "self.runUntilCurrent"))
            ctx.check(enclosing(c, (ast.While,)) is not None and isolating_with(c, names) is not None, "mainloop/drains-each-iteration", ctx.construct(q, g.node(n).ast),
                      "runUntilCurrent() is not run on every loop iteration under the top-level failure handler")
        for n in di:
            w = g.path([n], ru, edge_ok=no_exc)
            ctx.check(w is not None, "mainloop/drains-each-iteration", ctx.construct(q, g.node(n).ast), "after the poll returns (e.g. woken by the waker) the queue is not drained again")

    # ---- ReactorBase.__init__ --------------------
    with section(ctx, 'ReactorBase.__init__'):
        f = norm_func(ctx, BASE, "ReactorBase", "__init__", RK)
        g = ctx.cfg(f)
        iw = gfind(g, lambda x: _is_call(x, "self.installWaker"))
        w = must_pass(g, [g.entry], iw, exc=False)
        ctx.check(bool(iw) and w is None, "waker/installed", f"{QR}.__init__", "the reactor is constructed without installing a waker: wakeUp() is a no-op", witness=g.describe(w))
        qinit = g.ids(lambda n: n.kind == "stmt" and any(self_attr(t, QUEUE) and isinstance(v, ast.List) and not v.elts for t, v in assign_pairs(n.ast)))
        ctx.check(bool(qinit), "queue/who-may-mutate", f"{QR}.__init__ | <initial queue>", "threadCallQueue does not start as an empty list")

    # ---- posixbase: the waker is created and watched ------------------------------------------------------------------------------------
    with section(ctx, 'posixbase: the waker is created and watched'):
        pm = ctx.mod(POSIX)
        f = ctx.func(POSIX, "PosixReactorBase.installWaker")
        g = ctx.cfg(f)
        q = "twisted.internet.posixbase.PosixReactorBase.installWaker"
        mk = g.ids(lambda n: n.kind == "stmt" and any(self_attr(t, "waker") for t, v in assign_pairs(n.ast)))
        rd = gfind(g, lambda x: (_is_call(x, "self.addReader") or _is_call(x, "self._addInternalReader")) and len(x.args) == 1 and src(x.args[0]) == "self.waker")
        ctx.check(bool(mk), "waker/installed", q, "installWaker does not create self.waker")
        for n in mk:
            v = next(v for t, v in assign_pairs(g.node(n).ast) if self_attr(t, "waker"))
            ctx.check(src(v) == "self._wakerFactory()", "waker/installed", ctx.construct(q, g.node(n).ast), "self.waker is not built by _wakerFactory()")
            w = must_pass(g, [n], rd, exc=False)
            ctx.check(bool(rd) and w is None, "waker/watched-by-reactor", ctx.construct(q, g.node(n).ast),
                      "the waker is not added as a reader: bytes written by wakeUp() never interrupt the poll", witness=g.describe(w))
        conds = {src(g.node(t).ast) for n in mk for t, lab in g.edge_guards(n)}
        ctx.check(conds <= {"self.waker"}, "waker/installed", q + " | <conditions>", "installing the waker depends on: " + ", ".join(sorted(conds)))
        f = ctx.func(POSIX, "PosixReactorBase._wakerFactory")
        rets = [r for r in body_walk(f) if isinstance(r, ast.Return)]
        ctx.check(len(rets) == 1 and src(rets[0].value) == "_Waker()", "waker/installed", "twisted.internet.posixbase.PosixReactorBase._wakerFactory", "_wakerFactory does not return _Waker()")
        imp = [n for n in pm.tree.body if isinstance(n, ast.ImportFrom) and n.module == "_signals" and n.level == 1 and any(a.name == "_Waker" for a in n.names)]
        ctx.check(bool(imp), "waker/installed", "twisted.internet.posixbase | import _Waker", "_Waker is not the one of twisted.internet._signals")

    # ---- _signals: the wakers ----------------------------------------------------------------------------------------------------------------
    with section(ctx, '_signals: the wakers'):
        sm = ctx.mod(SIGNALS)
        wsel = [v for st in ast.walk(sm.tree) if isinstance(st, ast.Assign) for t in st.targets if isinstance(t, ast.Name) and t.id == "_Waker" for v in [st.value]]
        ctx.need(wsel, "_Waker = ... in _signals.py")
        for v in wsel:
            cls = sm.find(src(v))
            key = f"twisted.internet._signals._Waker = {src(v)}"
            if not isinstance(cls, ast.ClassDef):
                ctx.violation("waker/writes-a-byte", key, "_Waker is not bound to a class of the module")
                continue
            r = mro_lookup(sm, cls, "wakeUp")
            ctx.check(r is not None and isinstance(r[1], (ast.FunctionDef,)), "waker/writes-a-byte", key, "the selected waker class has no wakeUp()")
            if r is None or not isinstance(r[1], ast.FunctionDef):
                continue
            wf = r[1]
            wq = f"twisted.internet._signals.{r[0].name}.wakeUp"
            ctx.functions.add(f"{SIGNALS}:{r[0].name}.wakeUp")
            g = ctx.cfg(wf)
            sends = []
            for c in body_walk(wf):
                if not isinstance(c, ast.Call):
                    continue
                args = list(c.args)
                if dotted(c.func) in ("util.untilConcludes", "untilConcludes") and args:
                    target, args = src(args[0]), args[1:]
                else:
                    target = dotted(c.func) or ""
                if target == "os.write" and len(args) == 2:
                    sends.append((c, src(args[0]), args[1]))
                elif target.endswith(".send") and len(args) == 1:
                    sends.append((c, target[:-5], args[0]))
            ctx.check(len(sends) == 1, "waker/writes-a-byte", wq, f"{len(sends)} write sites in wakeUp (one expected)")
            for c, end, data in sends:
                key2 = ctx.construct(wq, c)
                ctx.check(isinstance(data, ast.Constant) and isinstance(data.value, bytes) and len(data.value) >= 1, "waker/writes-a-byte", key2,
                          "wakeUp writes no data: the reactor's poll is not interrupted")
                # which end: must be the end that is NOT the one returned by fileno()
                init = mro_lookup(sm, cls, "__init__")
                read_end = None
                if init is not None and isinstance(init[1], ast.FunctionDef):
                    for st in body_walk(init[1]):
                        for t, v2 in assign_pairs(st):
                            if self_attr(t, "fileno"):
                                if isinstance(v2, ast.Lambda):
                                    read_end = src(v2.body)
                                elif isinstance(v2, ast.Attribute) and v2.attr == "fileno":
                                    read_end = src(v2.value)
                ctx.check(read_end is not None and end != read_end and end.startswith("self."), "waker/writes-to-write-end", key2,
                          f"wakeUp writes to {end}, but the reactor watches {read_end}: the write never makes the watched descriptor readable")
                if init is not None and isinstance(init[1], ast.FunctionDef):
                    pipes = [st for st in body_walk(init[1]) if isinstance(st, ast.Assign) and isinstance(st.value, ast.Call) and dotted(st.value.func) == "os.pipe"]
                    for st in pipes:
                        tg = st.targets[0]
                        ok = isinstance(tg, ast.Tuple) and len(tg.elts) == 2 and src(tg.elts[0]) == read_end and src(tg.elts[1]) == end
                        ctx.check(ok, "waker/writes-to-write-end", ctx.construct(f"twisted.internet._signals.{init[0].name}.__init__", st),
                                  "os.pipe() returns (read end, write end): the ends are bound the wrong way round")
                n = g.ids_of(c)
                extra = {src(g.node(t).ast) for x in n for t, lab in g.edge_guards(x)} - {f"{end} is not None", f"{end} is None"}
                ctx.check(not extra, "waker/writes-a-byte", key2 + " | <conditions>", "the wake-up write depends on: " + ", ".join(sorted(extra)))

    # ---- asyncio sibling -------------------------------------------------------------------------------------------------------------------------
    with section(ctx, 'asyncio sibling'):
        f = norm_func(ctx, ASYNCIO, "AsyncioSelectorReactor", "callFromThread", AK)
        q = "twisted.internet.asyncioreactor.AsyncioSelectorReactor.callFromThread"
        ps = [a.arg for a in f.args.args]
        ctx.need(len(ps) >= 2 and f.args.vararg and f.args.kwarg, "asyncio callFromThread(self, f, *args, **kwargs)")
        fn, va, kwa = ps[1], f.args.vararg.arg, f.args.kwarg.arg
        hand = [c for c in body_walk(f) if isinstance(c, ast.Call) and isinstance(c.func, ast.Attribute) and c.func.attr.startswith("call_") and src(c.func.value) == "self._asyncioEventloop"]
        ctx.check(len(hand) == 1, "asyncio/threadsafe-handoff", q, f"{len(hand)} hand-offs to the asyncio loop (one expected)")
        closures = {t.id: v for st in body_walk(f) for t, v in assign_pairs(st) if isinstance(t, ast.Name) and isinstance(v, ast.Lambda)}
        closures.update({n.name: n for n in body_walk(f) if isinstance(n, ast.FunctionDef)})
        for c in hand:
            key = ctx.construct(q, c)
            ctx.check(c.func.attr == "call_soon_threadsafe", "asyncio/threadsafe-handoff", key,
                      f"{c.func.attr} is not thread-safe and does not wake the loop: the call is lost or waits for an unrelated event")
            arg = c.args[0] if c.args else None
            body = None
            if isinstance(arg, ast.Lambda):
                body = list(ast.walk(arg.body))
            elif isinstance(arg, ast.Name) and arg.id in closures:
                cl = closures[arg.id]
                body = list(ast.walk(cl.body)) if isinstance(cl, ast.Lambda) else [x for st in cl.body for x in ast.walk(st)]
            ok = False
            for x in body or []:
                if isinstance(x, ast.Call):
                    rest = None
                    if call_name(x) == "self.callLater" and len(x.args) >= 2 and isinstance(x.args[0], ast.Constant) and x.args[0].value == 0 and src(x.args[1]) == fn:
                        rest = x.args[2:]
                    elif isinstance(x.func, ast.Name) and x.func.id == fn:
                        rest = x.args
                    if rest is not None and len(rest) == 1 and isinstance(rest[0], ast.Starred) and src(rest[0].value) == va and len(x.keywords) == 1 \
                            and x.keywords[0].arg is None and src(x.keywords[0].value) == kwa:
                        ok = True
            ctx.check(len(c.args) == 1 and ok, "asyncio/threadsafe-handoff", key + " | <payload>", "the hand-off does not run f(*args, **kwargs) (directly or through callLater(0, ...)) in the loop thread")
        direct = [c for c in body_walk(f) if isinstance(c, ast.Call) and isinstance(c.func, ast.Name) and c.func.id == fn]
        ctx.check(not direct, "enqueue/never-runs-in-caller", q, "callFromThread invokes f in the calling thread")

    # ---- asyncio timer --------------------
    with section(ctx, 'asyncio timer'):
        f = norm_func(ctx, ASYNCIO, "AsyncioSelectorReactor", "callLater", AK)
        g = ctx.cfg(f)
        q = "twisted.internet.asyncioreactor.AsyncioSelectorReactor.callLater"
        rs = gfind(g, lambda x: _is_call(x, "self._reschedule"))
        ctx.check(bool(rs), "asyncio/timer-rescheduled", q, "a new delayed call never re-arms the asyncio timer: callFromThread's callLater(0, ...) waits for the previous deadline")
        for n in rs:
            conds = {src(g.node(t).ast) for t, lab in g.edge_guards(n)}
            ctx.check(all("self._scheduledAt" in c or "self._timerHandle" in c for c in conds), "asyncio/timer-rescheduled", ctx.construct(q, g.node(n).ast),
                      "re-arming the timer depends on: " + ", ".join(sorted(conds)))
        tests = g.ids(lambda n: n.kind == "test" and src(n.ast) == "self._scheduledAt is None")
        for t in tests:
            w = must_pass(g, [d for d, l in g.succ[t] if l == "T"], rs, exc=False)
            ctx.check(w is None, "asyncio/timer-rescheduled", q + " | <no timer armed>", "with no timer armed a new call does not arm one", witness=g.describe(w))
        lt = g.ids(lambda n: n.kind == "test" and isinstance(n.ast, ast.Compare) and src(n.ast.comparators[0]) == "self._scheduledAt" and len(n.ast.ops) == 1)
        for t in lt:
            ctx.check(isinstance(g.node(t).ast.ops[0], (ast.Lt, ast.LtE)), "asyncio/timer-rescheduled", ctx.construct(q, g.node(t).ast),
                      "the timer is re-armed only for later deadlines: an earlier call (delay 0 from callFromThread) waits for the old deadline")
            w = must_pass(g, [d for d, l in g.succ[t] if l == "T"], rs, exc=False)
            ctx.check(w is None, "asyncio/timer-rescheduled", q + " | <earlier deadline>", "an earlier deadline does not re-arm the timer", witness=g.describe(w))
        f = norm_func(ctx, ASYNCIO, "AsyncioSelectorReactor", "_onTimer", AK)
        g = ctx.cfg(f)
        q = "twisted.internet.asyncioreactor.AsyncioSelectorReactor._onTimer"
        ru = gfind(g, lambda x: _is_call(x, "self.runUntilCurrent"))
        w = must_pass(g, [g.entry], ru, exc=False)
        ctx.check(bool(ru) and w is None, "asyncio/timer-runs-calls", q, "the asyncio timer callback does not run the due calls", witness=g.describe(w))

    # ---- asyncio: _timerHandle and _scheduledAt describe one armed timer ------------------------------------------------------
    with section(ctx, "asyncio timer fields coupled"):
        _timer_coupling(ctx)


def _timer_coupling(ctx):
    """Lemma (coupled fields): `_scheduledAt is not None` => a live handle is armed for that time; hence
    `no live handle` => `_scheduledAt is None`.  Decided over every writer of the two attributes in
    AsyncioSelectorReactor.  Then the re-arm decision of callLater is evaluated as a finite table over
    (handle armed?, _scheduledAt None/past/future, new deadline earlier/later): whenever no handle is armed,
    or none is recorded, or the new deadline is earlier, the decision must be 're-arm'.  Rows excluded by
    the lemma are only dropped when the lemma holds; a writer that breaks the lemma is reported with the
    row of the table that then leaves a call unarmed."""
    cls = norm_class(ctx, ASYNCIO, "AsyncioSelectorReactor", AK)
    QA = "twisted.internet.asyncioreactor.AsyncioSelectorReactor"
    broken = []   # (construct key, description)
    nsites = 0
    callbacks = set()
    for name, fn in methods(cls).items():
        if name == "__init__":
            continue
        touches = any(self_attr(x, "_timerHandle") or self_attr(x, "_scheduledAt") for x in ast.walk(fn))
        if not touches:
            continue
        g = ctx.cfg(fn)
        ctx.functions.add(f"{ASYNCIO}:AsyncioSelectorReactor.{name}")
        q = f"{QA}.{name}"

        def arm_value(v):
            return isinstance(v, ast.Call) and isinstance(v.func, ast.Attribute) and v.func.attr in ("call_at", "call_later") and len(v.args) >= 2
        arms = g.ids(lambda n: n.kind == "stmt" and any(self_attr(t, "_timerHandle") and arm_value(v) for t, v in assign_pairs(n.ast)))
        for a in arms:
            v = next(v for t, v in assign_pairs(g.node(a).ast) if self_attr(t, "_timerHandle"))
            if self_attr(v.args[1]):
                callbacks.add(v.args[1].attr)
        sched_none = g.ids(lambda n: n.kind == "stmt" and any(self_attr(t, "_scheduledAt") and is_const(v, None) for t, v in assign_pairs(n.ast)))
        sched_set = g.ids(lambda n: n.kind == "stmt" and any(self_attr(t, "_scheduledAt") and not is_const(v, None) for t, v in assign_pairs(n.ast)))
        clears = g.ids(lambda n: n.kind == "stmt" and any(self_attr(t, "_timerHandle") and not arm_value(v) for t, v in assign_pairs(n.ast)))
        clears += [n for n in gfind(g, lambda x: _is_call(x, "self._timerHandle.cancel")) if n not in clears]
        for c in clears:
            nsites += 1
            after = must_pass(g, [d for d, l in g.succ[c] if l != "exc"], set(sched_none) | set(arms), exc=False)
            before = bool(sched_none) and g.must_precede(sched_none, [c]) is None and g.path(sched_set, [c]) is None
            if after is not None and not before:
                broken.append((ctx.construct(q, g.node(c).ast), "the armed handle is cancelled / dropped while _scheduledAt keeps its deadline", g.describe(after)))
        for sset in sched_set:
            nsites += 1
            val = next(v for t, v in assign_pairs(g.node(sset).ast) if self_attr(t, "_scheduledAt"))
            good = [a for a in arms if src(next(v for t, v in assign_pairs(g.node(a).ast) if self_attr(t, "_timerHandle")).args[0]) == src(val)]
            w = must_pass(g, [d for d, l in g.succ[sset] if l != "exc"], good, exc=False)
            if w is not None:
                broken.append((ctx.construct(q, g.node(sset).ast), "a deadline is recorded in _scheduledAt without a handle being armed for it", g.describe(w)))
    # the handle's own callback: the handle is spent when it runs, so the record must be dropped first
    for cbname in sorted(callbacks):
        fn = methods(cls).get(cbname)
        if fn is None:
            continue
        g = ctx.cfg(fn)
        nsites += 1
        resets = g.ids(lambda n: n.kind == "stmt" and any(self_attr(t, "_scheduledAt") and is_const(v, None) for t, v in assign_pairs(n.ast)))
        users = gfind(g, lambda x: isinstance(x, ast.Call) and call_name(x) in ("self.runUntilCurrent", "self._reschedule", "self.callLater"))
        w = g.must_precede(resets, users) if users else must_pass(g, [g.entry], resets, exc=False)
        if not resets or w is not None:
            broken.append((f"{QA}.{cbname}", "the timer callback (its handle is spent) keeps the stale deadline in _scheduledAt while calls are run / rescheduled", g.describe(w)))
    lemma = not broken
    ctx.need(nsites >= 3, "writers of _timerHandle/_scheduledAt in AsyncioSelectorReactor")

    # decision table of callLater's re-arm condition
    f = norm_func(ctx, ASYNCIO, "AsyncioSelectorReactor", "callLater", AK)
    q = f"{QA}.callLater"
    rcalls = [c for c in body_walk(f) if _is_call(c, "self._reschedule")]
    rearm_rule = ["asyncio/rearm-decision"]
    rows_bad = []
    nrows = 0
    for c in rcalls:
        tests = [p for p in parents(c) if isinstance(p, ast.If)]
        tests = [p for p in tests if any(x is c for st in p.body for x in ast.walk(st))]
        if any(any(x is c for st in p.orelse for x in ast.walk(st)) for p in parents(c) if isinstance(p, ast.If)):
            raise AnalysisError("C13: _reschedule() in an else-branch of callLater: decision shape not recognised")
        free = sorted({n.id for t in tests for n in ast.walk(t.test) if isinstance(n, ast.Name) and n.id != "self"})
        # domain argument: the condition looks at its inputs only through None-tests and order comparisons between the new deadline and
        # self._scheduledAt, so one representative per (None-ness, ordering) class is exhaustive
        def atom_ok(cmp):
            if len(cmp.ops) != 1:
                return False
            l, r = cmp.left, cmp.comparators[0]
            if isinstance(cmp.ops[0], (ast.Is, ast.IsNot)) and is_const(r, None) and (self_attr(l, "_scheduledAt") or self_attr(l, "_timerHandle")):
                return True
            if isinstance(cmp.ops[0], (ast.Lt, ast.LtE, ast.Gt, ast.GtE)):
                return {src(l), src(r)} == {free[0] if free else "", "self._scheduledAt"}
            return False
        atoms_complete = all(atom_ok(x) for t in tests for x in ast.walk(t.test) if isinstance(x, ast.Compare)) and \
            not any(isinstance(x, ast.Call) for t in tests for x in ast.walk(t.test))
        rearm_rule[0] = "asyncio/rearm-decision" if atoms_complete else "asyncio/rearm-decision-sampled"
        if len(free) > 1:
            raise AnalysisError(f"C13: re-arm condition of callLater has several free variables: {free}")
        NOW = 10.0
        handle = SelfRef({})
        for h in (None, handle):
            for sched in (None, 5.0, 20.0):
                for new in (12.0, 30.0):
                    if lemma and h is None and sched is not None:
                        continue  # excluded by the coupling lemma
                    must = h is None or sched is None or new < sched
                    if not must:
                        continue
                    nrows += 1
                    it = Interp(SelfRef({"_scheduledAt": sched, "_timerHandle": h}), {}, {})
                    env = {"__outer__": None}
                    if free:
                        env[free[0]] = new
                    try:
                        dec = all(it.truth(it.expr(t.test, env)) for t in tests)
                    except EvalUnsupported as e:
                        raise AnalysisError(f"C13: re-arm condition of callLater outside the evaluable subset: {e}")
                    if not dec:
                        rows_bad.append(f"handle {'armed' if h is not None else 'None'}, _scheduledAt={sched} ({'none' if sched is None else 'past' if sched < NOW else 'future'}), "
                                        f"now={NOW}, new deadline={new}: decision is 'do not re-arm'")
    ctx.need(rcalls, "self._reschedule() in asyncio callLater")
    if lemma:
        ctx.ok("asyncio/timer-fields-coupled", QA, f"{nsites} writer sites keep `_scheduledAt is not None => live handle`")
        ctx.check(not rows_bad, rearm_rule[0], q, "callLater does not arm the timer although it must: " + "; ".join(rows_bad[:2]), detail=f"{nrows} rows; domain complete: the condition only tests None-ness and orders the new deadline against _scheduledAt")
    elif not rows_bad:
        ctx.ok("asyncio/timer-fields-coupled", QA, "fields decoupled at " + "; ".join(k for k, _, _ in broken) + " but callLater's decision re-arms whenever no handle is armed")
        ctx.ok(rearm_rule[0], q, f"{nrows} rows (unrestricted)")
    else:
        for key, what, wit in broken:
            ctx.violation("asyncio/timer-fields-coupled", key,
                          what + ": afterwards callLater never arms a timer (" + rows_bad[0] + "), so every callFromThread call, which goes through callLater(0, ...), "
                          "stays in the heap until an unrelated timer fires", wit)
        ctx.violation(rearm_rule[0], q, "with the fields decoupled, callLater does not arm the timer although none is armed: " + "; ".join(rows_bad[:2]))


def is_zero(e):
    return isinstance(e, ast.Constant) and type(e.value) is int and e.value == 0


_CFT = "            self.threadCallQueue.append((f, args, kwargs))\n            self.wakeUp()\n"
_DRAIN = ("            for f, a, kw in self.threadCallQueue:\n                with _threadCallHandler:\n                    f(*a, **kw)\n                count += 1\n"
          "                if count == total:\n                    break\n            del self.threadCallQueue[:count]\n")

MUTANTS = [
    Mutant("no-wake-after-enqueue", BASE, _CFT, "            self.threadCallQueue.append((f, args, kwargs))\n", expect_rule="wake/after-enqueue"),
    Mutant("wake-before-enqueue", BASE, _CFT, "            self.wakeUp()\n            self.threadCallQueue.append((f, args, kwargs))\n", expect_rule="wake/enqueue-before-wake"),
    Mutant("enqueue-at-head", BASE, _CFT, "            self.threadCallQueue.insert(0, (f, args, kwargs))\n            self.wakeUp()\n", expect_rule="queue/who-may-mutate"),
    Mutant("whole-queue-deleted", BASE, "            del self.threadCallQueue[:count]\n", "            del self.threadCallQueue[:]\n", expect_rule="drain/executed-prefix-deleted"),
    Mutant("count-inside-handler", BASE, "                with _threadCallHandler:\n                    f(*a, **kw)\n                count += 1\n",
           "                with _threadCallHandler:\n                    f(*a, **kw)\n                    count += 1\n", expect_rule="drain/count-matches-executed"),
    Mutant("break-before-count", BASE, "                count += 1\n                if count == total:\n                    break\n",
           "                if count + 1 == total:\n                    break\n                count += 1\n", expect_rule="drain/count-matches-executed"),
    Mutant("call-outside-handler", BASE, "                with _threadCallHandler:\n                    f(*a, **kw)\n                count += 1\n",
           "                f(*a, **kw)\n                count += 1\n", expect_rule="drain/isolated"),
    Mutant("index-walk-does-not-count-a-raising-call", BASE, "            for f, a, kw in self.threadCallQueue:\n                with _threadCallHandler:\n                    f(*a, **kw)\n                count += 1\n                if count == total:\n                    break\n", "            pending = self.threadCallQueue\n            while count < total:\n                f, a, kw = pending[count]\n                with _threadCallHandler:\n                    f(*a, **kw)\n                    count += 1\n", expect_rule="drain/count-matches-executed"),
    Mutant("index-walk-advances-before-reading", BASE, "            for f, a, kw in self.threadCallQueue:\n                with _threadCallHandler:\n                    f(*a, **kw)\n                count += 1\n                if count == total:\n                    break\n", "            pending = self.threadCallQueue\n            while count < total:\n                count += 1\n                f, a, kw = pending[count]\n                with _threadCallHandler:\n                    f(*a, **kw)\n", expect_rule="drain/from-head"),
    Mutant("remainder-not-woken", BASE, "            del self.threadCallQueue[:count]\n            if self.threadCallQueue:\n                self.wakeUp()\n",
           "            del self.threadCallQueue[:count]\n", expect_rule="drain/remainder-wakes"),
    Mutant("same-thread-shortcut", BASE, "            assert callable(f), f\"{f} is not callable\"\n            # lists are thread-safe in CPython",
           "            assert callable(f), f\"{f} is not callable\"\n            if self.waker is None:\n                f(*args, **kwargs)\n                return\n            # lists are thread-safe in CPython",
           expect_rule="enqueue/"),
    Mutant("drain-reversed", BASE, "            for f, a, kw in self.threadCallQueue:\n", "            for f, a, kw in reversed(self.threadCallQueue):\n", expect_rule="drain/from-head"),
    Mutant("asyncio-not-threadsafe", ASYNCIO, "        self._asyncioEventloop.call_soon_threadsafe(g)\n", "        self._asyncioEventloop.call_soon(g)\n", expect_rule="asyncio/threadsafe-handoff"),
    Mutant("waker-writes-nothing", SIGNALS, "                util.untilConcludes(os.write, self.o, b\"x\")\n", "                util.untilConcludes(os.write, self.o, b\"\")\n", expect_rule="waker/writes-a-byte"),
    Mutant("waker-not-watched", POSIX, "            self._internalReaders.add(self.waker)\n            self.addReader(self.waker)\n", "            self._internalReaders.add(self.waker)\n",
           expect_rule="waker/watched-by-reactor"),
    Mutant("wakeUp-only-when-not-running", BASE, "        if self.waker:\n            self.waker.wakeUp()\n", "        if self.waker and not self.running:\n            self.waker.wakeUp()\n",
           expect_rule="wake/reaches-waker"),
    Mutant("pipe-ends-swapped", SIGNALS, "        self.i, self.o = os.pipe()\n", "        self.o, self.i = os.pipe()\n", expect_rule="waker/writes-to-write-end"),
    Mutant("asyncio-crash-drops-handle-keeps-deadline", ASYNCIO, "        super().crash()\n        self._asyncioEventloop.stop()\n",
           "        super().crash()\n        handle, self._timerHandle = self._timerHandle, None\n        if handle is not None:\n            handle.cancel()\n        self._asyncioEventloop.stop()\n",
           expect_rule="asyncio/timer-fields-coupled"),
    Mutant("asyncio-timer-callback-keeps-deadline", ASYNCIO, "        self._scheduledAt = None\n        self.runUntilCurrent()\n        self._reschedule()\n",
           "        self.runUntilCurrent()\n        self._reschedule()\n", expect_rule="asyncio/timer-fields-coupled"),
    Mutant("asyncio-timer-only-rearmed-for-later", ASYNCIO, "        if self._scheduledAt is None or abs_time < self._scheduledAt:\n", "        if self._scheduledAt is None or abs_time > self._scheduledAt:\n",
           expect_rule="asyncio/timer-rescheduled"),
]

SILENT = [
    Silent("rename-loop-locals", BASE, _DRAIN,
           "            for func, fargs, fkw in self.threadCallQueue:\n                with _threadCallHandler:\n                    func(*fargs, **fkw)\n                count += 1\n"
           "                if count == total:\n                    break\n            del self.threadCallQueue[:count]\n"),
    Silent("count-before-call", BASE, "                with _threadCallHandler:\n                    f(*a, **kw)\n                count += 1\n",
           "                count += 1\n                with _threadCallHandler:\n                    f(*a, **kw)\n"),
    Silent("asyncio-nested-def", ASYNCIO, "        g = lambda: self.callLater(0, f, *args, **kwargs)\n        self._asyncioEventloop.call_soon_threadsafe(g)\n",
           "        def runInLoop():\n            self.callLater(0, f, *args, **kwargs)\n\n        self._asyncioEventloop.call_soon_threadsafe(runInLoop)\n"),
    Silent("asyncio-crash-resets-both-timer-fields", ASYNCIO, "        super().crash()\n        self._asyncioEventloop.stop()\n",
           "        super().crash()\n        if self._timerHandle is not None:\n            self._timerHandle.cancel()\n            self._timerHandle = None\n        self._scheduledAt = None\n        self._asyncioEventloop.stop()\n"),
    Silent("asyncio-crash-drops-handle-and-callLater-tests-handle", ASYNCIO, "        super().crash()\n        self._asyncioEventloop.stop()\n",
           "        super().crash()\n        if self._timerHandle is not None:\n            self._timerHandle.cancel()\n            self._timerHandle = None\n        self._asyncioEventloop.stop()\n",
           more=[(ASYNCIO, "        if self._scheduledAt is None or abs_time < self._scheduledAt:\n", "        if self._timerHandle is None or self._scheduledAt is None or abs_time < self._scheduledAt:\n")]),
    Silent("waker-explicit-none-test", BASE, "        if self.waker:\n            self.waker.wakeUp()\n", "        if self.waker is not None:\n            self.waker.wakeUp()\n"),
    Silent("no-total-snapshot", BASE, "                count += 1\n                if count == total:\n                    break\n", "                count += 1\n"),

    # --- shapes of the independent refactor set
    Silent("enqueue-helper-shared-by-both-variants", BASE, _CFT, "            self._enqueueCall(f, args, kwargs)\n            self.wakeUp()\n",
           more=[(BASE, "            # See comment in the other callFromThread implementation.\n            self.threadCallQueue.append((f, args, kwargs))\n", "            self._enqueueCall(f, args, kwargs)\n"),
                 (BASE, "    def runUntilCurrent(self) -> None:\n", "    def _enqueueCall(self, f, args, kwargs) -> None:\n        entry = (f, args, kwargs)\n        self.threadCallQueue.append(entry)\n\n    def runUntilCurrent(self) -> None:\n")]),
    Silent("drain-bounded-by-islice", BASE, "            for f, a, kw in self.threadCallQueue:\n                with _threadCallHandler:\n                    f(*a, **kw)\n                count += 1\n                if count == total:\n                    break\n",
           "            for f, a, kw in islice(self.threadCallQueue, total):\n                with _threadCallHandler:\n                    f(*a, **kw)\n                count += 1\n"),

    # --- second round of independent refactors
    Silent("asyncio-rearm-decision-named", ASYNCIO, "        if self._scheduledAt is None or abs_time < self._scheduledAt:\n            self._reschedule()\n",
           "        armedFor = self._scheduledAt\n        mustRearm = armedFor is None or abs_time < armedFor\n        if not mustRearm:\n            return dc\n        self._reschedule()\n"),
    # --- third round: the drain as an index-driven walk over the same list object
    Silent("drain-walks-the-queue-by-index", BASE, "            for f, a, kw in self.threadCallQueue:\n                with _threadCallHandler:\n                    f(*a, **kw)\n                count += 1\n                if count == total:\n                    break\n", "            pending = self.threadCallQueue\n            while count < total:\n                f, a, kw = pending[count]\n                with _threadCallHandler:\n                    f(*a, **kw)\n                count += 1\n"),
]
