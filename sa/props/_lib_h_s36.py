"""Structural layer of C36 (CFG dominance by normalised window inequalities, coupled-update path rules, exact guard sets) on the
normalised view of SSHChannel / SSHConnection.  Rule names carry the prefix "s/".  A rule group that cannot read the shape
abstains with a note (the clause is then covered by the bounded layer in c36.py)."""
from __future__ import annotations

import ast
import struct

from sa.astx import call_attr, call_name, const_eval, dotted, src, statements
from sa.source import methods
from sa.props._lib_h import (Normaliser, abstain, assigned_pairs, call_nodes, calls_at, canon, const_is, csrc, def_nodes, edge_path, guarded_by_edges,
                              is_attr, is_empty_const, lin, lincmp_c, local_aliases, need, pure_expr, reaching_defs, self_attr, stmts,
                              struct_fmt_norm, succ_on, tests, truth_edges, truthiness)
from sa.props._lib_h_s35 import SCtx

CH = "conch/ssh/channel.py"
CO = "conch/ssh/connection.py"
QC = "twisted.conch.ssh.channel.SSHChannel."
QN = "twisted.conch.ssh.connection.SSHConnection."
SENDER = "sender/ (bounded)"
RECEIVER = "receiver/ (bounded)"

WIN = "self.remoteWindowLeft"
RMP = "self.remoteMaxPacket"


def _aliases(f):
    return local_aliases(f, allow=lambda v: pure_expr(v) or isinstance(v, (ast.Attribute, ast.Call)))


def _cmp_edges(g, al, terms, c, at_least=False):
    """test edges on which  sum(coef*term) >= c  is known (after alias substitution).  With at_least the
    edge may establish a stronger fact (>= c' with c' >= c); without, the boundary must be exactly c (K12)."""
    wt = frozenset((k, v) for k, v in terms.items() if v)
    out = []
    for t in g.ids(lambda n: n.kind == "test"):
        e = g.node(t).ast
        for lab, neg in (("T", False), ("F", True)):
            nf = lincmp_c(e, al, negate=neg)
            if nf is not None and nf[0] == wt and (nf[1] == c or (at_least and nf[1] >= c)):
                out.append((t, lab))
    return out


def _other(lab):
    return "F" if lab == "T" else "T"


def _win_decrements(g, al, attr_base="self", attr="remoteWindowLeft"):
    """[(node, amount expr)] for  X -= amt  /  X = X - amt."""
    out = []
    for n in stmts(g, lambda st: isinstance(st, (ast.AugAssign, ast.Assign))):
        st = g.node(n).ast
        if isinstance(st, ast.AugAssign) and is_attr(st.target, attr_base, attr):
            if isinstance(st.op, ast.Sub):
                out.append((n, st.value))
            else:
                out.append((n, None))
        elif isinstance(st, ast.Assign):
            for t, v in assigned_pairs(st):
                if is_attr(t, attr_base, attr):
                    if isinstance(v, ast.BinOp) and isinstance(v.op, ast.Sub) and is_attr(v.left, attr_base, attr):
                        out.append((n, v.right))
                    else:
                        out.append((n, None))
    return out


def _slice_parts(e):
    if isinstance(e, ast.Subscript) and isinstance(e.slice, ast.Slice) and e.slice.step is None:
        return e.value, e.slice.lower, e.slice.upper
    return None


def _resolve(g, e, use, at_definition=False):
    """(value, node where it is evaluated) of ``e`` as read at CFG node ``use``: a local with a single definition whose
    operands are not re-bound between that definition and the use stands for its defining expression.  With
    ``at_definition`` the caller reasons about the value at the node returned (where the expression is evaluated), so
    later re-bindings of its operands do not matter."""
    for _ in range(3):
        if not isinstance(e, ast.Name):
            break
        ds = def_nodes(g, e.id)
        if len(ds) != 1:
            break
        d = ds[0]
        vals = [v for t, v in assigned_pairs(g.node(d).ast) if isinstance(t, ast.Name) and t.id == e.id] if isinstance(g.node(d).ast, ast.Assign) else []
        if len(vals) != 1 or vals[0] is None or any(isinstance(x, ast.Call) and dotted(x.func) != "len" for x in ast.walk(vals[0])):
            break
        if edge_path(g, [d], [use], strict=True) is None:
            break
        stale = False
        for x in ast.walk(vals[0]):
            if isinstance(x, ast.Name):
                for k in def_nodes(g, x.id):
                    if k not in (d, use) and edge_path(g, [d], [k], strict=True) is not None and edge_path(g, [k], [use], avoid_nodes=[d], strict=True) is not None:
                        stale = True
        if stale and not at_definition:
            break
        e, use = vals[0], d
    return e, use


def _check_split(ctx, g, al, q, dparam, buf_attr, overflow_starts, sinks, what):
    """On the overflow branch the data must be split completely at the window: data = data[:W]; buffer gets data[W:]."""
    trunc, rest = [], []
    rest_eval = {}
    for n in stmts(g, lambda st: isinstance(st, ast.Assign)):
        st = g.node(n).ast
        for t, v in assigned_pairs(st):
            if v is None:
                continue
            if isinstance(t, ast.Name) and t.id == dparam:
                v1, _at = _resolve(g, v, n)
                sp = _slice_parts(v1)
                if sp and isinstance(sp[0], ast.Name) and sp[0].id == dparam and sp[1] is None and sp[2] is not None:
                    trunc.append((n, sp[2]))
            if is_attr(t, "self", buf_attr):
                for x in ast.walk(v):
                    x1, at = _resolve(g, x, n, at_definition=True) if isinstance(x, ast.Name) else (x, n)
                    sp = _slice_parts(x1)
                    if sp and isinstance(sp[0], ast.Name) and sp[0].id == dparam and sp[2] is None and sp[1] is not None:
                        rest.append((n, sp[1]))
                        rest_eval[n] = at
    tn = [n for n, _ in trunc if csrc(_, al) == WIN]
    rn = [n for n, _ in rest if csrc(_, al) == WIN]
    for n, b in trunc:
        ctx.check(csrc(b, al) == WIN, "split/at-window", ctx.construct(q, g.node(n).ast) + " | sent part",
                  f"{what}: the part sent is cut at {csrc(b, al)} instead of the remote window")
    for n, b in rest:
        ctx.check(csrc(b, al) == WIN, "split/at-window", ctx.construct(q, g.node(n).ast) + " | buffered part",
                  f"{what}: the part buffered starts at {csrc(b, al)} instead of the remote window: bytes are lost or sent twice")
    w = edge_path(g, overflow_starts, sinks, avoid_nodes=tn)
    ctx.check(bool(tn) and w is None, "split/complete", q + " | <truncate to window>",
              f"{what}: data longer than the remote window can reach a send without being truncated to the window", witness=g.describe(w))
    w = edge_path(g, overflow_starts, sinks, avoid_nodes=rn)
    ctx.check(bool(rn) and w is None, "split/complete", q + " | <buffer the rest>",
              f"{what}: the bytes beyond the remote window are not buffered (they are never delivered)", witness=g.describe(w))
    # the rest must be taken from the untruncated data
    for a in tn:
        for b in rn:
            if a != b:
                w = edge_path(g, [a], [rest_eval.get(b, b)], strict=True)
                ctx.check(w is None, "split/complete", ctx.construct(q, g.node(b).ast) + " | order",
                          f"{what}: the rest is sliced after the data was truncated, so it is always empty", witness=g.describe(w))
    return tn


def _closing_recheck(ctx, g, q, after_nodes, buf_attrs):
    ctests = [t for t, lab in truth_edges(g, lambda e: self_attr(e, "closing"), True)]
    cedges = truth_edges(g, lambda e: self_attr(e, "closing"), True)
    w = edge_path(g, after_nodes, [g.exit], avoid_nodes=ctests)
    ctx.check(bool(ctests) and w is None, "close/recheck-after-drain", q,
              "a function that can drain the buffer returns without re-checking `closing`: a close requested while data was buffered is never sent",
              witness=g.describe(w))
    lose = call_nodes(g, lambda c: call_name(c) == "self.loseConnection")
    skip = []
    for a in buf_attrs:
        skip += truth_edges(g, lambda e, a=a: self_attr(e, a), True)
    for t, lab in cedges:
        w = edge_path(g, succ_on(g, t, lab), [g.exit], avoid_nodes=lose, avoid_edges=skip)
        ctx.check(bool(lose) and w is None, "close/recheck-after-drain", ctx.construct(q, g.node(t).ast) + " | retries close",
                  "`closing` is set and the buffer is empty, yet loseConnection() is not retried", witness=g.describe(w))


def structural(ctx0):
    ctx = SCtx(ctx0)
    _NCH = Normaliser(ctx.mod(CH), ["SSHChannel"], set(), presplit=True)
    VCH = _NCH.view
    VCO = Normaliser(ctx.mod(CO), ["SSHConnection"], set(), subscripts=False, presplit=True).view
    _ok_w = False; _ok_wl = False; _ok_x = False; _ok_aw = False; _ok_cn = False; _ok_sm = False; loop = bound = None
    with abstain(ctx0, 's/write/anchors', SENDER):
        f = VCH(ctx.func(CH, "SSHChannel.write"))
        g = ctx.cfg(f)
        q = QC + "write"
        al = _aliases(f)
        dparam = f.args.args[1].arg

        def is_send(c, name):
            return csrc(c.func, al) == f"self.conn.{name}"
        sends = call_nodes(g, lambda c: is_send(c, "sendData"))
        ctx.need(sends, "write: conn.sendData site")
        empty_edges = truth_edges(g, lambda e: self_attr(e, "buf"), False)
        full_edges = truth_edges(g, lambda e: self_attr(e, "buf"), True)
        _ok_w = True
    with abstain(ctx0, 's/write/order', SENDER):
        ctx.need(_ok_w, 'anchors of write (section skipped)')
        for s in sends:
            ctx.check(bool(empty_edges) and guarded_by_edges(g, s, empty_edges), "order/send-only-if-buffer-empty", ctx.construct(q, g.node(s).ast),
                      "data is sent although older data is still buffered: the stream is delivered out of order")

        def appends(st, attr):
            if isinstance(st, ast.AugAssign) and self_attr(st.target, attr) and isinstance(st.op, ast.Add) and isinstance(st.value, ast.Name) and st.value.id == dparam:
                return True
            if isinstance(st, ast.Assign):
                return any(self_attr(t, attr) and isinstance(v, ast.BinOp) and isinstance(v.op, ast.Add) and self_attr(v.left, attr)
                           and isinstance(v.right, ast.Name) and v.right.id == dparam for t, v in assigned_pairs(st) if v is not None)
            return False
        app = stmts(g, lambda st: appends(st, "buf"))
        full_edges = [(t, lab) for t, lab in full_edges if edge_path(g, [t], sends) is not None]   # the entry test, not the closing re-check
        for t, lab in full_edges:
            w = edge_path(g, succ_on(g, t, lab), [g.exit], avoid_nodes=app)
            ctx.check(bool(app) and w is None, "order/append-at-tail-while-buffered", ctx.construct(q, g.node(t).ast),
                      "while data is buffered, new data is not appended at the tail of the buffer (lost or reordered)", witness=g.describe(w))
        ctx.check(bool(full_edges), "order/append-at-tail-while-buffered", q, "write() never tests whether older data is still buffered")

    with abstain(ctx0, 's/write/send-loop', SENDER):
        ctx.need(_ok_w, 'anchors of write (section skipped)')
        loops = [n for n in g.ids(lambda n: n.kind == "for") if any(edge_path(g, [n], [s], strict=True) for s in sends)]
        ctx.need(loops, "write: for-loop around sendData")
        loop = loops[0]
        it = g.node(loop).ast.iter
        if isinstance(it, ast.Name) and it.id in al:
            it = al[it.id]
        need(ctx, isinstance(it, ast.Call) and dotted(it.func) == "range" and len(it.args) == 3 and const_is(it.args[0], 0), f"write: range(0, bound, step), got {src(it)}")
        bound, step = it.args[1], canon(it.args[2], al)
        al = {k: v for k, v in al.items() if not (isinstance(bound, ast.Name) and k == bound.id)}   # the bound stays symbolic
        lv = g.node(loop).ast.target
        need(ctx, isinstance(lv, ast.Name), "write: loop variable")
        ctx.check(src(step) == RMP, "packet-size/piece-width", ctx.construct(q, g.node(loop).ast) + " | step",
                  f"pieces advance by {src(step)}, not by the peer's maximum packet size")
        for s in sends:
            for c in calls_at(g, s, lambda c: is_send(c, "sendData")):
                arg = _resolve(g, c.args[1], s)[0] if len(c.args) == 2 else None
                sp = _slice_parts(arg) if arg is not None else None
                need(ctx, sp is not None or (isinstance(arg, ast.Name) and arg.id == dparam), f"write: piece expression {src(arg) if arg is not None else '?'}")
                okshape = sp is not None and isinstance(sp[0], ast.Name) and sp[0].id == dparam and sp[1] is not None and sp[2] is not None \
                    and src(sp[1]) == lv.id
                ctx.check(okshape and src(c.args[0]) == "self", "packet-size/piece-width", ctx.construct(q, c) + " | shape",
                          f"the piece sent is not {dparam}[offset:offset+max]")
                if okshape:
                    width = lin(ast.BinOp(left=sp[2], op=ast.Sub(), right=sp[1]), al)
                    ctx.check(width == (frozenset({(RMP, 1)}), 0), "packet-size/piece-width", ctx.construct(q, c),
                              f"a piece can be {csrc(sp[2], al)} - {csrc(sp[1], al)} bytes long; the peer accepts at most remoteMaxPacket")
        _ok_wl = True
    with abstain(ctx0, 's/write/clamp-and-split', SENDER):
        ctx.need(_ok_wl, 'anchors of write (section skipped)')
        if isinstance(bound, ast.Name):
            B = bound.id
            est_edges = _cmp_edges(g, al, {WIN: 1, B: -1}, 0, at_least=True)
            est_nodes = stmts(g, lambda st: isinstance(st, ast.Assign) and any(isinstance(t, ast.Name) and t.id == B and v is not None and csrc(v, al) == WIN
                                                                                for t, v in assigned_pairs(st)))
            # `B = len(data)` on an edge where len(data) <= window is known establishes the bound just as well
            len_edges = _cmp_edges(g, al, {WIN: 1, f"len({dparam})": -1}, 0, at_least=True)
            est_nodes += [n for n in stmts(g, lambda st: isinstance(st, ast.Assign) and any(isinstance(t, ast.Name) and t.id == B and v is not None and src(v) == f"len({dparam})"
                                                                                             for t, v in assigned_pairs(st)))
                          if len_edges and guarded_by_edges(g, n, len_edges)]
            kills = [n for n in def_nodes(g, B) if n not in est_nodes]
            w = edge_path(g, [g.entry] + kills, [loop], avoid_nodes=est_nodes, avoid_edges=est_edges)
            ctx.check(w is None, "window/clamp", ctx.construct(q, g.node(loop).ast),
                      f"the number of bytes sent ({B}) is not bounded by remoteWindowLeft on every path (neither the test '{B} <= window' nor "
                      f"'{B} = window')", witness=g.describe(w))
            # len(data) == bound on the no-overflow edge: bound was len(data)
            lens = stmts(g, lambda st: isinstance(st, ast.Assign) and any(isinstance(t, ast.Name) and t.id == B and v is not None and src(v) == f"len({dparam})"
                                                                           for t, v in assigned_pairs(st)))
            ctx.check(bool(lens), "window/clamp", q + f" | {B} = len({dparam})", f"the loop bound is not initialised from len({dparam})")
            overflow = [d for t, lab in est_edges + len_edges for d in succ_on(g, t, _other(lab))]
            tn = _check_split(ctx, g, al, q, dparam, "buf", overflow, [loop], "write()")
        else:
            need(ctx, False, f"write: loop bound {src(bound)} is not a local")
    with abstain(ctx0, 's/write/decrement', SENDER):
        ctx.need(_ok_wl, 'anchors of write (section skipped)')
        decs = _win_decrements(g, al)
        dn = [n for n, a in decs]
        for n, a in decs:
            # after the (checked) truncation len(data) == bound on every path, so either spelling is exact
            ctx.check(a is not None and csrc(a, al) in (src(bound), f"len({dparam})"), "window/decrement-matches-sent", ctx.construct(q, g.node(n).ast),
                      f"remoteWindowLeft is reduced by {csrc(a, al) if a is not None else '?'} but {src(bound)} bytes were handed to sendData")
            w = g.must_precede([loop], [n], exc=False)
            ctx.check(w is None, "window/decrement-matches-sent", ctx.construct(q, g.node(n).ast) + " | only when sending",
                      "the window is reduced on a path that sends nothing", witness=g.describe(w))
            w = edge_path(g, [n], dn, strict=True)
            ctx.check(w is None, "window/decrement-once", ctx.construct(q, g.node(n).ast), "the window can be reduced twice for one write", witness=g.describe(w))
        w = edge_path(g, succ_on(g, loop, "done"), [g.exit], avoid_nodes=dn)
        ctx.check(bool(dn) and w is None, "window/decrement-once", q, "data is sent without reducing remoteWindowLeft: later writes exceed the peer's window",
                  witness=g.describe(w))
    with abstain(ctx0, 's/write/close-recheck', SENDER):
        ctx.need(_ok_wl, 'anchors of write (section skipped)')
        _closing_recheck(ctx, g, q, succ_on(g, loop, "done"), ["buf"])

    with abstain(ctx0, 's/writeExtended/anchors', SENDER):
        f = VCH(ctx.func(CH, "SSHChannel.writeExtended"))
        g = ctx.cfg(f)
        q = QC + "writeExtended"
        al = _aliases(f)
        tparam, dparam = f.args.args[1].arg, f.args.args[2].arg
        sends = call_nodes(g, lambda c: is_send(c, "sendExtendedData"))
        ctx.need(sends, "writeExtended: conn.sendExtendedData site")
        empty_edges = truth_edges(g, lambda e: self_attr(e, "extBuf"), False)
        full_edges = truth_edges(g, lambda e: self_attr(e, "extBuf"), True)
        _ok_x = True
    with abstain(ctx0, 's/writeExtended/order', SENDER):
        ctx.need(_ok_x, 'anchors of writeExtended (section skipped)')
        for s in sends:
            ctx.check(bool(empty_edges) and guarded_by_edges(g, s, empty_edges), "order/send-only-if-buffer-empty", ctx.construct(q, g.node(s).ast),
                      "extended data is sent although older extended data is still buffered: the stream is delivered out of order")

        def ext_tail_append(st):
            # self.extBuf.append([type, data])  or  self.extBuf[-1][1] += data
            if isinstance(st, ast.Expr) and isinstance(st.value, ast.Call) and call_name(st.value) == "self.extBuf.append" and len(st.value.args) == 1:
                a = st.value.args[0]
                return isinstance(a, (ast.List, ast.Tuple)) and [src(e) for e in a.elts] == [tparam, dparam]
            if isinstance(st, ast.AugAssign) and isinstance(st.op, ast.Add) and src(st.target) == "self.extBuf[-1][1]" and src(st.value) == dparam:
                return True
            return False
        app = stmts(g, ext_tail_append)
        full_edges = [(t, lab) for t, lab in full_edges if edge_path(g, [t], sends) is not None]
        for t, lab in full_edges:
            w = edge_path(g, succ_on(g, t, lab), [g.exit], avoid_nodes=app)
            ctx.check(bool(app) and w is None, "order/append-at-tail-while-buffered", ctx.construct(q, g.node(t).ast),
                      "while extended data is buffered, new data is not appended at the tail of the buffer", witness=g.describe(w))
        ctx.check(bool(full_edges), "order/append-at-tail-while-buffered", q, "writeExtended() never tests whether older data is still buffered")
        # every index into extBuf is the tail, merging only with an entry of the same type
        for n in ast.walk(f):
            if isinstance(n, ast.Subscript) and self_attr(n.value, "extBuf") and not isinstance(n.slice, ast.Slice):
                ctx.check(src(n.slice) == "-1", "order/append-at-tail-while-buffered", ctx.construct(q, n) + " | index",
                          f"buffered extended data is merged into entry [{src(n.slice)}] instead of the last one: order across types is lost")
            if isinstance(n, ast.Call) and isinstance(n.func, ast.Attribute) and self_attr(n.func.value, "extBuf") and n.func.attr in ("insert", "appendleft", "extendleft"):
                ctx.check(False, "order/append-at-tail-while-buffered", ctx.construct(q, n), "extended data is queued at the head of the buffer")
        merges = stmts(g, lambda st: isinstance(st, ast.AugAssign) and src(st.target).startswith("self.extBuf["))
        same_type = [(t, "T") for t in tests(g, lambda e: isinstance(e, ast.Compare) and len(e.ops) == 1 and isinstance(e.ops[0], ast.Eq)
                                             and {src(e.left), src(e.comparators[0])} == {"self.extBuf[-1][0]", tparam})]
        same_type += [(t, "F") for t in tests(g, lambda e: isinstance(e, ast.Compare) and len(e.ops) == 1 and isinstance(e.ops[0], ast.NotEq)
                                              and {src(e.left), src(e.comparators[0])} == {"self.extBuf[-1][0]", tparam})]
        for m in merges:
            ctx.check(guarded_by_edges(g, m, same_type), "order/merge-same-type-only", ctx.construct(q, g.node(m).ast),
                      "data is merged into a buffered entry of a different extended-data type")

    with abstain(ctx0, 's/writeExtended/clamp-and-split', SENDER):
        ctx.need(_ok_x, 'anchors of writeExtended (section skipped)')
        est_edges = _cmp_edges(g, al, {WIN: 1, f"len({dparam})": -1}, 0, at_least=True)
        overflow = [d for t, lab in est_edges for d in succ_on(g, t, _other(lab))]
        tn = _check_split(ctx, g, al, q, dparam, "extBuf", overflow, sends, "writeExtended()")
        # the rest must be buffered under the same type
        for n in stmts(g, lambda st: isinstance(st, ast.Assign) and any(self_attr(t, "extBuf") for t, v in assigned_pairs(st))):
            for t, v in assigned_pairs(g.node(n).ast):
                if self_attr(t, "extBuf") and v is not None and any(_slice_parts(_resolve(g, x, n, at_definition=True)[0] if isinstance(x, ast.Name) else x) for x in ast.walk(v)):
                    okv = isinstance(v, ast.List) and len(v.elts) == 1 and isinstance(v.elts[0], (ast.List, ast.Tuple)) and len(v.elts[0].elts) == 2 \
                        and src(v.elts[0].elts[0]) == tparam
                    ctx.check(okv, "split/complete", ctx.construct(q, g.node(n).ast) + " | type kept", "the buffered rest loses its extended-data type")
        def shrink_or_trunc(st):
            for t, v in assigned_pairs(st) if isinstance(st, ast.Assign) else []:
                if isinstance(t, ast.Name) and t.id == dparam:
                    v = _resolve(g, v, g.ids_of(st)[0])[0] if v is not None and g.ids_of(st) else v
                    sp = _slice_parts(v) if v is not None else None
                    if not (sp and isinstance(sp[0], ast.Name) and sp[0].id == dparam):
                        return False
            return True
        kills = [n for n in def_nodes(g, dparam) if not shrink_or_trunc(g.node(n).ast)]
        for s in sends:
            w = edge_path(g, [g.entry] + kills, [s], avoid_nodes=tn, avoid_edges=est_edges)
            ctx.check(w is None, "window/clamp", ctx.construct(q, g.node(s).ast),
                      "extended data can be sent without having been bounded by remoteWindowLeft", witness=g.describe(w))
    with abstain(ctx0, 's/writeExtended/pieces-and-decrement', SENDER):
        ctx.need(_ok_x, 'anchors of writeExtended (section skipped)')
        decs = _win_decrements(g, al)
        dn = [n for n, a in decs]
        size_edges = _cmp_edges(g, al, {RMP: 1, f"len({dparam})": -1}, 0, at_least=True)
        for s in sends:
            c = calls_at(g, s, lambda c: is_send(c, "sendExtendedData"))[0]
            okargs = len(c.args) == 3 and src(c.args[0]) == "self" and src(c.args[1]) == tparam
            ctx.check(okargs, "packet-size/piece-width", ctx.construct(q, c) + " | shape", "sendExtendedData is not called with (self, dataType, piece)")
            if not okargs:
                continue
            piece = _resolve(g, c.args[2], s)[0]
            sp = _slice_parts(piece)
            expect = None
            if sp and isinstance(sp[0], ast.Name) and sp[0].id == dparam and sp[1] is None and sp[2] is not None:
                ctx.check(csrc(sp[2], al) == RMP, "packet-size/piece-width", ctx.construct(q, c),
                          f"a piece of {csrc(sp[2], al)} bytes is sent; the peer accepts at most remoteMaxPacket")
                big = _cmp_edges(g, al, {f"len({dparam})": 1, csrc(sp[2], al): -1}, 0, at_least=True)
                ctx.check(guarded_by_edges(g, s, big), "window/decrement-matches-sent", ctx.construct(q, c) + " | full piece",
                          "a prefix piece is sent without knowing that the data is at least that long (the window is charged for more than was sent)")
                expect = csrc(sp[2], al)
                # the data must advance by the same amount
                adv = stmts(g, lambda st: isinstance(st, ast.Assign) and any(
                    isinstance(t, ast.Name) and t.id == dparam and v is not None and _slice_parts(v) and src(_slice_parts(v)[0]) == dparam
                    and _slice_parts(v)[2] is None and _slice_parts(v)[1] is not None and csrc(_slice_parts(v)[1], al) == expect for t, v in assigned_pairs(st)))
                w = edge_path(g, [s], sends + [g.exit], avoid_nodes=adv, strict=True)
                ctx.check(bool(adv) and w is None, "order/advance-by-sent", ctx.construct(q, c),
                          f"after sending {dparam}[:{expect}] the data does not advance by exactly {expect}: bytes are repeated or skipped", witness=g.describe(w))
            elif isinstance(piece, ast.Name) and piece.id == dparam:
                ctx.check(guarded_by_edges(g, s, size_edges), "packet-size/piece-width", ctx.construct(q, c),
                          "the remaining data is sent in one message without knowing that it fits the peer's maximum packet size")
                expect = f"len({dparam})"
            else:
                need(ctx, False, f"writeExtended: piece expression {src(piece)}")
            follow = [n for n, a in decs if a is not None and csrc(a, al) == expect]
            w = edge_path(g, [s], sends + [g.exit], avoid_nodes=follow, strict=True)
            ctx.check(bool(follow) and w is None, "window/decrement-matches-sent", ctx.construct(q, c),
                      f"after this send remoteWindowLeft is not reduced by {expect} before the next send / return", witness=g.describe(w))
            if expect.startswith("len("):
                redefs = def_nodes(g, dparam)
                for d in follow:
                    w = edge_path(g, [s], [d], strict=True)
                    if w and any(x in redefs for x in w[1:-1]):
                        ctx.check(False, "window/decrement-matches-sent", ctx.construct(q, c) + " | stale length", "the data is rebound between the send and len(data)")
        for n, a in decs:
            w = g.must_precede(sends, [n], exc=False)
            ctx.check(w is None, "window/decrement-matches-sent", ctx.construct(q, g.node(n).ast) + " | only when sending",
                      "the window is reduced on a path that sends nothing", witness=g.describe(w))
            w = edge_path(g, [n], dn, avoid_nodes=sends, strict=True)
            ctx.check(w is None, "window/decrement-once", ctx.construct(q, g.node(n).ast), "the window is reduced twice for one send", witness=g.describe(w))
    with abstain(ctx0, 's/writeExtended/close-recheck', SENDER):
        ctx.need(_ok_x, 'anchors of writeExtended (section skipped)')
        # the close must be re-tried after a drain: by writeExtended itself, or - when every method of the class that re-writes buffered entries
        # through it holds the close back during the call (closing masked) and re-tries loseConnection() afterwards on every path - by those callers
        # (a direct call cannot drain: while anything is buffered the remote window is exhausted and writeExtended only buffers)
        own = truth_edges(g, lambda e: self_attr(e, "closing"), True)
        covered = []
        for cname, cfn in methods(ctx.cls(CH, "SSHChannel")).items():
            if cname == "writeExtended" or not any(isinstance(c, ast.Call) and call_name(c) == "self.writeExtended" for c in ast.walk(cfn)):
                continue
            cv = VCH(cfn)
            cg = ctx.cfg(cv)
            sites = call_nodes(cg, lambda c: call_name(c) == "self.writeExtended")
            saved = {t.id for x in statements(cv) if isinstance(x, ast.Assign) for t, v in assigned_pairs(x) if isinstance(t, ast.Name) and v is not None and self_attr(v, "closing")}
            masks = stmts(cg, lambda x: isinstance(x, ast.Assign) and any(self_attr(t, "closing") and isinstance(v, ast.Constant) and not v.value for t, v in assigned_pairs(x)))
            retry = call_nodes(cg, lambda c: call_name(c) == "self.loseConnection")
            keep = [e for n_ in saved for e in truth_edges(cg, lambda e, n_=n_: isinstance(e, ast.Name) and e.id == n_, False)]
            okc = bool(sites) and bool(masks) and bool(retry) and cg.must_precede(masks, sites, exc=False) is None \
                and edge_path(cg, sites, [cg.exit], avoid_nodes=retry, avoid_edges=keep, strict=True) is None
            covered.append((cname, okc))
        if not own and covered and all(okc for _, okc in covered):
            ctx.ok("close/recheck-after-drain", q, f"the close is re-tried by the re-writing callers {[c for c, _ in covered]} (closing masked during the call, loseConnection() re-tried on every path after it)")
        else:
            _closing_recheck(ctx, g, q, sends + [d for t, lab in empty_edges for d in succ_on(g, t, lab)], ["extBuf"])

    with abstain(ctx0, 's/addWindowBytes/credit', SENDER):
        f = VCH(ctx.func(CH, "SSHChannel.addWindowBytes"))
        g = ctx.cfg(f)
        q = QC + "addWindowBytes"
        al = _aliases(f)
        nparam = f.args.args[1].arg
        incs = []
        for n in stmts(g, lambda st: isinstance(st, (ast.Assign, ast.AugAssign))):
            st = g.node(n).ast
            if isinstance(st, ast.AugAssign) and self_attr(st.target, "remoteWindowLeft"):
                incs.append((n, isinstance(st.op, ast.Add) and src(st.value) == nparam))
            elif isinstance(st, ast.Assign):
                for t, v in assigned_pairs(st):
                    if self_attr(t, "remoteWindowLeft"):
                        incs.append((n, v is not None and lin(v, al) == (frozenset({(WIN, 1), (nparam, 1)}), 0)))
        ctx.check(len(incs) == 1 and incs[0][1], "window/credit", q, f"remoteWindowLeft is not increased by exactly the {nparam} bytes the peer granted (once)")
        inc_nodes = [n for n, ok in incs]
        rew = call_nodes(g, lambda c: call_name(c) in ("self.write", "self.writeExtended"))
        for r in rew:
            w = g.must_precede(inc_nodes, [r], exc=False)
            ctx.check(w is None, "window/credit-before-rewrite", ctx.construct(q, g.node(r).ast),
                      "buffered data is re-written before the new window is credited: it is buffered again and stays there until the next adjust",
                      witness=g.describe(w))
        _ok_aw = True
    with abstain(ctx0, 's/addWindowBytes/flush', SENDER):
        ctx.need(_ok_aw, 'anchors of addWindowBytes (section skipped)')
        for meth, attr in (("write", "buf"), ("writeExtended", "extBuf")):
            calls = call_nodes(g, lambda c: call_name(c) == f"self.{meth}")
            falsy = truth_edges(g, lambda e: self_attr(e, attr), False)
            sites = list(calls)
            if meth == "writeExtended":     # the loop over the swapped-out entries is the re-write site (it may be empty)
                sites = [n for n in g.ids(lambda n: n.kind == "for") if any(edge_path(g, [n], [c], strict=True) for c in calls)]
            w = edge_path(g, [g.entry], [g.exit], avoid_nodes=sites, avoid_edges=falsy)
            ctx.check(bool(calls) and w is None, "flush/rewrites-buffer", q + f" | {attr}",
                      f"addWindowBytes can return with data still in self.{attr} without having tried to re-write it", witness=g.describe(w))
            resets = stmts(g, lambda st: isinstance(st, ast.Assign) and any(self_attr(t, attr) and v is not None and is_empty_const(v) for t, v in assigned_pairs(st)))
            for cn in calls:
                c = calls_at(g, cn, lambda c: call_name(c) == f"self.{meth}")[0]
                arg = c.args[-1] if c.args else None
                cc = ctx.construct(q, c)
                holder = None
                start = cn
                if meth == "write":
                    holder = arg.id if isinstance(arg, ast.Name) else None
                else:
                    # for t, d in <holder>: self.writeExtended(t, d)
                    fors = [n for n in g.ids(lambda n: n.kind == "for") if edge_path(g, [n], [cn], strict=True)]
                    if fors and isinstance(g.node(fors[0]).ast.iter, ast.Name):
                        fr = g.node(fors[0]).ast
                        holder = fr.iter.id
                        start = fors[0]
                        tg = [src(e) for e in fr.target.elts] if isinstance(fr.target, (ast.Tuple, ast.List)) else []
                        ctx.check(tg == [src(a) for a in c.args], "flush/in-order", cc, "buffered (type, data) pairs are re-written with swapped or different fields")
                        # while entries are still held in the local, nothing called from the loop may send the CLOSE: loseConnection only
                        # looks at self.buf / self.extBuf, which were emptied by the swap
                        cm_ = methods(ctx.cls(CH, "SSHChannel"))
                        seen, todo = set(), [meth]
                        while todo:
                            x = todo.pop()
                            if x in seen or x not in cm_:
                                continue
                            seen.add(x)
                            todo += [call_name(k)[5:] for k in ast.walk(cm_[x]) if isinstance(k, ast.Call) and (call_name(k) or "").startswith("self.") and (call_name(k) or "").count(".") == 1]
                        closers = sorted(x for x in seen if any(isinstance(k, ast.Call) and call_attr(k) == "sendClose" for k in ast.walk(cm_[x])))
                        masked = stmts(g, lambda st: isinstance(st, ast.Assign) and any(self_attr(t, "closing") for t, v in assigned_pairs(st)))
                        ctx.check(not closers or bool(masked), "close/waits-for-swapped-out-entries", q + " | <re-write loop over the swapped-out entries>",
                                  f"self.{attr} is swapped out into a local and re-written entry by entry; {meth}() re-checks `closing` after each entry and reaches "
                                  f"{', '.join(closers)}() -> sendClose, whose guard sees only self.buf / self.{attr} (both empty during the loop): with a close pending, "
                                  "CLOSE is sent after the first entry and the remaining entries are never delivered")
                    elif fors:
                        it_ = g.node(fors[0]).ast.iter
                        need(ctx, isinstance(it_, ast.Call) and dotted(it_.func) in ("reversed", "sorted", "set"), f"addWindowBytes: loop over {src(it_)}")
                        ctx.check(False, "flush/in-order", cc, f"the buffered entries are iterated as {src(it_)}, not in their queue order")
                        continue
                if holder is None:
                    ctx.check(False, "flush/swap-before-rewrite", cc,
                              f"self.{attr} is re-written while it is still installed: {meth}() sees a non-empty buffer and appends the data to itself")
                    continue
                defs = reaching_defs(g, holder, start)
                ok = bool(defs) and all(any(isinstance(t, ast.Name) and t.id == holder and v is not None and self_attr(v, attr)
                                            for t, v in assigned_pairs(g.node(d).ast)) for d in defs)
                ctx.check(ok, "flush/swap-before-rewrite", cc + " | source", f"what is re-written is not the content of self.{attr}")
                for d in defs:
                    w = edge_path(g, [d], [start], avoid_nodes=resets, strict=True)
                    ctx.check(bool(resets) and w is None, "flush/swap-before-rewrite", cc,
                              f"self.{attr} is not emptied between taking its content and re-writing it: {meth}() finds the buffer non-empty and "
                              "appends the data to it again (duplicated, never sent)", witness=g.describe(w))
                    w = edge_path(g, resets, [d], strict=True)
                    ctx.check(w is None, "flush/swap-before-rewrite", cc + " | order", f"self.{attr} is emptied before its content is taken", witness=g.describe(w))

    with abstain(ctx0, 's/loseConnection', SENDER):
        f = VCH(ctx.func(CH, "SSHChannel.loseConnection"))
        g = ctx.cfg(f)
        q = QC + "loseConnection"
        closes = call_nodes(g, lambda c: call_name(c) == "self.conn.sendClose")
        ctx.check(bool(closes), "close/sent-from-loseConnection", q, "loseConnection never sends the close")
        marks = stmts(g, lambda st: isinstance(st, ast.Assign) and any(self_attr(t, "closing") and isinstance(v, ast.Constant) and bool(v.value) for t, v in assigned_pairs(st)))
        w = edge_path(g, [g.entry], [g.exit], avoid_nodes=marks)
        ctx.check(bool(marks) and w is None, "close/recorded", q, "loseConnection can return without recording `closing`: the close is forgotten when data is buffered",
                  witness=g.describe(w))
        for c in closes:
            for attr in ("buf", "extBuf"):
                e = truth_edges(g, lambda e, attr=attr: self_attr(e, attr), False)
                ctx.check(bool(e) and guarded_by_edges(g, c, e), "close/only-when-flushed", ctx.construct(q, g.node(c).ast) + f" | {attr}",
                          f"CLOSE can be sent while self.{attr} still holds data: the buffered bytes are never delivered")
            w = g.must_precede(marks, [c], exc=False)
            ctx.check(w is None, "close/recorded", ctx.construct(q, g.node(c).ast), "close sent before `closing` is recorded", witness=g.describe(w))
        cls = ctx.cls(CH, "SSHChannel")
        n_close = 0
        for name, fn in methods(cls).items():
            for c in ast.walk(fn):
                if isinstance(c, ast.Call) and call_attr(c) == "sendClose":
                    n_close += 1
                    ctx.check(name == "loseConnection", "close/sent-from-loseConnection", ctx.construct(QC + name, c),
                              "CLOSE is sent from a place that does not check the buffers")
        ctx.floor("close/sent-from-loseConnection", n_close, 1)
    with abstain(ctx0, 's/closing-writers', SENDER):
        cls = ctx.cls(CH, "SSHChannel")
        views_ = {name: VCH(fn) for name, fn in methods(cls).items()}
        for name, fn in views_.items():
            if name in _NCH.expanded_cms and name.startswith("_") and not any(
                    isinstance(c, ast.Call) and call_name(c) == f"self.{name}" and not isinstance(getattr(c, "_parent", None), ast.withitem)
                    for f2 in methods(cls).values() for c in ast.walk(f2)):
                continue        # a private context manager used only in `with` statements: read at those sites (expanded in the views)
            for st in statements(fn):
                if isinstance(st, (ast.Assign, ast.AugAssign)) and any(self_attr(t, "closing") for t in (st.targets if isinstance(st, ast.Assign) else [st.target])):
                    if name in ("__init__", "loseConnection"):
                        ctx.ok("close/recorded", ctx.construct(QC + name, st) + " | writer")
                        continue
                    # elsewhere only a save / mask / restore bracket is admissible: the request to close may be hidden while a drained buffer is
                    # held in a local, but the saved value must be put back on every path (also when an exception escapes) and the close re-tried
                    gw = ctx.cfg(fn)
                    saved = {t.id for x in statements(fn) if isinstance(x, ast.Assign) for t, v in assigned_pairs(x) if isinstance(t, ast.Name) and v is not None and self_attr(v, "closing")}
                    saved = {n_ for n_ in saved if len(def_nodes(gw, n_)) == 1}
                    restores = stmts(gw, lambda x: isinstance(x, ast.Assign) and any(self_attr(t, "closing") and isinstance(v, ast.Name) and v.id in saved for t, v in assigned_pairs(x)))
                    here = gw.ids_of(st)
                    if here and here[0] in restores:
                        retry = call_nodes(gw, lambda c: call_name(c) == "self.loseConnection")
                        keep = [e for n_ in saved for e in truth_edges(gw, lambda e, n_=n_: isinstance(e, ast.Name) and e.id == n_, False)]
                        w = edge_path(gw, here, [gw.exit], avoid_nodes=retry, avoid_edges=keep, strict=True)
                        ctx.check(bool(retry) and w is None, "close/recorded", ctx.construct(QC + name, st) + " | writer",
                                  f"{name} puts the saved `closing` back but does not re-try loseConnection() when it was set: the close is never sent", witness=gw.describe(w))
                        continue
                    w = edge_path(gw, here, [gw.exit, gw.raise_exit], avoid_nodes=restores, exc=True, strict=True) if here else None
                    defs_first = all(gw.must_precede(def_nodes(gw, n_), here, exc=False) is None for n_ in saved) if here else False
                    ctx.check(bool(saved) and bool(restores) and bool(here) and w is None and defs_first, "close/recorded", ctx.construct(QC + name, st) + " | writer",
                              f"`closing` is overwritten in {name} and not put back from a saved copy on every path (also when an exception escapes): a requested close "
                              "is forgotten", witness=gw.describe(w))

    with abstain(ctx0, 's/writeSequence', SENDER):
        f = VCH(ctx.func(CH, "SSHChannel.writeSequence"))
        sp = f.args.args[1].arg
        cs = [c for c in ast.walk(f) if isinstance(c, ast.Call) and call_name(c) == "self.write"]
        ok = len(cs) == 1 and len(cs[0].args) == 1 and isinstance(cs[0].args[0], ast.Call) and call_attr(cs[0].args[0]) == "join" \
            and is_empty_const(cs[0].args[0].func.value) and [src(a) for a in cs[0].args[0].args] == [sp]
        loopok = any(isinstance(n, ast.For) and src(n.iter) == sp and any(isinstance(c, ast.Call) and call_name(c) == "self.write" and [src(a) for a in c.args] == [src(n.target)]
                                                                          for c in ast.walk(n)) for n in ast.walk(f))
        need(ctx, ok or loopok or not cs, "writeSequence: self.write(b''.join(data)) or a loop of self.write(piece)")
        ctx.check(ok or loopok, "writeSequence/through-write", QC + "writeSequence", "writeSequence does not pass exactly the concatenation of its pieces through write() (flow control bypassed)")

    with abstain(ctx0, 's/connection/receivers', RECEIVER):
        consts = {}
        cmod = ctx.mod(CO)
        for st in cmod.tree.body:
            if isinstance(st, ast.Assign) and len(st.targets) == 1 and isinstance(st.targets[0], ast.Name) and isinstance(st.value, ast.Constant):
                consts[st.targets[0].id] = st.value.value
        def _receiver(hname, cb):
            f = VCO(ctx.func(CO, f"SSHConnection.{hname}"))
            g = ctx.cfg(f)
            q = QN + hname
            al = local_aliases(f, allow=pure_expr)     # named temporaries such as `window = channel.localWindowLeft`
            pk = f.args.args[1].arg
            up = [st for st in statements(f) if isinstance(st, ast.Assign) and isinstance(st.value, ast.Call) and call_name(st.value) in ("struct.unpack", "unpack")
                  and isinstance(st.targets[0], (ast.Tuple, ast.List))]
            ctx.need(up, f"{hname}: struct.unpack of the header")
            ust = up[0]
            fmt = const_eval(ust.value.args[0], {})
            names = [src(e) for e in ust.targets[0].elts]
            order, codes = struct_fmt_norm(fmt)
            ctx.check(order == "big" and set(codes) == {"L"} and len(codes) == len(names), "receive/header-format", ctx.construct(q, ust),
                      f"header format {fmt!r} is not big-endian uint32 x {len(names)}")
            sp = _slice_parts(ust.value.args[1])
            ctx.check(sp is not None and src(sp[0]) == pk and sp[1] is None and sp[2] is not None and src(sp[2]) == str(struct.calcsize(fmt)),
                      "receive/header-format", ctx.construct(q, ust) + " | width", f"header slice does not cover calcsize({fmt!r}) = {struct.calcsize(fmt)} bytes")
            DL = names[-1]
            chv = [t.id for st in statements(f) if isinstance(st, ast.Assign) and src(st.value) == f"self.channels[{names[0]}]" for t in st.targets if isinstance(t, ast.Name)]
            ctx.need(chv, f"{hname}: channel = self.channels[{names[0]}]")
            ch = chv[0]
            deliv = call_nodes(g, lambda c: call_name(c) == f"{ch}.{cb}")
            ctx.need(deliv, f"{hname}: {ch}.{cb}(...)")
            decs = _win_decrements(g, al, ch, "localWindowLeft")
            dn = [n for n, a in decs]
            win_ok = _cmp_edges(g, al, {f"{ch}.localWindowLeft": 1, DL: -1}, 0)
            max_ok = _cmp_edges(g, al, {f"{ch}.localMaxPacket": 1, DL: -1}, 0)
            for site in deliv + dn:
                c = ctx.construct(q, g.node(site).ast)
                ctx.check(bool(win_ok) and guarded_by_edges(g, site, win_ok), "receive/window-boundary", c,
                          f"not guarded by exactly '{DL} <= {ch}.localWindowLeft': a peer that fills the advertised window exactly is refused, or one that "
                          "overruns it is accepted")
                ctx.check(bool(max_ok) and guarded_by_edges(g, site, max_ok), "receive/max-packet-boundary", c,
                          f"not guarded by exactly '{DL} <= {ch}.localMaxPacket'")
            refuse = [d for t, lab in win_ok + max_ok for d in succ_on(g, t, _other(lab))]
            sc = call_nodes(g, lambda c: call_name(c) == "self.sendClose" and [src(a) for a in c.args] == [ch])
            w = edge_path(g, refuse, [g.exit], avoid_nodes=sc)
            ctx.check(bool(sc) and w is None, "receive/overrun-closes", q, "a peer overrunning the window is not answered with a close", witness=g.describe(w))
            for n, a in decs:
                ctx.check(a is not None and src(a) == DL, "receive/window-decrement", ctx.construct(q, g.node(n).ast),
                          f"the local window is reduced by {src(a) if a is not None else '?'}, not by the received length {DL}")
                w = edge_path(g, [n], dn, strict=True)
                ctx.check(w is None, "receive/window-decrement", ctx.construct(q, g.node(n).ast) + " | once", "window reduced twice for one message", witness=g.describe(w))
            for d in deliv:
                w = edge_path(g, [g.entry], [d], avoid_nodes=dn)
                ctx.check(bool(dn) and w is None, "receive/window-decrement", ctx.construct(q, g.node(d).ast),
                          "data is delivered without reducing localWindowLeft: we keep accepting beyond what we advertised and never replenish",
                          witness=g.describe(w))
            # replenish
            adj = call_nodes(g, lambda c: call_name(c) == "self.adjustWindow")
            ctx.check(bool(adj), "receive/replenish", q, "the advertised window is never replenished: a peer that respects it stalls and then is refused")
            for a in adj:
                c = calls_at(g, a, lambda c: call_name(c) == "self.adjustWindow")[0]
                okc = len(c.args) == 2 and src(c.args[0]) == ch and lin(c.args[1], al) == (frozenset({(f"{ch}.localWindowSize", 1), (f"{ch}.localWindowLeft", -1)}), 0)
                ctx.check(okc, "receive/replenish", ctx.construct(q, c),
                          f"the window is not topped up to localWindowSize (amount must be {ch}.localWindowSize - {ch}.localWindowLeft)")
                w = g.must_precede(dn, [a], exc=False)
                ctx.check(w is None, "receive/replenish", ctx.construct(q, c) + " | after decrement",
                          "the top-up is computed before the received length is charged", witness=g.describe(w))
                lowt = tests(g, lambda e: f"{ch}.localWindowLeft" in src(e) and f"{ch}.localWindowSize" in src(e))
                ctx.check(bool(lowt) and guarded_by_edges(g, a, [(t, "T") for t in lowt] + [(t, "F") for t in lowt]), "receive/replenish", ctx.construct(q, c) + " | trigger",
                          "adjustWindow is not triggered by a comparison of localWindowLeft with localWindowSize")
            lowt = tests(g, lambda e: f"{ch}.localWindowLeft" in src(e) and f"{ch}.localWindowSize" in src(e))
            w = edge_path(g, dn, [g.exit], avoid_nodes=lowt)
            ctx.check(bool(lowt) and w is None, "receive/replenish", q + " | checked after every message",
                      "after charging the window the handler can return without checking whether it must be replenished", witness=g.describe(w))
            # exact guard set: after the window was charged only the threshold test may decide against the top-up
            for t in g.ids(lambda n: n.kind == "test"):
                if t in lowt or not adj or not any(edge_path(g, [d_], [t], strict=True) for d_ in dn):
                    continue
                for lab in ("T", "F"):
                    if edge_path(g, succ_on(g, t, lab), [g.exit], avoid_nodes=adj) is not None and edge_path(g, [t], adj) is not None:
                        ctx.check(False, "receive/replenish-only-threshold-suppresses", ctx.construct(q, g.node(t).ast),
                                  f"whether the window is topped up also depends on `{src(g.node(t).ast)}`: while that condition holds a peer respecting the "
                                  "advertised window runs it down to zero and is then stalled / refused (only the low-water test may skip the top-up)")
                        break
            ctx.ok("receive/replenish-only-threshold-suppresses", q)
            # payload offset: the length prefix of the NS is the last header field
            inners = [c for c in ast.walk(f) if isinstance(c, ast.Call) and call_attr(c) == "getNS"]
            if not inners:
                # the string body cut out directly: its length prefix was unpacked with the header, so the body is packet[hdr : hdr + length]
                hdr_ = struct.calcsize(fmt)
                cuts = [(st, _slice_parts(st.value)) for st in statements(f) if isinstance(st, ast.Assign) and _slice_parts(st.value) and src(_slice_parts(st.value)[0]) == pk
                        and st is not ust]
                ctx.need(len(cuts) == 1 and cuts[0][1][1] is not None and cuts[0][1][2] is not None, f"{hname}: data = common.getNS(packet[off:])[0] or data = packet[hdr : hdr + length]")
                cst, csp = cuts[0]
                ctx.check(lin(csp[1], al) == (frozenset(), hdr_) and lin(csp[2], al) == (frozenset({(DL, 1)}), hdr_), "receive/payload-offset", ctx.construct(q, cst),
                          f"the data string is cut as {pk}[{csrc(csp[1], al)}:{csrc(csp[2], al)}]; it is the {DL} bytes following the {hdr_}-byte header")
                dvc = [src(t) for t in cst.targets]
                for d in deliv:
                    c = calls_at(g, d, lambda c: call_name(c) == f"{ch}.{cb}")[0]
                    ctx.check(src(c.args[-1]) in dvc, "receive/payload-offset", ctx.construct(q, c), "what is delivered is not the decoded data string")
                return
            ctx.need(len(inners) == 1, f"{hname}: one common.getNS(packet[off:]) call")
            inner = inners[0]
            gn = [st for st in statements(f) if isinstance(st, ast.Assign) and any(c is inner for c in ast.walk(st.value))]
            inline = isinstance(getattr(inner, "_parent", None), ast.Subscript) and src(inner._parent.slice) == "0" and not gn
            ctx.need(gn or inline, f"{hname}: data = common.getNS(packet[off:])[0] (or the same expression handed on directly)")
            sp = _slice_parts(inner.args[0])
            off = struct.calcsize(fmt) - 4
            ctx.check(sp is not None and src(sp[0]) == pk and sp[2] is None and sp[1] is not None and src(sp[1]) == str(off), "receive/payload-offset", ctx.construct(q, gn[0] if gn else inner),
                      f"the data string is read from offset {src(sp[1]) if sp and sp[1] is not None else '?'}; its length prefix ({DL}) is at offset {off}")
            gv = gn[0].value if gn else None
            if inline:
                dv = [src(inner._parent)]
            elif isinstance(gv, ast.Subscript) and gv.value is inner and src(gv.slice) == "0":
                dv = [src(t) for t in gn[0].targets]
            elif gv is inner and len(gn[0].targets) == 1 and isinstance(gn[0].targets[0], (ast.Tuple, ast.List)) and gn[0].targets[0].elts:
                dv = [src(gn[0].targets[0].elts[0])]
            else:
                need(ctx, False, f"{hname}: data = getNS(...)[0] or data, rest = getNS(...)")
            for d in deliv:
                c = calls_at(g, d, lambda c: call_name(c) == f"{ch}.{cb}")[0]
                ctx.check(src(c.args[-1]) in dv, "receive/payload-offset", ctx.construct(q, c), "what is delivered is not the decoded data string")

        for hname, cb in (("ssh_CHANNEL_DATA", "dataReceived"), ("ssh_CHANNEL_EXTENDED_DATA", "extReceived")):
            with abstain(ctx0, f's/receiver/{hname}', RECEIVER):
                _receiver(hname, cb)
        _ok_cn = True
    with abstain(ctx0, 's/adjustWindow', RECEIVER):
        f = VCO(ctx.func(CO, "SSHConnection.adjustWindow"))
        g = ctx.cfg(f)
        q = QN + "adjustWindow"
        chp, np_ = f.args.args[1].arg, f.args.args[2].arg
        sp = call_nodes(g, lambda c: call_name(c) == "self.transport.sendPacket")
        ctx.need(sp, "adjustWindow: sendPacket")
        # exact guard set: the only condition that may suppress the WINDOW_ADJUST is "we already sent CLOSE" (localClosed)
        n_guard = 0
        for t in g.ids(lambda n: n.kind == "test"):
            others = [x for x in g.ids(lambda n: n.kind == "test") if x != t]      # blame the test that decides, not the ones before it
            suppress = [lab for lab in ("T", "F") if edge_path(g, succ_on(g, t, lab), [g.exit], avoid_nodes=sp + others) is not None]
            if not suppress or edge_path(g, [t], sp) is None:
                continue
            n_guard += 1
            tr = truthiness(g.node(t).ast, lambda e: is_attr(e, chp, "localClosed"))
            ok = tr is not None and suppress == ["T" if tr else "F"]
            ctx.check(ok, "adjust/only-closed-suppresses", ctx.construct(q, g.node(t).ast),
                      f"the window top-up is also suppressed by `{src(g.node(t).ast)}`: only a channel whose CLOSE was already sent (localClosed) may stop "
                      "replenishing - e.g. while `closing` waits for buffered data the peer would run the window down to zero and the close never completes")
        ctx.floor("adjust/only-closed-suppresses", n_guard, 1, "suppressing tests in adjustWindow")
        adds = []
        for n in stmts(g, lambda st: isinstance(st, (ast.AugAssign, ast.Assign))):
            st = g.node(n).ast
            if isinstance(st, ast.AugAssign) and is_attr(st.target, chp, "localWindowLeft"):
                adds.append((n, isinstance(st.op, ast.Add) and src(st.value) == np_))
            elif isinstance(st, ast.Assign):
                for t, v in assigned_pairs(st):
                    if is_attr(t, chp, "localWindowLeft"):
                        adds.append((n, v is not None and lin(v) == (frozenset({(f"{chp}.localWindowLeft", 1), (np_, 1)}), 0)))
        an = [n for n, ok in adds]
        for n, ok in adds:
            ctx.check(ok, "adjust/local-equals-advertised", ctx.construct(q, g.node(n).ast), f"localWindowLeft is not increased by exactly {np_}")
            w = g.must_precede(sp, [n], exc=False)
            ctx.check(w is None, "adjust/local-equals-advertised", ctx.construct(q, g.node(n).ast) + " | only if advertised",
                      "the local window grows although nothing was advertised to the peer", witness=g.describe(w))
            w = edge_path(g, [n], an, strict=True)
            ctx.check(w is None, "adjust/local-equals-advertised", ctx.construct(q, g.node(n).ast) + " | once", "added twice")
        for s in sp:
            w = edge_path(g, [s], [g.exit], avoid_nodes=an, strict=True)
            ctx.check(bool(an) and w is None, "adjust/local-equals-advertised", q,
                      "WINDOW_ADJUST is sent but localWindowLeft is not increased: a peer using the grant is refused as overrunning", witness=g.describe(w))
        packs = [c for c in ast.walk(f) if isinstance(c, ast.Call) and call_name(c) in ("struct.pack", "pack")]
        ctx.check(len(packs) == 1 and len(packs[0].args) == 3 and src(packs[0].args[2]) == np_ and struct_fmt_norm(const_eval(packs[0].args[0], {})) == ("big", "LL"),
                  "adjust/local-equals-advertised", q + " | advertised amount", f"the amount put on the wire is not {np_} as a big-endian uint32")

    with abstain(ctx0, 's/send-methods', SENDER):
        ctx.need(_ok_cn, 'anchors of send-methods (section skipped)')
        table = {"sendData": "MSG_CHANNEL_DATA", "sendExtendedData": "MSG_CHANNEL_EXTENDED_DATA", "sendEOF": "MSG_CHANNEL_EOF", "sendClose": "MSG_CHANNEL_CLOSE",
                 "adjustWindow": "MSG_CHANNEL_WINDOW_ADJUST", "sendRequest": "MSG_CHANNEL_REQUEST"}
        ccls = ctx.cls(CO, "SSHConnection")
        cm = methods(ccls)
        vals = {}
        def _send_method(m, msg):
            f = VCO(ctx.func(CO, f"SSHConnection.{m}"))
            g = ctx.cfg(f)
            q = QN + m
            chp = f.args.args[1].arg
            sp = call_nodes(g, lambda c: call_name(c) == "self.transport.sendPacket")
            ctx.need(sp, f"{m}: sendPacket")
            closed = truth_edges(g, lambda e: is_attr(e, chp, "localClosed"), False)
            for s in sp:
                c = calls_at(g, s, lambda c: call_name(c) == "self.transport.sendPacket")[0]
                ctx.check(bool(closed) and guarded_by_edges(g, s, closed), "send/nothing-after-close", ctx.construct(q, c),
                          f"{m} can put a message on a channel whose CLOSE was already sent")
                ctx.check(src(c.args[0]) == msg, "send/message-type", ctx.construct(q, c), f"{m} sends {src(c.args[0])}, expected {msg}")
            packs = [c for c in ast.walk(f) if isinstance(c, ast.Call) and call_name(c) in ("struct.pack", "pack")]
            ctx.need(len(packs) == 1 and len(packs[0].args) >= 2, f"{m}: one struct.pack(fmt, id, ...)")
            ral = local_aliases(f, allow=lambda v: pure_expr(v) or isinstance(v, ast.Subscript))
            ctx.check(csrc(packs[0].args[1], ral) == f"self.channelsToRemoteChannel[{chp}]", "send/remote-channel-id", q,
                      f"{m} does not address the message with the peer's id of the channel (self.channelsToRemoteChannel[{chp}])")
            h = "ssh_" + msg[4:]
            ctx.check(h in cm, "send/message-type", q + f" | {h}", f"no handler {h} for {msg}")
            vals[msg] = consts.get(msg)
        for m, msg in table.items():
            with abstain(ctx0, f's/send-methods/{m}', SENDER):
                _send_method(m, msg)
        ctx.check(None not in vals.values() and len(set(vals.values())) == len(vals), "send/message-type", "twisted.conch.ssh.connection | MSG_CHANNEL_*",
                  f"channel message numbers are not pairwise distinct: {vals}")
        _ok_sm = True
    with abstain(ctx0, 's/send-methods/whole-piece', SENDER):
        ctx.need(_ok_sm, 'anchors of send-methods (section skipped)')
        for m, idx in (("sendData", 2), ("sendExtendedData", 3)):
            f = VCO(cm[m])
            dpar = f.args.args[idx].arg
            ns = [c for c in ast.walk(f) if isinstance(c, ast.Call) and call_attr(c) == "NS"]
            ctx.check(len(ns) == 1 and [src(a) for a in ns[0].args] == [dpar], "send/whole-piece", QN + m, f"{m} does not send NS({dpar}) (the complete piece it was given)")
    with abstain(ctx0, 's/sendClose-marks-closed', SENDER):
        ctx.need(_ok_sm, 'anchors of sendClose-marks-closed (section skipped)')
        f = VCO(cm["sendClose"])
        g = ctx.cfg(f)
        chp = f.args.args[1].arg
        sp = call_nodes(g, lambda c: call_name(c) == "self.transport.sendPacket")
        mark = stmts(g, lambda st: isinstance(st, ast.Assign) and any(is_attr(t, chp, "localClosed") and isinstance(v, ast.Constant) and bool(v.value) for t, v in assigned_pairs(st)))
        w = edge_path(g, sp, [g.exit], avoid_nodes=mark, strict=True)
        ctx.check(bool(mark) and w is None, "send/nothing-after-close", QN + "sendClose | marks closed", "CLOSE is sent but localClosed is not set: data can follow the close",
                  witness=g.describe(w))
    with abstain(ctx0, 's/ssh_CHANNEL_WINDOW_ADJUST', RECEIVER):
        f = VCO(ctx.func(CO, "SSHConnection.ssh_CHANNEL_WINDOW_ADJUST"))
        up = [st for st in statements(f) if isinstance(st, ast.Assign) and isinstance(st.value, ast.Call) and call_name(st.value) == "struct.unpack"]
        ctx.need(up and isinstance(up[0].targets[0], ast.Tuple), "ssh_CHANNEL_WINDOW_ADJUST: unpack")
        nm = [src(e) for e in up[0].targets[0].elts]
        cs = [c for c in ast.walk(f) if isinstance(c, ast.Call) and call_attr(c) == "addWindowBytes"]
        ctx.check(len(cs) == 1 and [src(a) for a in cs[0].args] == [nm[-1]] and struct_fmt_norm(const_eval(up[0].value.args[0], {})) == ("big", "LL"),
                  "window/credit", QN + "ssh_CHANNEL_WINDOW_ADJUST", "the channel is not credited with the second uint32 of the WINDOW_ADJUST message")


