"""C06 - DeferredLock and DeferredSemaphore are safe, fair and lose no capacity."""
from __future__ import annotations

import ast

from sa.astx import call_name, dotted, lincmp, src, walk_local
from sa.effects import class_accesses
from sa.selftest import Mutant, Silent
from sa.source import AnalysisError, methods, mro_lookup
from sa.props._lib_b import (BIG, Interp, Spec, Unsupported, a_add, exit_check as _exit_check, fifo_rule, fmt_int, iv, make_state,
                              per_instance_state, report_interp as _report)

PROPERTY = "C06"
DEFER = "internet/defer.py"
MODNAME = "twisted.internet.defer"
TECHNIQUE = "abstract interpretation over the complete abstract state space + CFG / who-may-write rules"
RULE_KINDS = {
    # inductive class invariant and per-method post-conditions: abstract interpreter started from EVERY abstract state satisfying the
    # invariant (the enumeration in LockSpec/SemSpec.states() is the whole finite abstract domain), sound transfer functions
    "invariant/": "finite-exhaustive", "fire/": "finite-exhaustive", "container/": "finite-exhaustive", "type-error": "finite-exhaustive",
    "acquire/": "finite-exhaustive", "release/": "finite-exhaustive", "cancel/": "finite-exhaustive",
    # shape of the code: operation kinds, CFG must-pass / dominance, registration chains
    "queue/": "structural", "init/": "structural", "run/": "structural", "aexit/": "structural", "aenter/": "structural",
}
EXPLANATION = (
    "Clause 'holders never exceed the limit / no capacity lost / granted as soon as free' - finite-exhaustive: an abstract "
    "interpreter (container lengths 0,1,2,>=3; integers exact up to 2 and '>=3'; tracked Deferred records; ghost holder count h) "
    "executes acquire / release / the canceller / any other mutator from EVERY abstract state satisfying the class invariant "
    "[Lock: (locked <=> h=1) and (waiting non-empty => locked); Semaphore: tokens+h=limit, tokens>=0, waiting non-empty => "
    "tokens=0] and proves it at every exit and at every opaque call-out (firing a Deferred user code may have callbacks on), "
    "after which the state is havocked because callbacks may re-enter; the enumeration covers the whole abstract domain and "
    "every transfer function over-approximates, so this is an inductive proof over all histories.  Same decider: every "
    "acquisition queued xor granted, only detached Deferreds are fired, asserts hold for legitimate callers, the canceller "
    "removes exactly the cancelled Deferred (clause 'cancelled acquisition never granted').  Clause 'request order' - structural: "
    "operation kinds on `waiting` (fill at one end, consume at the other, remove only in the canceller).  Clause 'per-object "
    "state / limit>=1' - structural: CFG must-pass of the initialisers along the MRO.  Clause 'run() releases exactly once, after "
    "the result is available' - structural: registration chains (addCallback on acquire(), maybeDeferred, addBoth of the "
    "releaser on the function's result, chain returned) and CFG exactly-once of release() in the releaser and __aexit__.  "
    "Not decided: behaviour of user functions passed to run(), Deferred's own callback machinery (C01-C03)."
)
ASSUMPTIONS = [
    "release() is called only by current holders (the property's quantifier); the ghost holder count is decremented at its entry",
    "a Deferred created inside the analysed method has no callbacks until the first call-out or the return",
    "user code re-enters only at call-outs; after one the object may be in any state satisfying the invariant",
]


def _truthy(v):
    if v[0] == "bool":
        return v[1]
    if v[0] == "int":
        return v[1] != 0
    return None


class LockSpec(Spec):
    list_elems = {"waiting": "dfr"}

    def states(self):
        out = [({"locked": ("bool", False), "waiting": ("list", 0)}, {"h": 0})]
        for w in range(0, BIG + 1):
            out.append(({"locked": ("bool", True), "waiting": ("list", w)}, {"h": 1}))
        return out

    def invariant(self, st):
        locked = _truthy(st.fields["locked"])
        if locked is None:
            return f"self.locked holds a non-boolean ({st.fields['locked'][0]})"
        h = st.ghost["h"]
        w = st.fields["waiting"][1]
        if h > 1:
            return f"{fmt_int(h)} holders of a lock"
        if locked and h == 0:
            return "locked is True but nobody holds the lock (capacity lost: later acquisitions wait for ever)"
        if not locked and h == 1:
            return "locked is False while a holder exists (a second acquisition would be granted)"
        if w > 0 and not locked:
            return "acquisitions are waiting although the lock is free (not granted as soon as capacity is free)"
        return None

    def on_fire(self, st, rec, how, arg, node):
        if how != "callback":
            raise Unsupported("C06: a pending acquisition is errbacked")
        st.ghost["h"] = min(BIG, st.ghost["h"] + 1)


class SemSpec(Spec):
    list_elems = {"waiting": "dfr"}

    def states(self):
        out = []
        for t in range(0, BIG + 1):
            for h in range(0, BIG + 1):
                if t == 0 and h == 0:
                    continue  # limit >= 1
                for w in range(0, BIG + 1):
                    if w > 0 and t != 0:
                        continue
                    out.append(({"tokens": ("int", t), "limit": ("sym", "self.limit"), "waiting": ("list", w)},
                                {"h": h, "delta": 0}))
        return out

    def invariant(self, st):
        t = st.fields["tokens"]
        if st.fields["limit"] != ("sym", "self.limit"):
            return "self.limit was modified"
        if t[0] != "int":
            return f"self.tokens holds a {t[0]}"
        d = st.ghost["delta"]
        if d is None:
            return "tokens was overwritten with a value not derived from tokens +/- k (capacity accounting lost)"
        if d != 0:
            return (f"tokens + holders = limit {'+' if d > 0 else '-'} {abs(d)} "
                    + ("(more holders than the limit allows)" if d > 0 else "(capacity lost)"))
        if t[1] < 0:
            return "tokens is negative (more holders than the limit)"
        if st.fields["waiting"][1] > 0 and t[1] != 0:
            return "acquisitions are waiting although tokens are available (not granted as soon as capacity is free)"
        return None

    def on_fire(self, st, rec, how, arg, node):
        if how != "callback":
            raise Unsupported("C06: a pending acquisition is errbacked")
        st.ghost["h"] = min(BIG, st.ghost["h"] + 1)
        if st.ghost["delta"] is not None:
            st.ghost["delta"] += 1

    def on_write(self, st, attr, old, new, delta):
        if attr == "tokens":
            if delta is None or st.ghost["delta"] is None:
                st.ghost["delta"] = None
            else:
                st.ghost["delta"] += delta

    def compare(self, st, test):
        nf = lincmp(test)
        if nf is None:
            return None
        terms, c = dict(nf[0]), nf[1]
        if set(terms) != {"self.tokens", "self.limit"} or terms["self.tokens"] != -terms["self.limit"] or abs(terms["self.tokens"]) != 1:
            return None
        d = st.ghost["delta"]
        if d is None:
            return None
        # tokens - limit = delta - h
        hlo, hhi = iv(st.ghost["h"])
        lo, hi = d - hhi, d - hlo
        if terms["self.tokens"] == -1:  # limit - tokens >= c
            lo, hi = -hi, -lo
        if lo >= c:
            return True
        if hi < c:
            return False
        return None


def _dec_pre(states):
    """release() is called by a holder: keep the states with h >= 1 and take that holder away."""
    out = []
    for fields, ghost in states:
        if ghost["h"] < 1:
            continue
        for h in [k for k in a_add(ghost["h"], -1) if k >= 0]:
            g = dict(ghost)
            g["h"] = h
            if "delta" in g:
                g["delta"] -= 1
            out.append((fields, g, f"a holder of [{make_state(fields, ghost).pre}] calls release()"))
    return out


def _analyse_primitive(ctx, mod, clsname, spec):
    cls = ctx.cls(DEFER, clsname)
    interp = Interp(mod, cls, spec, MODNAME)
    q = f"{MODNAME}.{clsname}"
    ms = methods(cls)

    def lookup(name):
        r = mro_lookup(mod, cls, name)
        if not r or not isinstance(r[1], (ast.FunctionDef, ast.AsyncFunctionDef)):
            raise AnalysisError(f"anchor vanished: {clsname}.{name}")
        ctx.functions.add(f"{DEFER}:{r[0].name}.{name}")
        return r

    # cancellers installed anywhere in the class hierarchy (found syntactically: an unreadable acquire() must not hide them)
    cancellers = set()
    for kls in [cls] + [b for b in (mod.find(dotted(x) or "") for x in cls.bases) if isinstance(b, ast.ClassDef)]:
        for c in ast.walk(kls):
            if isinstance(c, ast.Call) and (dotted(c.func) or "").split(".")[-1] == "Deferred":
                ce = next((k.value for k in c.keywords if k.arg == "canceller"), c.args[0] if c.args else None)
                if ce is not None and (dotted(ce) or "").startswith("self.") and mro_lookup(mod, cls, dotted(ce)[5:]):
                    cancellers.add(dotted(ce)[5:])
    qa = f"{MODNAME}.{clsname}.acquire"
    with ctx.section(f"{clsname}.acquire"):
        # ---- acquire --------------------------------------------------------------------------------
        owner, acq = lookup("acquire")
        finals = []
        for fields, ghost in spec.states():
            finals += interp.run(acq, make_state(fields, ghost), {}, owner)
        qa = f"{MODNAME}.{owner.name}.acquire"
        _exit_check(ctx, interp, spec, qa, finals)
        disp_bad = ret_bad = canc_bad = raise_bad = None
        for f in finals:
            if f.tainted:
                interp.uncertain.append(f"{qa}: path after an unmodelled call not judged")
                continue
            if f.exit[0] == "raise":
                raise_bad = raise_bad or f
                continue
            v = f.exit[1]
            if v[0] != "dfr" or f.dfrs[v[1]]["origin"] != ("fresh",):
                ret_bad = ret_bad or f
                continue
            rec = f.dfrs[v[1]]
            queued = rec["where"] == "waiting"
            granted = rec["fired"] is not None and rec["fired"][0] == "callback"
            if queued == granted:
                disp_bad = disp_bad or (f, queued)
            c = rec["canceller"]
            if queued:
                if c is None or c[0] != "meth":
                    canc_bad = canc_bad or f
                else:
                    cancellers.add(c[1])
        ctx.check(raise_bad is None, "acquire/never-raises", qa, "acquire() raises instead of returning a Deferred",
                  witness=f"abstract pre-state: {raise_bad.pre}" if raise_bad else "")
        ctx.check(ret_bad is None, "acquire/returns-own-deferred", qa, "acquire() does not return the Deferred it created",
                  witness=f"abstract pre-state: {ret_bad.pre}" if ret_bad else "")
        ctx.check(disp_bad is None, "acquire/queued-xor-granted", qa,
                  ("the acquisition is granted and also left in `waiting` (it will be granted twice)" if disp_bad and disp_bad[1]
                   else "the acquisition is neither granted nor queued: it is never granted"),
                  witness=f"abstract pre-state: {disp_bad[0].pre}" if disp_bad else "")
        ctx.check(canc_bad is None, "cancel/canceller-installed", qa,
                  "a queued acquisition has no canceller that removes it from `waiting`: once cancelled it stays queued, is later "
                  "'granted' and the capacity handed to it is lost",
                  witness=f"abstract pre-state: {canc_bad.pre}" if canc_bad else "")

    with ctx.section(f"{clsname}.release"):
        # ---- release --------------------------------------------------------------------------------
        owner, rel = lookup("release")
        qr = f"{MODNAME}.{owner.name}.release"
        finals = []
        for fields, ghost, pre in _dec_pre(spec.states()):
            st = make_state(fields, ghost)
            st.pre = pre
            finals += interp.run(rel, st, {}, owner)
        _exit_check(ctx, interp, spec, qr, finals)
        rb = next((f for f in finals if f.exit[0] == "raise"), None)
        ctx.check(rb is None, "release/never-raises", qr, "release() by a holder raises",
                  witness=f"abstract pre-state: {rb.pre}" if rb else "")

    # ---- canceller(s) ---------------------------------------------------------------------------
    for cname in sorted(cancellers):
        with ctx.section(f"{clsname}.{cname}"):
            owner, cf = lookup(cname)
            qc = f"{MODNAME}.{owner.name}.{cname}"
            params = [a.arg for a in cf.args.posonlyargs + cf.args.args][1:]
            ctx.need(len(params) == 1, f"{qc}: canceller takes exactly the Deferred")
            finals = []
            for fields, ghost in spec.states():
                if fields["waiting"][1] == 0:
                    continue
                st = make_state(fields, ghost)
                st.pre = f"a Deferred queued in [{st.pre}] is cancelled"
                d = st.new_dfr(origin=("member", "waiting"), where="waiting", pristine=False)
                finals += interp.run(cf, st, {params[0]: d}, owner)
            _exit_check(ctx, interp, spec, qc, finals)
            bad = None
            for f in finals:
                if f.exit[0] != "return":
                    continue
                rec = f.dfrs[1]
                if rec["where"] is not None or rec["origin"] != ("removed", "waiting"):
                    bad = bad or (f, "the cancelled Deferred stays in `waiting`: it will be 'granted' later and that capacity is lost")
                if rec["fired"] is not None:
                    bad = bad or (f, "the canceller fires the cancelled acquisition")
            ctx.check(bad is None, "cancel/removes-from-waiting", qc, bad[1] if bad else "",
                      witness=f"abstract pre-state: {bad[0].pre}" if bad else "")
    ctx.check(bool(cancellers), "cancel/canceller-installed", qa + " | <queued branch>",
              "no path of acquire() queues a Deferred with a canceller")

    with ctx.section(f"{clsname} other mutators"):
        # ---- every other mutator of the modelled fields ------------------------------------------------
        tracked = set(spec.states()[0][0])
        done = {"acquire", "release", "__init__"} | cancellers
        acc = class_accesses(mod, cls, tracked, receivers={"self"})
        # a private method that is called as self.<name>(...) somewhere in the class family (this class and its bases in the module)
        # runs mid-operation: it is analysed inlined at its call sites (hooks resolved per subclass through the MRO) and is not an
        # invariant boundary; only methods user code can enter are
        family = [cls] + [b for b in (mod.find(dotted(x) or "") for x in cls.bases) if isinstance(b, ast.ClassDef)]
        inlined = {call_name(c)[5:] for k_ in family for m_ in methods(k_).values() for c in ast.walk(m_)
                   if isinstance(c, ast.Call) and (call_name(c) or "").startswith("self.") and call_name(c).count(".") == 1}
        for name in sorted({a.func.split(".")[1] for a in acc} - done):
            if name.startswith("_") and name in inlined:
                continue  # private helper: analysed inlined at its call sites, it is not an entry point
            f = ms[name]
            finals = []
            params = [a.arg for a in f.args.posonlyargs + f.args.args][1:]
            for fields, ghost in spec.states():
                finals += interp.run(f, make_state(fields, ghost), {p: ("obj", p) for p in params}, cls)
            _exit_check(ctx, interp, spec, f"{q}.{name}", finals)
    _report(ctx, interp)

    # ---- K5: FIFO discipline of `waiting` by operation kind -----------------------------------------
    with ctx.section(f"{clsname} fifo"):
        fifo_rule(ctx, mod, cls, MODNAME, "waiting", cancellers)
    return cls


# ---------------------------------------------------------------------------------------------- run()
def _release_calls(g):
    return g.find(lambda x: isinstance(x, ast.Call) and call_name(x) == "self.release")


def _exactly_one_release(ctx, g, qual, rule):
    rs = _release_calls(g)
    wit = g.must_pass([g.entry], rs, exc=False)
    ctx.check(bool(rs) and wit is None, rule, qual, "a path returns without calling self.release(): the capacity is never given back",
              witness=g.describe(wit))
    twice = None
    for r in rs:
        p = g.path([r], rs, strict=True, edge_ok=lambda a, b, l: l != "exc")
        if p:
            twice = p
    ctx.check(twice is None, rule, qual + " | <second release>", "a path calls self.release() twice for one acquisition",
              witness=g.describe(twice))
    for r in rs:
        call = next(x for x in walk_local(g.node(r).ast) if isinstance(x, ast.Call) and call_name(x) == "self.release")
        ctx.check(not call.args and not call.keywords, rule, ctx.construct(qual, call), "release() called with arguments")


def _chain(e):
    """`root.m1(..).m2(..)` -> (root, [call m1, call m2])."""
    calls = []
    while isinstance(e, ast.Call) and isinstance(e.func, ast.Attribute) and e.func.attr in (
            "addCallback", "addErrback", "addBoth", "addCallbacks"):
        calls.append(e)
        e = e.func.value
    return e, list(reversed(calls))


def _resolve_local(func, e):
    """Follow `x = <expr>` for a Name assigned exactly once in func."""
    seen = 0
    while isinstance(e, ast.Name) and seen < 4:
        asg = [s for s in ast.walk(func) if (isinstance(s, ast.Assign) and any(isinstance(t, ast.Name) and t.id == e.id for t in s.targets))
               or (isinstance(s, ast.AnnAssign) and s.value is not None and isinstance(s.target, ast.Name) and s.target.id == e.id)]
        if len(asg) != 1:
            break
        e = asg[0].value
        seen += 1
    return e


def _wrapper_catches_all(ctx, mod, md, qe):
    """run() invokes the user's callable through a wrapper (by role: the function it hands `f` to).  The release is attached to
    the wrapper's RESULT, so every exception out of the user call-out must be turned into that result: the handler around the
    call of the wrapper's callable parameter must be catch-all (bare / BaseException - `except Exception` lets GeneratorExit,
    asyncio.CancelledError, KeyboardInterrupt ... escape before the releasing callback exists: capacity lost for ever)."""
    name = (dotted(md.func) or "").split(".")[-1]
    try:
        defs = [f for f in ctx.tree.funcs(DEFER, name) if not any((dotted(d) or "").endswith("overload") for d in f.decorator_list)]
    except AnalysisError:
        defs = []
    if len(defs) != 1:
        ctx.note(f"run/call-out-exceptions-reach-release: wrapper {name} not defined in this module, clause not decided")
        return
    w = defs[0]
    ctx.functions.add(f"{DEFER}:{name}")
    qw = f"{MODNAME}.{name}"
    params = [a.arg for a in w.args.posonlyargs + w.args.args]
    if not params:
        ctx.note(f"run/call-out-exceptions-reach-release: {name} takes no callable, clause not decided")
        return
    fp = params[0]
    g = ctx.cfg(w, exception_is_all=False)
    sites = g.find(lambda x: isinstance(x, ast.Call) and isinstance(x.func, ast.Name) and x.func.id == fp)
    if not sites:
        ctx.note(f"run/call-out-exceptions-reach-release: {name} does not call its first parameter directly, clause not decided")
        return
    for n in sites:
        call = next(x for x in walk_local(g.node(n).ast) if isinstance(x, ast.Call) and isinstance(x.func, ast.Name) and x.func.id == fp)
        excs = [d for d, l in g.succ[n] if l == "exc"]
        handlers = [d for d in excs if g.node(d).kind == "handler"]
        escapes = [d for d in excs if g.node(d).kind != "handler"]

        def catch_all(h):
            t = g.node(h).ast.type
            names = [] if t is None else [dotted(e) for e in (t.elts if isinstance(t, ast.Tuple) else [t])]
            return t is None or "BaseException" in names
        ok = bool(handlers) and not escapes and any(catch_all(h) for h in handlers)
        caught = ", ".join(sorted({src(g.node(h).ast.type) if g.node(h).ast.type is not None else "<bare>" for h in handlers})) or "nothing"
        ctx.check(ok, "run/call-out-exceptions-reach-release", ctx.construct(qw, call),
                  f"run() calls the user's function through {name}, which catches only `{caught}` around `{src(call)}`: an exception outside that "
                  "(GeneratorExit, asyncio.CancelledError, KeyboardInterrupt, any BaseException subclass) escapes before the releasing callback is "
                  "attached - the lock / token stays taken with no holder",
                  detail="exception edges of the call-out in the wrapper's CFG (Exception is not treated as catch-all)")
        for h in handlers:
            wit = g.path([h], [g.raise_exit], edge_ok=lambda a, b, l: l != "exc")
            ctx.check(wit is None, "run/call-out-exceptions-reach-release", ctx.construct(qw, call) + f" | <handler {src(g.node(h).ast.type) or 'bare'}>",
                      "a handler around the call-out re-raises instead of turning the failure into the wrapper's result: that exception escapes "
                      "before the releasing callback is attached", witness=g.describe(wit))


def _check_run(ctx, mod):
    cls = ctx.cls(DEFER, "_ConcurrencyPrimitive")
    q = f"{MODNAME}._ConcurrencyPrimitive"
    runs = [f for f in ctx.tree.funcs(DEFER, "_ConcurrencyPrimitive.run")
            if not any((dotted(d) or "").endswith("overload") for d in f.decorator_list)]
    ctx.need(len(runs) == 1, "the implementation of _ConcurrencyPrimitive.run")
    run = runs[0]
    ctx.functions.add(f"{DEFER}:_ConcurrencyPrimitive.run")
    qr = q + ".run"
    fparam = [a.arg for a in run.args.posonlyargs + run.args.args][1:2]
    ctx.need(fparam, "run(self, f, ...)")
    fname = fparam[0]
    va, kwa = run.args.vararg.arg if run.args.vararg else None, run.args.kwarg.arg if run.args.kwarg else None

    # (1) exactly one acquire(); the executor is registered on it with addCallback only; the chain is returned
    acqs = [c for c in ast.walk(run) if isinstance(c, ast.Call) and call_name(c) == "self.acquire"]
    ctx.check(len(acqs) == 1, "run/acquires-once", qr, f"run() calls self.acquire() {len(acqs)} times")
    regs = []  # (call, root)
    for c in ast.walk(run):
        if isinstance(c, ast.Call) and isinstance(c.func, ast.Attribute) and c.func.attr in ("addCallback", "addErrback", "addBoth", "addCallbacks"):
            root, _ = _chain(c)
            root = _resolve_local(run, root)
            root, _ = _chain(root)
            regs.append((c, root))
    on_acq = [(c, r) for c, r in regs if isinstance(r, ast.Call) and call_name(r) == "self.acquire"]
    executors = []
    exec_names = {}
    for c, r in on_acq:
        kind = c.func.attr
        target = c.args[0] if c.args else None
        fn = None
        if isinstance(target, ast.Name):
            fn = next((s for s in ast.walk(run) if isinstance(s, (ast.FunctionDef, ast.AsyncFunctionDef)) and s.name == target.id and s is not run), None)
        elif isinstance(target, ast.Lambda):
            fn = target
        names = None
        if fn is None and isinstance(target, ast.Attribute) and (dotted(target) or "").startswith("self.") and (dotted(target) or "").count(".") == 1:
            # a closure lifted to a bound method, run()'s values handed over as extra addCallback arguments: the same executor,
            # provided it is not itself a releasing callback; map the extra arguments to its parameters
            m = mro_lookup(mod, cls, target.attr)
            if m and isinstance(m[1], ast.FunctionDef) and not any(isinstance(x, ast.Call) and call_name(x) == "self.release" for x in ast.walk(m[1])) \
                    and any(isinstance(x, ast.Name) and x.id == "maybeDeferred" for x in ast.walk(m[1])):
                ps = [a.arg for a in m[1].args.posonlyargs + m[1].args.args][2:]          # after self and the callback result
                extra = list(c.args[1:])
                bound = {p_: src(a_) for p_, a_ in zip(ps, extra)}
                bound.update({k.arg: src(k.value) for k in c.keywords if k.arg})
                inv = {v: k for k, v in bound.items()}
                if kind in ("addCallback", "addBoth", "addErrback") and not any(isinstance(a_, ast.Starred) for a_ in extra):
                    fn = m[1]
                    names = (inv.get(fname), inv.get(va) if va else None, inv.get(kwa) if kwa else None)
                    ctx.functions.add(f"{DEFER}:_ConcurrencyPrimitive.{target.attr}")
        if fn is None:
            continue
        executors.append(fn)
        exec_names[id(fn)] = names or (fname, va, kwa)
        ok = kind == "addCallback" or (kind == "addCallbacks" and len(c.args) == 1 and not any(k.arg == "errback" for k in c.keywords))
        ctx.check(ok, "run/executes-only-when-acquired", ctx.construct(qr, c),
                  f"the function is registered with {kind}: a cancelled (failed) acquisition would still run it and release() "
                  "capacity it never held")
    for c, r in on_acq:
        tgt = dotted(c.args[0]) if c.args else None
        if tgt and tgt.startswith("self."):
            m = mro_lookup(mod, cls, tgt[5:])
            releases = bool(m) and isinstance(m[1], ast.FunctionDef) and any(
                isinstance(x, ast.Call) and call_name(x) == "self.release" for x in ast.walk(m[1]))
            ctx.check(not releases or c.func.attr == "addCallback", "run/release-only-when-acquired", ctx.construct(qr, c),
                      f"{tgt} (which releases) is registered with {c.func.attr} on the Deferred of acquire(): when the pending acquisition "
                      "is cancelled it still runs and releases capacity that was never held")
    ctx.check(len(executors) == 1, "run/executes-only-when-acquired", qr + " | <executor registration>",
              f"{len(executors)} executor registrations found on self.acquire() (exactly one expected)")
    rets = [s for s in ast.walk(run) if isinstance(s, ast.Return) and mod.enclosing_function(s) is run]
    for r in rets:
        root = r.value
        root, _ = _chain(_resolve_local(run, root)) if root is not None else (None, [])
        root = _resolve_local(run, root) if root is not None else None
        if root is not None:
            root, _ = _chain(root)
        ctx.check(isinstance(root, ast.Call) and call_name(root) == "self.acquire", "run/returns-chain", ctx.construct(qr, r),
                  "run() does not return the Deferred chained on acquire(): callers cannot observe the function's result")
    ctx.check(bool(rets), "run/returns-chain", qr, "run() returns nothing")

    # (2) executor: f only through maybeDeferred(f, *args, **kwargs), result .addBoth(self.<releaser>), chain returned
    releasers = set()
    run_names = (fname, va, kwa)
    for ex in executors:
        fname, va, kwa = exec_names.get(id(ex), run_names)     # the names run()'s f / *args / **kwargs go by inside this executor
        lifted = mod.enclosing_function(ex) is not run and not isinstance(ex, ast.Lambda)
        qe = (q + "." + ex.name) if lifted else qr + ".<locals>." + getattr(ex, "name", "<lambda>")
        if fname is None:
            ctx.violation("run/passes-arguments", qe, "run()'s function is not handed to the executor method")
            continue
        body_nodes = list(ast.walk(ex))
        direct = [c for c in body_nodes if isinstance(c, ast.Call) and isinstance(c.func, ast.Name) and c.func.id == fname]
        ctx.check(not direct, "run/function-via-maybeDeferred", qe,
                  "the function is called directly: a synchronous exception skips the release (capacity lost)")
        mds = [c for c in body_nodes if isinstance(c, ast.Call) and (dotted(c.func) or "").split(".")[-1] == "maybeDeferred"
               and c.args and isinstance(c.args[0], ast.Name) and c.args[0].id == fname]
        ctx.check(len(mds) == 1, "run/function-via-maybeDeferred", qe + " | <maybeDeferred call>",
                  f"the function is invoked through maybeDeferred {len(mds)} times (exactly once expected)")
        for md in mds:
            _wrapper_catches_all(ctx, mod, md, qe)
            star = [a.value.id for a in md.args if isinstance(a, ast.Starred) and isinstance(a.value, ast.Name)]
            dstar = [k.value.id for k in md.keywords if k.arg is None and isinstance(k.value, ast.Name)]
            ctx.check(star == ([va] if va else []) and dstar == ([kwa] if kwa else []) and len(md.args) == 1 + len(star),
                      "run/passes-arguments", ctx.construct(qe, md), "the function is not called with run()'s arguments")
        ctx.check(not [c for c in body_nodes if isinstance(c, ast.Call) and call_name(c) == "self.release"],
                  "run/release-after-result", qe + " | <direct release>",
                  "release() is called directly in the executor, i.e. before the function's (Deferred) result is available")
        inner = []
        for c in body_nodes:
            if isinstance(c, ast.Call) and isinstance(c.func, ast.Attribute) and c.func.attr in ("addCallback", "addErrback", "addBoth", "addCallbacks"):
                root, _ = _chain(c)
                root = _resolve_local(ex, root) if not isinstance(ex, ast.Lambda) else root
                root, _ = _chain(root)
                if any(root is m for m in mds):
                    inner.append(c)
        both = False
        for c in inner:
            args = [dotted(a) for a in c.args]
            kind = c.func.attr
            tg = [a for a in args if a and a.startswith("self.")]
            if kind == "addBoth" and tg:
                both = True
                releasers.add(tg[0][5:])
                ctx.ok("run/release-on-both-outcomes", ctx.construct(qe, c))
            elif kind == "addCallbacks" and len(args) >= 2 and args[0] == args[1] and tg:
                both = True
                releasers.add(tg[0][5:])
                ctx.ok("run/release-on-both-outcomes", ctx.construct(qe, c))
            elif tg:
                ctx.violation("run/release-on-both-outcomes", ctx.construct(qe, c),
                              f"the releasing callback is registered with {kind}: when the function "
                              f"{'fails' if kind == 'addCallback' else 'succeeds'} release() is never called (capacity lost)")
                releasers.add(tg[0][5:])
        ctx.check(both, "run/release-on-both-outcomes", qe, "no addBoth(self.<release-and-return>) on the function's result")
        if isinstance(ex, ast.Lambda):
            returned = [ex.body]
        else:
            returned = [s.value for s in ast.walk(ex) if isinstance(s, ast.Return)]
        okret = bool(returned)
        for rv in returned:
            root = _resolve_local(ex, rv) if not isinstance(ex, ast.Lambda) and rv is not None else rv
            root, _ = _chain(root) if root is not None else (None, [])
            if root is not None and not isinstance(ex, ast.Lambda):
                root, _ = _chain(_resolve_local(ex, root))
            okret = okret and any(root is m for m in mds)
        ctx.check(okret, "run/result-is-functions-result", qe,
                  "the executor does not return the function's Deferred: run()'s Deferred fires before the result is available")

    # (3) the releasing callback: release exactly once on every path, result passed through
    if not releasers and "_releaseAndReturn" in methods(cls):
        releasers.add("_releaseAndReturn")
    for name in sorted(releasers):
        r = mro_lookup(mod, cls, name)
        ctx.need(r and isinstance(r[1], ast.FunctionDef), f"releasing callback {name}")
        f = r[1]
        ctx.functions.add(f"{DEFER}:_ConcurrencyPrimitive.{name}")
        qn = f"{q}.{name}"
        g = ctx.cfg(f)
        _exactly_one_release(ctx, g, qn, "run/releases-exactly-once")
        params = [a.arg for a in f.args.posonlyargs + f.args.args][1:]
        rebound = [n for n in ast.walk(f) if isinstance(n, ast.Name) and isinstance(n.ctx, ast.Store) and params and n.id == params[0]]
        rets = [s for s in ast.walk(f) if isinstance(s, ast.Return)]
        ok = bool(params) and bool(rets) and not rebound and all(isinstance(s.value, ast.Name) and s.value.id == params[0] for s in rets)
        wit = g.must_pass([g.entry], g.ids(lambda n: n.kind == "stmt" and isinstance(n.ast, ast.Return)), exc=False)
        ctx.check(ok and wit is None, "run/result-passed-through", qn,
                  "the releasing callback does not return the result (or Failure) it was given: run() loses the function's outcome")
    # (4) async context manager
    with ctx.section("__aexit__"):
        f = ctx.func(DEFER, "_ConcurrencyPrimitive.__aexit__")
        _exactly_one_release(ctx, ctx.cfg(f), q + ".__aexit__", "aexit/releases-exactly-once")
    f = ctx.func(DEFER, "_ConcurrencyPrimitive.__aenter__")
    rets = [s for s in ast.walk(f) if isinstance(s, ast.Return)]
    ctx.check(bool(rets) and all(isinstance(s.value, ast.Call) and call_name(s.value) == "self.acquire" for s in rets),
              "aenter/acquires", q + ".__aenter__", "__aenter__ does not return self.acquire()")


def _check_sem_init(ctx, mod):
    f = ctx.func(DEFER, "DeferredSemaphore.__init__")
    q = f"{MODNAME}.DeferredSemaphore.__init__"
    g = ctx.cfg(f)
    params = [a.arg for a in f.args.args][1:]
    ctx.need(params, "DeferredSemaphore.__init__(self, tokens)")
    p = params[0]

    def writes(attr):
        return g.ids(lambda n: n.kind == "stmt" and isinstance(n.ast, (ast.Assign, ast.AnnAssign)) and any(
            isinstance(t, ast.Attribute) and dotted(t) == f"self.{attr}" for t in (n.ast.targets if isinstance(n.ast, ast.Assign) else [n.ast.target])))
    wt, wl = writes("tokens"), writes("limit")
    ctx.check(bool(wt) and bool(wl), "init/establishes-invariant", q, "tokens and limit are not both initialised")
    for w in wt + wl:
        v = g.node(w).ast.value
        ctx.check(isinstance(v, ast.Name) and v.id == p, "init/establishes-invariant", ctx.construct(q, g.node(w).ast),
                  "tokens and limit do not start equal (tokens + holders = limit fails with zero holders)")
        nfs = [lincmp(g.node(t).ast, negate=(lab == "F")) for t, lab in g.edge_guards(w)]
        ctx.check((frozenset({(p, 1)}), 1) in nfs, "init/limit-at-least-one", ctx.construct(q, g.node(w).ast),
                  f"a semaphore can be created with {p} < 1 (no acquisition could ever be granted)")
    lock = ctx.cls(DEFER, "DeferredLock")
    from sa.source import class_assigns
    ca = class_assigns(lock).get("locked")
    bad_writes = [st for m_ in (methods(lock).get("__init__"), methods(ctx.cls(DEFER, "_ConcurrencyPrimitive")).get("__init__")) if m_ is not None
                  for st in ast.walk(m_) if isinstance(st, ast.Assign) and any(dotted(t) == "self.locked" for t in st.targets)
                  and not (isinstance(st.value, ast.Constant) and st.value.value is False)]
    ctx.check(isinstance(ca, ast.Constant) and ca.value is False and not bad_writes,
              "init/establishes-invariant", f"{MODNAME}.DeferredLock | locked = False",
              "a new DeferredLock does not start unlocked with no holder")


def check(ctx):
    mod = ctx.mod(DEFER)
    with ctx.section("DeferredLock"):
        _analyse_primitive(ctx, mod, "DeferredLock", LockSpec())
    with ctx.section("DeferredSemaphore"):
        _analyse_primitive(ctx, mod, "DeferredSemaphore", SemSpec())
    with ctx.section("constructors"):
        _check_sem_init(ctx, mod)
    for cn in ("DeferredLock", "DeferredSemaphore"):
        with ctx.section(f"{cn} per-instance state"):
            per_instance_state(ctx, mod, ctx.cls(DEFER, cn), "waiting", MODNAME)
    with ctx.section("run"):
        _check_run(ctx, mod)


_LOCK_REL = ('        assert self.locked, "Tried to release an unlocked lock"\n        self.locked = False\n        if self.waiting:\n'
             '            # someone is waiting to acquire lock\n            self.locked = True\n            d = self.waiting.pop(0)\n'
             '            d.callback(self)\n')
_SEM_REL = ('        self.tokens = self.tokens + 1\n        if self.waiting:\n            # someone is waiting to acquire token\n'
            '            self.tokens = self.tokens - 1\n            d = self.waiting.pop(0)\n            d.callback(self)\n')
_LOCK_CANCEL = ('        self.waiting.remove(d)\n\n    def acquire(self: Self) -> Deferred[Self]:\n        """\n'
                '        Attempt to acquire the lock.')
_EXEC = ('            return maybeDeferred(f, *args, **kwargs).addBoth(\n                self._releaseAndReturn\n'
         '            )  # type: ignore[return-value]\n')

MUTANTS = [
    Mutant("lock-handover-without-locked-true", DEFER, "            # someone is waiting to acquire lock\n            self.locked = True\n",
           "            # someone is waiting to acquire lock\n", expect_rule="invariant/call-out"),
    Mutant("lock-release-keeps-locked", DEFER, _LOCK_REL, _LOCK_REL.replace("        self.locked = False\n", ""), expect_rule="invariant/exit"),
    Mutant("lock-grants-newest-waiter", DEFER, "            self.locked = True\n            d = self.waiting.pop(0)",
           "            self.locked = True\n            d = self.waiting.pop()", expect_rule="queue/fifo"),
    Mutant("sem-handover-keeps-token", DEFER, "            # someone is waiting to acquire token\n            self.tokens = self.tokens - 1\n",
           "            # someone is waiting to acquire token\n", expect_rule="invariant/call-out"),
    Mutant("run-releases-only-on-success", DEFER, _EXEC, _EXEC.replace("addBoth", "addCallback"), expect_rule="run/release-on-both-outcomes"),
    Mutant("lock-locked-true-after-callout", DEFER, _LOCK_REL,
           _LOCK_REL.replace("            self.locked = True\n", "").replace("            d.callback(self)\n", "            d.callback(self)\n            self.locked = True\n"),
           expect_rule="invariant/call-out"),
    Mutant("lock-canceller-leaves-waiter-queued", DEFER, _LOCK_CANCEL, _LOCK_CANCEL.replace("self.waiting.remove(d)", "pass"),
           expect_rule="cancel/removes-from-waiting"),
    Mutant("lock-acquire-without-canceller", DEFER, "        d: Deferred[Self] = Deferred(canceller=self._cancelAcquire)\n        if self.locked:",
           "        d: Deferred[Self] = Deferred()\n        if self.locked:", expect_rule="cancel/canceller-installed"),
    Mutant("run-executes-after-cancelled-acquire", DEFER, "        return self.acquire().addCallback(execute)",
           "        return self.acquire().addBoth(execute)", expect_rule="run/executes-only-when-acquired"),
    Mutant("sem-fires-waiter-without-detaching", DEFER, "            self.tokens = self.tokens - 1\n            d = self.waiting.pop(0)\n",
           "            self.tokens = self.tokens - 1\n            d = self.waiting[0]\n", expect_rule="fire/detached"),
    Mutant("release-and-return-drops-result", DEFER, "        self.release()\n        return r\n", "        self.release()\n",
           expect_rule="run/result-passed-through"),
    Mutant("sem-queues-although-token-free", DEFER, "        if not self.tokens:\n            self.waiting.append(d)",
           "        if self.tokens <= 1:\n            self.waiting.append(d)", expect_rule="invariant/exit"),
    Mutant("run-releases-before-result", DEFER, _EXEC,
           "            d = maybeDeferred(f, *args, **kwargs)\n            self.release()\n            return d\n", expect_rule="run/release"),
    Mutant("sem-accepts-zero-tokens", DEFER, "        if tokens < 1:\n            raise ValueError(", "        if tokens < 0:\n            raise ValueError(",
           expect_rule="init/limit-at-least-one"),
    Mutant("sem-release-token-after-callout", DEFER, _SEM_REL,
           "        self.tokens = self.tokens + 1\n        if self.waiting:\n            d = self.waiting.pop(0)\n            d.callback(self)\n            self.tokens = self.tokens - 1\n",
           expect_rule="invariant/call-out"),
    Mutant("release-chained-on-acquire", DEFER, _EXEC, "            return maybeDeferred(f, *args, **kwargs)\n", expect_rule="run/release-only-when-acquired",
           more=[(DEFER, "        return self.acquire().addCallback(execute)", "        return self.acquire().addCallback(execute).addBoth(self._releaseAndReturn)")]),
    Mutant("function-called-directly", DEFER, _EXEC, "            return f(*args, **kwargs).addBoth(self._releaseAndReturn)\n",
           expect_rule="run/function-via-maybeDeferred"),
]
SILENT = [
    Silent("sem-direct-handover", DEFER, _SEM_REL,
           "        if self.waiting:\n            d = self.waiting.pop(0)\n            d.callback(self)\n        else:\n            self.tokens = self.tokens + 1\n"),
    Silent("sem-augmented-assignments", DEFER, _SEM_REL, _SEM_REL.replace("self.tokens = self.tokens + 1", "self.tokens += 1").replace("self.tokens = self.tokens - 1", "self.tokens -= 1")),
    Silent("lock-direct-handover", DEFER, _LOCK_REL,
           '        assert self.locked, "Tried to release an unlocked lock"\n        if not self.waiting:\n            self.locked = False\n            return\n'
           '        waiter = self.waiting.pop(0)\n        waiter.callback(self)\n'),
    Silent("deque-instead-of-list", DEFER, "        self.waiting: List[Deferred[Self]] = []\n", "        self.waiting = deque()\n",
           more=[(DEFER, "            self.locked = True\n            d = self.waiting.pop(0)", "            self.locked = True\n            d = self.waiting.popleft()"),
                 (DEFER, "            self.tokens = self.tokens - 1\n            d = self.waiting.pop(0)", "            self.tokens = self.tokens - 1\n            d = self.waiting.popleft()")]),
    Silent("sem-redundant-waiting-test", DEFER, "        if not self.tokens:\n            self.waiting.append(d)", "        if self.tokens == 0 or len(self.waiting) > 0:\n            self.waiting.append(d)"),
    Silent("run-with-local", DEFER, "        return self.acquire().addCallback(execute)",
           "        acquired = self.acquire()\n        acquired.addCallback(execute)\n        return acquired"),
    Silent("lock-helper-method", DEFER, "            self.locked = True\n            d = self.waiting.pop(0)\n            d.callback(self)\n\n\nclass DeferredSemaphore",
           "            self.locked = True\n            self._grantNext()\n\n    def _grantNext(self):\n        d = self.waiting.pop(0)\n        d.callback(self)\n\n\nclass DeferredSemaphore"),
    Silent("lock-acquire-set-after-fire", DEFER, "            self.locked = True\n            d.callback(self)\n        return d",
           "            d.callback(self)\n            self.locked = True\n        return d"),
]

_LOCK_TAIL = ('        self.locked = False\n        if self.waiting:\n            # someone is waiting to acquire lock\n            self.locked = True\n'
              '            d = self.waiting.pop(0)\n            d.callback(self)\n')
_LOCK_LOOP = ('        self.locked = False\n        while self.waiting:\n            d = self.waiting.pop(0)\n            if d.called:\n                continue\n'
              '            self.locked = True\n            d.callback(self)\n            break\n')
MUTANTS += [
    # lazy cancellation: the canceller leaves the Deferred queued and release() skips fired entries
    Mutant("lock-lazy-cancellation", DEFER, _LOCK_TAIL, _LOCK_LOOP, expect_rule="cancel/removes-from-waiting",
           more=[(DEFER, _LOCK_CANCEL, _LOCK_CANCEL.replace("self.waiting.remove(d)", "pass"))]),
    Mutant("lock-release-grants-every-waiter", DEFER, _LOCK_TAIL,
           "        self.locked = False\n        while self.waiting:\n            self.locked = True\n            d = self.waiting.pop(0)\n            d.callback(self)\n",
           expect_rule="invariant/call-out"),
]
SILENT += [
    Silent("lock-release-loop-skipping-fired", DEFER, _LOCK_TAIL, _LOCK_LOOP),
    Silent("lock-acquire-early-return", DEFER, "        if self.locked:\n            self.waiting.append(d)\n        else:\n            self.locked = True\n            d.callback(self)\n        return d",
           "        if self.locked:\n            self.waiting.append(d)\n            return d\n        self.locked = True\n        d.callback(self)\n        return d"),
    Silent("sem-release-logs", DEFER, "        self.tokens = self.tokens + 1\n        if self.waiting:", '        self.tokens = self.tokens + 1\n        log.debug("released")\n        if self.waiting:'),
    Silent("sem-canceller-membership-test", DEFER, '        self.waiting.remove(d)\n\n    def acquire(self: Self) -> Deferred[Self]:\n        """\n        Attempt to acquire the token.',
           '        if d in self.waiting:\n            self.waiting.remove(d)\n\n    def acquire(self: Self) -> Deferred[Self]:\n        """\n        Attempt to acquire the token.'),
]

_BASE_INIT = "    def __init__(self: Self) -> None:\n        self.waiting: List[Deferred[Self]] = []\n"
_SEM_BASE_CALL = "        _ConcurrencyPrimitive.__init__(self)\n        if tokens < 1:"
MUTANTS += [
    # `waiting` becomes a class-level default like `locked`: one queue shared by every lock and semaphore of the process
    Mutant("waiting-shared-between-instances", DEFER, _BASE_INIT, "    waiting: List[Deferred[Self]] = []\n", expect_rule="init/per-instance-state",
           more=[(DEFER, _SEM_BASE_CALL, "        if tokens < 1:")]),
    # only the semaphore forgets to run the base initialiser; the class-level default added "for safety" is then what it uses
    Mutant("semaphore-skips-base-init", DEFER, _SEM_BASE_CALL, "        if tokens < 1:", expect_rule="init/per-instance-state",
           more=[(DEFER, "    locked = False\n\n    def _cancelAcquire", "    locked = False\n\n    def _cancelAcquire"),
                 (DEFER, "class _ConcurrencyPrimitive(ABC):\n", "class _ConcurrencyPrimitive(ABC):\n    waiting: List[Any] = []\n\n")]),
    Mutant("waiting-aliases-argument", DEFER, _BASE_INIT, "    def __init__(self: Self, waiting=[]) -> None:\n        self.waiting = waiting\n", expect_rule="init/per-instance-state"),
]
SILENT += [
    Silent("semaphore-uses-super", DEFER, "        _ConcurrencyPrimitive.__init__(self)\n", "        super().__init__()\n"),
    Silent("subclasses-initialise-waiting", DEFER, _BASE_INIT, "    waiting: List[Deferred[Self]]\n",
           more=[(DEFER, "        _ConcurrencyPrimitive.__init__(self)\n", "        self.waiting = []\n"),
                 (DEFER, "    locked = False\n\n    def _cancelAcquire", "    locked = False\n\n    def __init__(self) -> None:\n        self.waiting = []\n\n    def _cancelAcquire")]),
]

SILENT += [
    # run() with named temporaries, renamed closure / parameters, annotated local for the function's Deferred
    Silent("run-with-named-temporaries", DEFER, _EXEC,
           "            outcome: Deferred[_T] = maybeDeferred(f, *args, **kwargs)\n            outcome.addBoth(self._releaseAndReturn)\n            return outcome\n",
           more=[(DEFER, "        return self.acquire().addCallback(execute)", "        acquisition = self.acquire()\n        acquisition.addCallback(execute)\n        return acquisition"),
                 (DEFER, "    def _releaseAndReturn(self, r: _T) -> _T:\n        self.release()\n        return r\n",
                  "    def _releaseAndReturn(self, passthrough: _T) -> _T:\n        self.release()\n        return passthrough\n"),
                 (DEFER, "        return succeed(False)\n", "        notConsumed = succeed(False)\n        return notConsumed\n")]),
]

SILENT += [
    # the closure lifted to a private method, run()'s function / args / kwargs travelling as extra addCallback arguments
    Silent("executor-lifted-to-method", DEFER, _EXEC, "            raise NotImplementedError\n",
           more=[(DEFER, "        return self.acquire().addCallback(execute)", "        return self.acquire().addCallback(self._whileHeld, f, args, kwargs)"),
                 (DEFER, "    def _releaseAndReturn(self, r: _T) -> _T:",
                  "    def _whileHeld(self, _held, fn, positional, named):\n        return maybeDeferred(fn, *positional, **named).addBoth(self._releaseAndReturn)\n\n"
                  "    def _releaseAndReturn(self, r: _T) -> _T:")]),
]
MUTANTS += [
    # the same violation must be seen through the lifted executor
    Mutant("lifted-executor-releases-only-on-success", DEFER, _EXEC, "            raise NotImplementedError\n", expect_rule="run/release-on-both-outcomes",
           more=[(DEFER, "        return self.acquire().addCallback(execute)", "        return self.acquire().addCallback(self._whileHeld, f, args, kwargs)"),
                 (DEFER, "    def _releaseAndReturn(self, r: _T) -> _T:",
                  "    def _whileHeld(self, _held, fn, positional, named):\n        return maybeDeferred(fn, *positional, **named).addCallback(self._releaseAndReturn)\n\n"
                  "    def _releaseAndReturn(self, r: _T) -> _T:")]),
    Mutant("lifted-executor-registered-with-addBoth", DEFER, _EXEC, "            raise NotImplementedError\n", expect_rule="run/executes-only-when-acquired",
           more=[(DEFER, "        return self.acquire().addCallback(execute)", "        return self.acquire().addBoth(self._whileHeld, f, args, kwargs)"),
                 (DEFER, "    def _releaseAndReturn(self, r: _T) -> _T:",
                  "    def _whileHeld(self, _held, fn, positional, named):\n        return maybeDeferred(fn, *positional, **named).addBoth(self._releaseAndReturn)\n\n"
                  "    def _releaseAndReturn(self, r: _T) -> _T:")]),
]

_BASE_HOOKS = ("    def _free(self):\n        raise NotImplementedError()\n\n    def _take(self):\n        raise NotImplementedError()\n\n    def _give(self):\n        raise NotImplementedError()\n\n"
               "    def _admit(self, d):\n        if self._free():\n            self._take()\n            return True\n        self.waiting.append(d)\n        return False\n\n"
               "    def _passOn(self):\n        self._give()\n        if not self.waiting:\n            return None\n        self._take()\n        return self.waiting.pop(0)\n\n")
_REL_RET = "    def _releaseAndReturn(self, r: _T) -> _T:"
_LOCK_ACQ = ("        if self.locked:\n            self.waiting.append(d)\n        else:\n            self.locked = True\n            d.callback(self)\n        return d\n")
_LOCK_HOOKS = ("\n    def _free(self):\n        return not self.locked\n\n    def _take(self):\n        self.locked = True\n\n    def _give(self):\n        self.locked = False\n")
_SEM_ACQ = ("        if not self.tokens:\n            self.waiting.append(d)\n        else:\n            self.tokens = self.tokens - 1\n            d.callback(self)\n        return d\n")
_SEM_HOOKS = ("\n    def _free(self):\n        return bool(self.tokens)\n\n    def _take(self):\n        self.tokens = self.tokens - 1\n\n    def _give(self):\n        self.tokens = self.tokens + 1\n")
_HOOKED = [(DEFER, _REL_RET, _BASE_HOOKS + _REL_RET),
           (DEFER, _LOCK_ACQ, "        if self._admit(d):\n            d.callback(self)\n        return d\n" + _LOCK_HOOKS),
           (DEFER, _SEM_ACQ, "        if self._admit(d):\n            d.callback(self)\n        return d\n" + _SEM_HOOKS),
           (DEFER, _SEM_REL, "        nxt = self._passOn()\n        if nxt is not None:\n            nxt.callback(self)\n")]
_LOCK_REL_HOOKED = "        nxt = self._passOn()\n        if nxt is not None:\n            nxt.callback(self)\n"
SILENT += [
    # template method: capacity bookkeeping behind per-class hooks, the admit / hand-over decisions written once on the base class
    Silent("capacity-hooks-template-method", DEFER, _LOCK_TAIL, _LOCK_REL_HOOKED, more=_HOOKED),
]
MUTANTS += [
    # the inductive invariant is still decided at the public exits / call-outs THROUGH the hooks
    Mutant("hooked-handover-does-not-retake", DEFER, _LOCK_TAIL, _LOCK_REL_HOOKED, expect_rule="invariant/call-out",
           more=[(p_, o_, n_.replace("        self._give()\n        if not self.waiting:\n            return None\n        self._take()\n",
                                      "        self._give()\n        if not self.waiting:\n            return None\n")) for p_, o_, n_ in _HOOKED]),
    Mutant("semaphore-hook-takes-nothing", DEFER, _LOCK_TAIL, _LOCK_REL_HOOKED, expect_rule="invariant/",
           more=[(p_, o_, n_.replace("    def _take(self):\n        self.tokens = self.tokens - 1\n", "    def _take(self):\n        pass\n")) for p_, o_, n_ in _HOOKED]),
]

_MD_HANDLER = "        result = f(*args, **kwargs)\n    except BaseException:\n"
MUTANTS += [
    # the wrapper run() relies on narrows its handler: exceptions outside Exception escape before the release is attached
    Mutant("wrapper-handler-narrowed-to-exception", DEFER, _MD_HANDLER, "        result = f(*args, **kwargs)\n    except Exception:\n",
           expect_rule="run/call-out-exceptions-reach-release"),
    Mutant("wrapper-handler-reraises-cancellation", DEFER, _MD_HANDLER, "        result = f(*args, **kwargs)\n    except GeneratorExit:\n        raise\n    except BaseException:\n",
           expect_rule="run/call-out-exceptions-reach-release"),
]
SILENT += [
    Silent("wrapper-handler-bare-except", DEFER, _MD_HANDLER, "        result = f(*args, **kwargs)\n    except:  # noqa: E722\n"),
]
