"""Harness that drives an interpreted HTTPChannel / Request (see _lib_e_machine) with model collaborators.

The collaborators (transport, clock, network producer, request body file) are tiny model classes written below as
source text and interpreted by the same machine, so everything they receive is observable: bytes written to the
transport, whether it was closed, pause/resume calls, pending delayed calls, the request body stored."""
from __future__ import annotations

import ast
from typing import Callable, Dict, List, Optional

from sa.source import AnalysisError
from sa.props._lib_e_machine import BoundV, ClassV, FuncV, Machine, ModuleV, ObjV, Opaque, PyRaise, exc_name

MODEL_SRC = '''
class ModelDelayedCall:
    def __init__(self, clock, delay, func, args):
        self.clock = clock
        self.delay = delay
        self.func = func
        self.args = args
        self.cancelled = False
        self.called = False

    def cancel(self):
        self.cancelled = True

    def reset(self, delay):
        self.delay = delay

    def active(self):
        return not (self.cancelled or self.called)


class ModelClock:
    def __init__(self):
        self.calls = []

    def callLater(self, delay, func, *args):
        dc = ModelDelayedCall(self, delay, func, args)
        self.calls.append(dc)
        return dc

    def pending(self):
        return [c for c in self.calls if c.active()]


class ModelTransport:
    def __init__(self):
        self.disconnecting = False
        self.aborted = False
        self.log = []
        self.producerPaused = False

    def write(self, data):
        self.log.append(("write", data))

    def writeSequence(self, seq):
        self.log.append(("write", b"".join(seq)))

    def loseConnection(self):
        self.log.append(("close", b""))
        self.disconnecting = True

    def abortConnection(self):
        self.log.append(("abort", b""))
        self.disconnecting = True
        self.aborted = True

    def getPeer(self):
        return None

    def getHost(self):
        return None

    def setTcpNoDelay(self, flag):
        pass


class ModelProducer:
    def __init__(self, transport):
        self.transport = transport
        self.paused = 0
        self.calls = []

    def registerProducer(self, producer, streaming):
        self.calls.append("register")

    def unregisterProducer(self):
        self.calls.append("unregister")

    def pauseProducing(self):
        self.paused = 1
        self.calls.append("pause")

    def resumeProducing(self):
        self.paused = 0
        self.calls.append("resume")

    def stopProducing(self):
        self.calls.append("stop")


class ModelFile:
    def __init__(self):
        self.data = bytearray()
        self.pos = 0
        self.closed = False

    def write(self, data):
        self.data[self.pos:self.pos + len(data)] = data
        self.pos += len(data)

    def tell(self):
        return self.pos

    def seek(self, pos, whence=0):
        if whence == 0:
            self.pos = pos
        elif whence == 2:
            self.pos = len(self.data) + pos
        else:
            self.pos += pos

    def read(self, n=-1):
        if n is None or n < 0:
            out = bytes(self.data[self.pos:])
        else:
            out = bytes(self.data[self.pos:self.pos + n])
        self.pos += len(out)
        return out

    def close(self):
        self.closed = True
'''


class _TextModule:
    def __init__(self, text):
        self.text = text
        self.tree = ast.parse(text)


HTTP = "web/http.py"


class Harness:
    def __init__(self, ctx, budget: int = 300000):
        self.ctx = ctx
        self.m = Machine(ctx.tree, budget=budget, allowed={"web/http.py", "web/http_headers.py", "web/_abnf.py", "protocols/basic.py", "protocols/policies.py", "web/_responses.py", "internet/protocol.py"})
        self.m.stubs["twisted.python.compat.networkString"] = lambda mm, a, k: a[0].encode("ascii")
        self.m.stubs["twisted.python.compat.nativeString"] = lambda mm, a, k: a[0].decode("ascii") if isinstance(a[0], bytes) else a[0]
        ctx.tree.module(HTTP)
        self.http = self.m.module(HTTP)
        for qn in ("HTTPChannel.dataReceived", "HTTPChannel.lineReceived", "HTTPChannel.headerReceived", "HTTPChannel.rawDataReceived", "HTTPChannel.allContentReceived",
                   "HTTPChannel.requestDone", "HTTPChannel.writeHeaders", "Request.write", "Request.finish", "Request.notifyFinish", "Request.connectionLost"):
            try:
                ctx.func(HTTP, qn)        # recorded as analysed (interpreted) anchors; a vanished anchor is an analysis error
            except AnalysisError:
                raise
        self.model = ModuleV(self.m, "<model>", _TextModule(MODEL_SRC))
        self.m.modules["<model>"] = self.model

    def cls(self, name, mod=None) -> ClassV:
        v = self.m.global_lookup(mod or self.http, name)
        if not isinstance(v, ClassV):
            raise AnalysisError(f"anchor vanished: class {name}")
        return v

    def model_obj(self, name, *args) -> ObjV:
        return self.m.instantiate(self.m.global_lookup(self.model, name), list(args), {})

    # ---- objects ----------------------------------------------------------------------------------
    def channel(self, timeOut=None, process: Optional[Callable] = None, request_class: str = "Request") -> ObjV:
        """A connected HTTPChannel with model transport / clock / network producer.  ``process(machine, request)``
        is what the application does when a request is handed over (default: nothing - answers later)."""
        m = self.m
        m.stubs["INonQueuedRequestFactory.providedBy"] = lambda mm, a, k: False
        m.stubs["ITCPTransport.providedBy"] = lambda mm, a, k: False
        m.stubs["_getContentFile"] = lambda mm, a, k: self.model_obj("ModelFile")
        m.stubs["parse_qs"] = lambda mm, a, k: {}        # query-string decoding (urllib) is outside the properties decided here
        handed = []
        self.handed = handed
        self.seen = []          # request_info() of every request at the moment it is handed to the application

        def proc(mm, a, k):
            req = a[0]
            handed.append(req)
            self.seen.append(request_info(self, req))
            mm.events.append(__import__("sa.props._lib_e_machine", fromlist=["Event"]).Event("call", "APPLICATION", (req,), state=mm.snapshot()))
            if process is not None:
                process(mm, req)
            return None
        m.stubs[request_class + ".process"] = proc
        ch = m.instantiate(self.cls("HTTPChannel"), [], {})
        tr = self.model_obj("ModelTransport")
        clock = self.model_obj("ModelClock")
        ch.attrs["transport"] = tr
        ch.attrs["callLater"] = m.get_attr(clock, "callLater")
        ch.attrs["timeOut"] = timeOut
        ch.attrs["factory"] = None
        ch.attrs["_networkProducer"] = self.model_obj("ModelProducer", tr)
        ch.attrs["connected"] = 1
        m.root = ch
        self.transport, self.clock, self.producer = tr, clock, ch.attrs["_networkProducer"]
        if timeOut:
            m.call(m.get_attr(ch, "setTimeout"), [timeOut])
        return ch

    def feed(self, ch, data: bytes):
        self.m.call(self.m.get_attr(ch, "dataReceived"), [data])

    def call(self, obj, name, *args):
        return self.m.call(self.m.get_attr(obj, name), list(args))

    def wire(self, strict: bool = True) -> bytes:
        log = self.transport.attrs["log"]
        if any(not isinstance(d, (bytes, bytearray)) for k, d in log):
            if not strict:
                return b"".join(d if isinstance(d, (bytes, bytearray)) else b"<?>" for k, d in log if k == "write")
            raise AnalysisError("bytes written to the model transport depend on a value the interpreter does not know")
        return b"".join(d for k, d in log if k == "write")

    def wire_log(self):
        return list(self.transport.attrs["log"])

    def run(self, scenario: Callable[["Harness"], object], max_paths: int = 8, single: bool = True):
        """Interpret scenario(harness) on fresh objects; returns the Outcome (single path expected)."""
        outs = self.m.explore(lambda mm: scenario(self), max_paths=max_paths, hang_is_outcome=True)
        if single and len(outs) != 1:
            raise AnalysisError("scenario outcome depends on a value the interpreter does not know (" + str(len(outs)) + " paths)")
        return outs[0] if single else outs


def request_info(h: Harness, req) -> dict:
    """What the application sees of a handed-over request."""
    a = req.attrs if isinstance(req, ObjV) else {}
    content = a.get("content")
    body = bytes(content.attrs["data"]) if isinstance(content, ObjV) and "data" in content.attrs else None
    hdrs = a.get("requestHeaders")
    raw = hdrs.attrs.get("_rawHeaders") if isinstance(hdrs, ObjV) else None
    return {"method": a.get("method"), "uri": a.get("uri"), "version": a.get("clientproto"), "body": body,
            "headers": {k: list(v) for k, v in raw.items()} if isinstance(raw, dict) else None}


MODEL_SRC += '''

class ModelAlreadyCalled(Exception):
    pass


class ModelDeferred:
    def __init__(self):
        self.called = False
        self.results = []
        self.hook = None

    def callback(self, result):
        self._fire(("callback", result))

    def errback(self, result):
        self._fire(("errback", result))

    def _fire(self, item):
        self.results.append(item)
        if self.called:
            raise ModelAlreadyCalled()
        self.called = True
        if self.hook is not None:
            self.hook(self)

    def addCallback(self, f, *a, **k):
        return self

    def addErrback(self, f, *a, **k):
        return self

    def addBoth(self, f, *a, **k):
        return self
'''


# ---- oracle: an independent, strict HTTP/1.x response reader (written out here, not derived from twisted) -------------
TCHAR_SET = frozenset(b"!#$%&'*+-.^_`|~0123456789ABCDEFGHIJKLMNOPQRSTUVWXYZabcdefghijklmnopqrstuvwxyz")


class WireError(ValueError):
    pass


def parse_responses(wire: bytes, request_methods: List[bytes], closed: bool) -> List[dict]:
    """Split the bytes the server emitted into responses, one per request method given (in order).  Raises WireError when
    the bytes are not a sequence of well-formed, unambiguously delimited responses."""
    out = []
    pos = 0
    for i, meth in enumerate(request_methods):
        if pos >= len(wire):
            break
        end = wire.find(b"\r\n\r\n", pos)
        if end < 0:
            raise WireError(f"response {i}: header block not terminated: {wire[pos:pos + 60]!r}")
        lines = wire[pos:end].split(b"\r\n")
        parts = lines[0].split(b" ", 2)
        if len(parts) != 3 or not parts[0].startswith(b"HTTP/1.") or len(parts[1]) != 3 or not parts[1].isdigit():
            raise WireError(f"response {i}: bad status line {lines[0]!r}")
        if any(c in parts[2] for c in b"\r\n"):
            raise WireError(f"response {i}: line break in reason phrase")
        headers = []
        for ln in lines[1:]:
            name, sep, value = ln.partition(b":")
            if not sep or not name or any(c not in TCHAR_SET for c in name):
                raise WireError(f"response {i}: malformed header line {ln!r}")
            if b"\r" in value or b"\n" in value or b"\x00" in value:
                raise WireError(f"response {i}: control byte in header value {ln!r}")
            headers.append((name, value.strip(b" \t")))
        code = int(parts[1])
        pos = end + 4
        low = {}
        for n, v in headers:
            low.setdefault(n.lower(), []).append(v)
        te = low.get(b"transfer-encoding")
        cl = low.get(b"content-length")
        if te and cl:
            raise WireError(f"response {i}: both Transfer-Encoding and Content-Length")
        if meth == b"HEAD" or code in (204, 304) or 100 <= code < 200:
            body, framing = b"", "none"
            if te:
                raise WireError(f"response {i}: Transfer-Encoding on a response that cannot have a body")
        elif te:
            if [v.lower() for v in te] != [b"chunked"]:
                raise WireError(f"response {i}: unexpected Transfer-Encoding {te!r}")
            body = b""
            while True:
                eol = wire.find(b"\r\n", pos)
                if eol < 0:
                    raise WireError(f"response {i}: chunk size line not terminated")
                size_txt = wire[pos:eol].split(b";")[0]
                if not size_txt or any(c not in b"0123456789abcdefABCDEF" for c in size_txt):
                    raise WireError(f"response {i}: bad chunk size {size_txt!r}")
                n = int(size_txt, 16)
                pos = eol + 2
                if n == 0:
                    if wire[pos:pos + 2] != b"\r\n":
                        raise WireError(f"response {i}: last chunk not followed by CRLF (trailers not expected)")
                    pos += 2
                    break
                if len(wire) < pos + n + 2 or wire[pos + n:pos + n + 2] != b"\r\n":
                    raise WireError(f"response {i}: chunk of {n} bytes not followed by CRLF / truncated")
                body += wire[pos:pos + n]
                pos += n + 2
            framing = "chunked"
        elif cl:
            if len(set(cl)) != 1 or not cl[0].isdigit():
                raise WireError(f"response {i}: bad Content-Length {cl!r}")
            n = int(cl[0])
            if len(wire) < pos + n:
                raise WireError(f"response {i}: body shorter than Content-Length")
            body = wire[pos:pos + n]
            pos += n
            framing = "length"
        else:
            if not closed or i != len(request_methods) - 1:
                raise WireError(f"response {i}: neither Content-Length nor chunked and the connection stays open (end of body not marked)")
            body = wire[pos:]
            pos = len(wire)
            framing = "close"
        out.append({"version": parts[0], "code": code, "reason": parts[2], "headers": headers, "body": body, "framing": framing})
    if pos != len(wire):
        raise WireError(f"{len(wire) - pos} bytes on the wire after the last expected response: {wire[pos:pos + 60]!r}")
    return out


def check_name_encoder_behaviour(ctx, H):
    """_NameEncoder.encode: invalid names are refused every time (the process-wide cache never serves an unvalidated name);
    valid names come out in Http-Header-Case."""
    m = H.m
    mod = m.module("web/http_headers.py")
    cls = m.global_lookup(mod, "_NameEncoder")
    q = "twisted.web.http_headers._NameEncoder.encode"
    names = [b"Bad Name", b"Content-Length ", b"X-Foo\n", b"X-Foo\r\n", b"", b"a\x00b", b" lead", b"X:Y", "Bad Name", "X-Foo\n", b"\xe9", b"X-Foo\n\n"]
    bad = None
    for nm in names:
        def scen(H, nm=nm):
            enc = m.instantiate(cls, [], {})
            res = []
            for i in range(3):
                try:
                    res.append(("ok", m.call(m.get_attr(enc, "encode"), [nm])))
                except PyRaise as e:
                    res.append(("raise", exc_name(e.exc)))
            return res
        o = H.run(scen)
        if o.kind != "ok" or any(r != ("raise", "InvalidHeaderName") for r in o.value):
            bad = (nm, o.value if o.kind == "ok" else o.exc_name)
            break
    ctx.check(bad is None, "header-name/invalid-refused-every-time", q,
              (f"encode({bad[0]!r}) called three times gives {bad[1]!r}: an invalid header name must raise InvalidHeaderName on every use (a name cached before validation is accepted "
               "the second time: 'Content-Length ' would be accepted and ignored for framing)") if bad else "")
    bad = None
    for nm, want in ((b"content-length", b"Content-Length"), (b"CONTENT-LENGTH", b"Content-Length"), (b"transfer-encoding", b"Transfer-Encoding"), ("x-a-b", b"X-A-B"), (b"etag", b"ETag"),
                     (b"Host", b"Host"), (b"www-authenticate", b"WWW-Authenticate")):
        def scen(H, nm=nm):
            enc = m.instantiate(cls, [], {})
            return [m.call(m.get_attr(enc, "encode"), [nm]) for i in range(2)]
        o = H.run(scen)
        if o.kind != "ok" or o.value != [want, want]:
            bad = (nm, o.value if o.kind == "ok" else o.exc_name, want)
            break
    ctx.check(bad is None, "header-name/canonical-form", q, f"encode({bad[0]!r}) gives {bad[1]!r}, expected {bad[2]!r} both times (the framing decision compares canonical names)" if bad else "")


