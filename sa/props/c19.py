"""C19 - HTTP/1.1 server framing follows RFC 9112 (no request smuggling)."""
from __future__ import annotations

import ast

from sa.astx import assigned_targets, call_attr, call_name, dotted, lincmp, src, statements, walk_local
from sa.domains import HEXDIG, TCHAR, VCHAR, fmt_set
from sa.effects import class_accesses
from sa.selftest import Mutant, Silent
from sa.source import AnalysisError, class_assigns
from sa.props._lib_e import (Unknown, assigns_self, call_in, calls_named, catches, check_hex_validators, check_name_encoder, check_token_validator, falsy_until_exit,
                             handlers_of, http_interp, is_const, is_falsy_return, local_values, make_env, only_nodes_until_exit,
                             ordered, resolve_local, risky_calls, self_attr, site_label, walk)

PROPERTY = "C19"
HTTP = "web/http.py"
ABNF = "web/_abnf.py"
HDRS = "web/http_headers.py"
Q = "twisted.web.http."
QC = Q + "HTTPChannel."
RESPOND = "self._respondToBadRequestAndDisconnect"
FAIL = "self._failChooseTransferDecoder"
CHOOSE = "self._maybeChooseTransferDecoder"

TECHNIQUE = "finite-domain evaluation of validators + CFG dominance/must-pass over HTTPChannel"
EXPLANATION = (
    "Decides (a) by exhaustive evaluation of the source of _istoken/_ishexdigits/_hexint/_parseRequestLine over every byte value "
    "(alone, leading, trailing, embedded; trailing LF/CRLF, NUL, blanks, empty - whatever idiom the validator is written in: loop, regex, set, translate) "
    "and a structural line domain that exactly RFC 9110 tchar / VCHAR / two HTTP versions / three SP-separated parts are accepted; "
    "header names handed out by _NameEncoder.encode passed _istoken and its process-wide cache is filled only after that test (helpers followed one level); "
    "(b) on the CFGs of lineReceived/headerReceived/_maybeChooseTransferDecoder/_failChooseTransferDecoder/rawDataReceived that every "
    "rejecting site writes the 400, closes, and stops (only falsy returns follow), that every falsy return is preceded by a 400, that "
    "the results of headerReceived/_maybeChooseTransferDecoder are tested and a false result leaves without progress, and - by walking "
    "_maybeChooseTransferDecoder under concrete header values - that Content-Length must be 1*DIGIT, only 'chunked' selects the chunked "
    "decoder, any other coding / a second framing header fails; (c) body framing: length and decoder are installed together from the "
    "same validated value, length==0 finishes immediately and anything else enters raw mode, the identity decoder splits at exactly "
    "contentLength and hands the rest back, per-request framing state is reset before the application call-out, leftovers are buffered "
    "before the hand-over. Not decided: agreement with an independent parser on accepted streams, obs-fold semantics, size-limit values."
)
ASSUMPTIONS = [
    "names imported from twisted.web._abnf / http_headers resolve to the functions of those modules",
    "bytes/int builtins behave as in CPython (used by the finite evaluator)",
    "method calls on self do not change self.length / self._transferDecoder except where the analysed function assigns them",
]


def _first(items):
    return items[0] if items else None


# ------------------------------------------------------------------------------------------------------
def _byte_classes(ctx, I):
    check_token_validator(ctx, I)
    check_hex_validators(ctx, I)


def _ref_request_line(line: bytes):
    parts = line.split(b" ")
    if len(parts) != 3:
        return None
    m, t, v = parts
    if not m or any(c not in TCHAR for c in m):
        return None
    if not t or any(c not in VCHAR for c in t):
        return None
    if v not in (b"HTTP/1.1", b"HTTP/1.0"):
        return None
    return (m, t, v)


def _request_line(ctx, I):
    f = ctx.func(HTTP, "_parseRequestLine")
    q = Q + "_parseRequestLine"
    singles = [bytes([v]) for v in range(256)]
    fam = {
        "target-byte": [b"GET /" + s + b"x HTTP/1.1" for s in singles] + [b"GET " + s + b" HTTP/1.1" for s in singles]
                       + [b"GET /x" + s + b" HTTP/1.0" for s in singles],
        "method-byte": [b"G" + s + b"T / HTTP/1.1" for s in singles] + [s + b" / HTTP/1.1" for s in singles],
        "version": [b"GET / HTTP/1." + s for s in singles] + [b"GET / " + v for v in (
            b"HTTP/1.1", b"HTTP/1.0", b"HTTP/1.2", b"HTTP/2.0", b"HTTP/0.9", b"http/1.1", b"HTTP/1.1\r", b"HTTP/11", b"HTTP/1.10",
            b"HTTP/1", b"", b"HTTP/1.1x", b"xHTTP/1.1", b"HTTP/1.01", b"HTTP/01.1")],
        "structure": [b"GET / HTTP/1.1", b"GET  / HTTP/1.1", b"GET / HTTP/1.1 ", b" GET / HTTP/1.1", b"GET /", b"GET", b"",
                      b"GET\t/\tHTTP/1.1", b"GET /\tHTTP/1.1", b"GET  HTTP/1.1", b" / HTTP/1.1", b"GET / a HTTP/1.1",
                      b"GET /a b HTTP/1.1", b"OPTIONS * HTTP/1.1", b"CONNECT a:1 HTTP/1.1", b"get /%20?x=y#z HTTP/1.0",
                      b"GET\r/ HTTP/1.1", b"GET /\n HTTP/1.1", b"GET / HTTP/1.1\n", b"GET /\x00 HTTP/1.1", b"GET\n / HTTP/1.1", b"GET\r\n / HTTP/1.1",
                      b"GET\x00 / HTTP/1.1", b"GET / HTTP/1.1\r\n", b"GET /\r\n HTTP/1.1", b"\nGET / HTTP/1.1", b"GET / HTTP/1.0\n"],
    }
    for name, dom in fam.items():
        bad = None
        for line in dom:
            kind, val = I.outcome(f, [line])
            want = _ref_request_line(line)
            if want is None:
                ok = kind == "raise" and I.is_sub(val, "ValueError")
            else:
                ok = kind == "ok" and tuple(val) == want
            if not ok and bad is None:
                bad = (line, kind, val, want)
        ctx.check(bad is None, "request-line/" + name, q,
                  (f"_parseRequestLine({bad[0]!r}) gives {bad[1]} {bad[2]!r}; RFC 9112 3 (method=token SP target=1*VCHAR SP HTTP/1.0|1.1) "
                   f"requires {'ValueError' if bad[3] is None else bad[3]}") if bad else "",
                  detail=f"{len(dom)} lines agree with the RFC 9112 reference decision")


# ------------------------------------------------------------------------------------------------------
def _respond_sites(ctx, g, q, extra_ok=None):
    sites = calls_named(g, RESPOND, "self.channel._respondToBadRequestAndDisconnect")
    def logging_ok(nd):
        if nd.kind == "stmt" and isinstance(nd.ast, ast.Expr) and isinstance(nd.ast.value, ast.Call) and (call_name(nd.ast.value) or "").startswith("self._log."):
            return True
        return bool(extra_ok and extra_ok(nd))
    for n in sites:
        wit = falsy_until_exit(g, n, logging_ok)
        ctx.check(wit is None, "reject/stop-after-400", f"{q} | 400 {site_label(g, n)}",
                  "after answering 400 the function goes on (state is changed / the request proceeds / a true result is returned)",
                  witness=g.describe(wit))
    return sites


def _result_used(ctx, I):
    """Every call of a validating method (returns False after having sent the 400) has its result tested; the
    false outcome leaves the caller without any further effect, or the result is returned to the caller's caller."""
    cls = ctx.cls(HTTP, "HTTPChannel")
    callees = ("self.headerReceived", CHOOSE, FAIL)
    count = 0
    for m in [n for n in cls.body if isinstance(n, (ast.FunctionDef, ast.AsyncFunctionDef))]:
        if not any(call_name(c) in callees for c in ast.walk(m) if isinstance(c, ast.Call)):
            continue
        g = ctx.cfg(m)
        q = QC + m.name
        for n in calls_named(g, *callees):
            node = g.node(n)
            call = call_in(node.ast, *callees)
            count += 1
            cons = ctx.construct(q, node.ast)
            fails = (f"the boolean result of {call_name(call)}() is dropped: after the 400 the channel keeps parsing this request "
                     "(it is later handed to the application when the transport keeps delivering, e.g. TLS until close_notify)")
            if node.kind == "stmt" and isinstance(node.ast, ast.Return):
                ctx.ok("reject/result-used", cons, "result returned to the caller")
                continue
            if node.kind == "test" and node.ast is call:
                fs = [d for d, l in g.succ[n] if l == "F"]
                wit = only_nodes_until_exit(g, fs, lambda nd: nd.kind == "stmt" and is_falsy_return(nd.ast))
                ctx.check(wit is None, "reject/result-used", cons, "a false result does not stop processing: " + fails, witness=g.describe(wit))
                continue
            if node.kind == "stmt" and isinstance(node.ast, ast.Assign) and node.ast.value is call and \
                    len(node.ast.targets) == 1 and isinstance(node.ast.targets[0], ast.Name):
                var = node.ast.targets[0].id
                tests = g.ids(lambda t: t.kind == "test" and isinstance(t.ast, ast.Name) and t.ast.id == var)
                wit = g.must_pass([n], tests, exc=False) if tests else g.path([n], [g.exit], edge_ok=lambda a, b, l: l != "exc")
                okk = bool(tests) and wit is None
                if okk:
                    for t in tests:
                        fs = [d for d, l in g.succ[t] if l == "F"]
                        w2 = only_nodes_until_exit(g, fs, lambda nd: nd.kind == "stmt" and is_falsy_return(nd.ast))
                        if w2 is not None:
                            okk, wit = False, w2
                ctx.check(okk, "reject/result-used", cons, fails, witness=g.describe(wit))
                continue
            ctx.violation("reject/result-used", cons, fails, g.describe(g.path([g.entry], [n])))
    ctx.floor("reject/result-used", count, 5)


def _line_received(ctx, I):
    f = ctx.func(HTTP, "HTTPChannel.lineReceived")
    g = ctx.cfg(f)
    q = QC + "lineReceived"
    sites = _respond_sites(ctx, g, q)
    ctx.need(sites, "400 sites in lineReceived")
    param = f.args.args[1].arg
    # request line: parsed by _parseRequestLine inside a handler that converts ValueError to 400
    pn = calls_named(g, "_parseRequestLine")
    ctx.need(pn, "call of _parseRequestLine in lineReceived")
    for n in pn:
        hs = [h for h in handlers_of(g, n) if catches(I, g.node(h).ast, "ValueError")]
        wit = None
        if hs:
            for h in hs:
                wit = wit or g.must_pass([h], sites, exc=False)
        ctx.check(bool(hs) and wit is None, "request-line/invalid-gives-400", ctx.construct(q, g.node(n).ast),
                  "a malformed request line (ValueError from _parseRequestLine) is not answered with 400",
                  witness=g.describe(wit) if wit else "no handler catches ValueError")
    # who may write the request-line fields
    cls = ctx.cls(HTTP, "HTTPChannel")
    parsed = set()
    for n in pn:
        st = g.node(n).ast
        if isinstance(st, ast.Assign):
            parsed |= {t.id for t in assigned_targets(st) if isinstance(t, ast.Name)}
    acc = [a for a in class_accesses(ctx.mod(HTTP), cls, {"_command", "_path", "_version"}) if a.kind != "delete"]
    for a in acc:
        v = getattr(a.node, "value", None)
        ctx.check(a.func == "HTTPChannel.lineReceived" and isinstance(v, ast.Name) and v.id in parsed, "request-line/fields-from-parser",
                  ctx.construct(Q + a.func, a.node), f"self.{a.attr} is assigned from something other than the validated _parseRequestLine result")
    ctx.floor("request-line/fields-from-parser", len(acc), 3)

    # end of headers ------------------------------------------------------------------------------------
    base = {param: b"", "self.__first_line": 0}
    done = calls_named(g, "self.allContentReceived")
    raw = calls_named(g, "self.setRawMode")
    ahr = calls_named(g, "self.allHeadersReceived")
    hr = calls_named(g, "self.headerReceived")
    ctx.need(done and raw and ahr and hr, "allContentReceived / setRawMode / allHeadersReceived / headerReceived calls in lineReceived")
    for v in (0, None, 1, 5):
        env = make_env(dict(base, **{"self.__header": b"", "self.length": v}))
        vis = walk(g, I, env)
        if v == 0:
            ok = any(n in vis for n in done) and not any(n in vis for n in raw)
            why = "a request without body (length 0) is not completed at the end of its headers / enters raw mode"
        else:
            ok = any(n in vis for n in raw) and not any(n in vis for n in done)
            why = (f"with self.length == {v!r} (body expected{' - chunked' if v is None else ''}) the request is handed over at the end of the "
                   "headers: its body bytes are then parsed as the next request")
        ctx.check(ok, "framing/body-mode-from-length", f"{q} | end of headers, self.length == {v!r}", why)
    # the last (and every) header is processed, and the stale header text is cleared
    env = make_env(dict(base, **{"self.__header": b"Transfer-Encoding: chunked"}))
    vis = walk(g, I, env)
    ctx.check(any(n in vis for n in hr), "headers/last-header-processed", f"{q} | end of headers with a pending header",
              "the last header line of a request is not passed to headerReceived (a framing header in last position is ignored)")
    env = make_env({param: b"A: b", "self.__first_line": 0, "self.__header": b"Transfer-Encoding: chunked"})
    vis = walk(g, I, env)
    store = assigns_self(g, "__header", lambda v: isinstance(v, ast.Name) and v.id == param)
    ctx.check(any(n in vis for n in hr) and any(n in vis for n in store), "headers/every-header-processed", f"{q} | regular header line",
              "a regular header line does not cause the pending header to be processed and the new line to be stored")
    clears = assigns_self(g, "__header", lambda v: is_const(v, b""))
    wit = ordered(g, clears, ahr + done + raw)
    ctx.check(bool(clears) and wit is None, "headers/stale-header-cleared", f"{q} | end of headers",
              "the pending header text is not cleared at the end of the headers: it is prepended to the next request's headers",
              witness=g.describe(wit))
    # the hand-over calls happen only at the end of the headers
    for n in done + raw + ahr:
        env = make_env({param: b"A: b", "self.__first_line": 0})
        ctx.check(n not in walk(g, I, env), "framing/hand-over-only-at-end-of-headers", ctx.construct(q, g.node(n).ast),
                  "the request is completed / raw mode is entered on a non-empty header line")
    # default: no framing header -> no body
    ca = class_assigns(cls)
    ctx.check("length" in ca and is_const(ca["length"], 0), "framing/default-no-body", QC + "length",
              "the class default of HTTPChannel.length is not 0: a request without Content-Length/Transfer-Encoding would get a body")


def _header_received(ctx, I):
    f = ctx.func(HTTP, "HTTPChannel.headerReceived")
    g = ctx.cfg(f)
    q = QC + "headerReceived"
    sites = _respond_sites(ctx, g, q)
    ctx.need(sites, "400 sites in headerReceived")
    rejecting = set(sites) | set(calls_named(g, CHOOSE, FAIL))
    rets = g.ids(lambda n: n.kind == "stmt" and isinstance(n.ast, ast.Return))
    for r in rets:
        st = g.node(r).ast
        if is_falsy_return(st):
            wit = g.must_precede(rejecting, [r], exc=False)
            ctx.check(wit is None, "reject/400-before-false", f"{q} | return {site_label(g, r)}",
                      "headerReceived reports an invalid header without having answered 400", witness=g.describe(wit))
    # every handler rejects
    hs = g.ids(lambda n: n.kind == "handler")
    for h in hs:
        wit = g.must_pass([h], sites, exc=False)
        ctx.check(wit is None, "reject/handler-rejects", f"{q} | {g.node(h).text()}",
                  "a parse error caught in headerReceived is not answered with 400 (the malformed header is accepted)", witness=g.describe(wit))
    line = f.args.args[1].arg
    # colon split protected
    splits = [n for n in g.ids(lambda n: n.kind == "stmt" and isinstance(n.ast, ast.Assign))
              if any(isinstance(c, ast.Call) and call_attr(c) in ("split", "partition") and c.args and is_const(c.args[0], b":")
                     and isinstance(c.func, ast.Attribute) and src(c.func.value) == line for c in walk_local(g.node(n).ast))]
    ctx.check(bool(splits), "header/colon-required", q, "the header line is no longer split at the first colon")
    name_var = val_var = None
    for n in splits:
        st = g.node(n).ast
        c = next(c for c in walk_local(st) if isinstance(c, ast.Call) and call_attr(c) in ("split", "partition"))
        tg = assigned_targets(st)
        if call_attr(c) == "split":
            ok = len(c.args) == 2 and is_const(c.args[1], 1) and len(tg) == 2 and \
                any(catches(I, g.node(h).ast, "ValueError") for h in handlers_of(g, n))
            ctx.check(ok, "header/colon-required", ctx.construct(q, st),
                      "a header line without a colon is not rejected (split(b':', 1) unpacked into two names inside a ValueError handler expected)")
        if len(tg) >= 2 and all(isinstance(t, ast.Name) for t in tg):
            name_var, val_var = tg[0].id, tg[-1].id
    # name canonicalised + validated
    enc = [n for n in calls_named(g, "_nameEncoder.encode") if isinstance(g.node(n).ast, ast.Assign)]
    ctx.check(bool(enc), "header/name-validated", q, "the header name is no longer passed through _nameEncoder.encode (token check + canonical case)")
    canon = None
    for n in enc:
        st = g.node(n).ast
        c = call_in(st, "_nameEncoder.encode")
        ok = any(catches(I, g.node(h).ast, "InvalidHeaderName") for h in handlers_of(g, n)) and len(c.args) == 1 and \
            isinstance(c.args[0], ast.Name) and c.args[0].id == name_var
        ctx.check(ok, "header/name-validated", ctx.construct(q, st), "an invalid header name (InvalidHeaderName) is not caught and answered with 400")
        canon = assigned_targets(st)[0].id if isinstance(assigned_targets(st)[0], ast.Name) else None
    # value: OWS-stripped, NUL-free
    strips = [n for n in g.ids(lambda n: n.kind == "stmt" and isinstance(n.ast, ast.Assign))
              if any(isinstance(c, ast.Call) and call_attr(c) == "strip" and isinstance(c.func, ast.Attribute) and src(c.func.value) == val_var
                     for c in walk_local(g.node(n).ast))]
    stripped = None
    for n in strips:
        st = g.node(n).ast
        c = next(c for c in walk_local(st) if isinstance(c, ast.Call) and call_attr(c) == "strip")
        ok = len(c.args) == 1 and isinstance(c.args[0], ast.Constant) and isinstance(c.args[0].value, bytes) and set(c.args[0].value) == {32, 9}
        ctx.check(ok, "header/ows-strip", ctx.construct(q, st),
                  "the field value is stripped of more than SP/HTAB (bare CR, LF, VT, FF around a framing value are silently removed)")
        t = assigned_targets(st)[0]
        stripped = t.id if isinstance(t, ast.Name) else None
    ctx.check(bool(strips), "header/ows-strip", q, "optional whitespace around the field value is not removed before the framing decision")
    users = calls_named(g, CHOOSE) + calls_named(g, ".addRawHeader")
    ctx.need(users, "_maybeChooseTransferDecoder / addRawHeader calls in headerReceived")
    valname = stripped or val_var
    for n in users:
        node = g.node(n)
        c = call_in(node.ast, CHOOSE, ".addRawHeader")
        cons = ctx.construct(q, c)
        ok = len(c.args) == 2 and isinstance(c.args[0], ast.Name) and c.args[0].id == canon and any(g.dominates(e, n) for e in enc)
        ctx.check(ok, "header/canonical-name-used", cons,
                  "the framing decision / the stored header uses the raw name instead of the validated canonical name "
                  "(e.g. 'content-length' would not be recognised)")
        ok = len(c.args) == 2 and isinstance(c.args[1], ast.Name) and c.args[1].id == valname and any(g.dominates(s, n) for s in strips)
        ctx.check(ok, "header/stripped-value-used", cons, "the framing decision / the stored header uses the unstripped value")
        blocked = False
        for t, lab in g.edge_guards(n):
            try:
                val = bool(I.ev(g.node(t).ast, make_env({valname: b"a\x00b"})))
                val2 = bool(I.ev(g.node(t).ast, make_env({valname: b"ab"})))
            except Exception:
                continue
            if val != (lab == "T") and val2 == (lab == "T"):
                blocked = True
        ctx.check(blocked, "header/nul-rejected", cons, "a header value containing NUL reaches the framing decision / the request headers")
    # every accepted header went through the framing decision
    tr = [r for r in rets if not is_falsy_return(g.node(r).ast)]
    ch = calls_named(g, CHOOSE)
    for r in tr:
        wit = g.must_precede(ch, [r], exc=False)
        ctx.check(wit is None, "header/framing-decision-on-every-header", f"{q} | {src(g.node(r).ast)}",
                  "a header can be accepted without passing _maybeChooseTransferDecoder", witness=g.describe(wit))


# ------------------------------------------------------------------------------------------------------
def _closest_def(g, f, name, at):
    """Value of the assignment to local ``name`` that dominates node ``at`` and is nearest to it."""
    defs = [n for n in g.ids(lambda n: n.kind == "stmt" and isinstance(n.ast, ast.Assign)
                             and any(isinstance(t, ast.Name) and t.id == name for t in assigned_targets(n.ast)))
            if g.dominates(n, at) and n != at]
    if not defs:
        return None
    best = [d for d in defs if all(g.dominates(o, d) for o in defs)]
    return g.node(best[0]).ast.value if best else None


def _choose_decoder(ctx, I):
    f = ctx.func(HTTP, "HTTPChannel._maybeChooseTransferDecoder")
    g = ctx.cfg(f)
    q = QC + "_maybeChooseTransferDecoder"
    hp, dp = f.args.args[1].arg, f.args.args[2].arg
    fail = calls_named(g, FAIL, RESPOND)
    ident = calls_named(g, "_IdentityTransferDecoder")
    chunk = calls_named(g, "_ChunkedTransferDecoder")
    install = assigns_self(g, "_transferDecoder")
    setlen = assigns_self(g, "length")
    trues = g.ids(lambda n: n.kind == "stmt" and isinstance(n.ast, ast.Return) and not is_falsy_return(n.ast) and not call_in(n.ast, FAIL))
    ctx.need(fail and ident and chunk and install and trues, "fail / decoder constructions / installation / return True in _maybeChooseTransferDecoder")
    ctx.check(bool(setlen), "framing/length-and-decoder-together", q + " | self.length", "self.length is never set when a body decoder is chosen: the request is completed at the end of the headers and its body is parsed as the next request")
    _respond_sites(ctx, g, q)

    def run(h, d, dec):
        return walk(g, I, make_env({hp: h, dp: d, "self._transferDecoder": dec}))

    def hit(vis, nodes):
        return any(n in vis for n in nodes)

    OBJ = object()
    cl_values = [b"5", b"0", b"007", b"12345678901234567890", b"", b"+5", b"-5", b" 5", b"5 ", b"0x5", b"5,5", b"5, 5", b"5\x0b", b"\x0c5",
                 b"1_0", b"\xd9\xa5", b"5.0", b"1e3", b"\xb2", b"5\r", b"5\n", b"a", b"5;q"]
    for d in cl_values:
        valid = d != b"" and all(48 <= c <= 57 for c in d)
        vis = run(b"Content-Length", d, None)
        if valid:
            ok = hit(vis, ident) and hit(vis, install) and hit(vis, setlen) and hit(vis, trues) and not hit(vis, fail) and not hit(vis, chunk)
            why = f"Content-Length: {d!r} (1*DIGIT) does not install the identity decoder"
        else:
            ok = hit(vis, fail) and not hit(vis, ident) and not hit(vis, install) and not hit(vis, trues)
            why = f"Content-Length: {d!r} is not 1*DIGIT but is not rejected with 400 (it reaches int() / a decoder is installed / True is returned)"
        ctx.check(ok, "framing/content-length-digits", f"{q} | Content-Length: {d!r}", why)
    te_values = [b"chunked", b"Chunked", b"CHUNKED", b"gzip, chunked", b"chunked, gzip", b"xchunked", b"chunkedx", b" chunked", b"chunked\t",
                 b"chunked,chunked", b"identity", b"Identity", b"gzip", b"", b"chunked;q=1", b"\x0bchunked", b"identity, chunked", b"deflate"]
    for d in te_values:
        vis = run(b"Transfer-Encoding", d, None)
        low = d.lower()
        if low == b"chunked":
            ok = hit(vis, chunk) and hit(vis, install) and hit(vis, setlen) and hit(vis, trues) and not hit(vis, fail) and not hit(vis, ident)
            why = f"Transfer-Encoding: {d!r} does not install the chunked decoder"
        elif low == b"identity":
            ok = hit(vis, trues) and not hit(vis, fail) and not hit(vis, chunk) and not hit(vis, ident) and not hit(vis, install)
            why = f"Transfer-Encoding: {d!r} must leave the framing unchanged"
        else:
            ok = hit(vis, fail) and not hit(vis, chunk) and not hit(vis, install) and not hit(vis, trues)
            why = f"unsupported transfer coding {d!r} is not rejected with 400 (a decoder is installed or the header is accepted)"
        ctx.check(ok, "framing/transfer-coding", f"{q} | Transfer-Encoding: {d!r}", why)
    for h, d in ((b"Content-Length", b"5"), (b"Transfer-Encoding", b"chunked")):
        vis = run(h, d, OBJ)
        ok = hit(vis, fail) and not hit(vis, install) and not hit(vis, setlen) and not hit(vis, trues)
        ctx.check(ok, "framing/conflict-rejected", f"{q} | second framing header {h.decode()}",
                  f"a request that already has a body decoder (repeated Content-Length, or Content-Length with Transfer-Encoding) is not "
                  f"rejected when {h.decode()}: {d.decode()} arrives")
    for h in (b"X", b"Content-Lengthx", b"Content-Type", b"Te", b"Host"):
        vis = run(h, b"5", None)
        ok = hit(vis, trues) and not hit(vis, fail) and not hit(vis, install) and not hit(vis, ident) and not hit(vis, chunk)
        ctx.check(ok, "framing/other-headers-neutral", f"{q} | header {h!r}", f"header {h!r} changes the framing or is rejected")

    # the literals compared with the header name are canonical forms of exactly the two framing headers
    lits = set()
    for n in g.ids(lambda n: n.kind == "test"):
        t = g.node(n).ast
        if isinstance(t, ast.Compare) and len(t.ops) == 1 and isinstance(t.ops[0], (ast.Eq, ast.NotEq)):
            for a, b in ((t.left, t.comparators[0]), (t.comparators[0], t.left)):
                if isinstance(a, ast.Name) and a.id == hp and isinstance(b, ast.Constant) and isinstance(b.value, bytes):
                    lits.add(b.value)
    _canonical(ctx, I, lits, q)

    # coupled installation: length and decoder from the same validated value
    for n in ident:
        c = call_in(g.node(n).ast, "_IdentityTransferDecoder")
        a0 = c.args[0] if c.args else None
        v = a0
        if isinstance(a0, ast.Name):
            v = _closest_def(g, f, a0.id, n)
        ok = isinstance(v, ast.Call) and call_name(v) == "int" and len(v.args) in (1, 2) and isinstance(v.args[0], ast.Name) and v.args[0].id == dp \
            and (len(v.args) == 1 or is_const(v.args[1], 10))
        ctx.check(ok, "framing/identity-length-is-content-length", ctx.construct(q, c),
                  "the identity decoder is not created with int(<Content-Length value>)")
        for s in setlen:
            sv = g.node(s).ast.value
            ok = isinstance(a0, ast.Name) and isinstance(sv, ast.Name) and sv.id == a0.id
            ctx.check(ok, "framing/length-matches-decoder", ctx.construct(q, g.node(s).ast),
                      "self.length is not set from the same value the identity decoder counts with")
    for n in chunk:
        for s in setlen:
            sv = g.node(s).ast.value
            v = _closest_def(g, f, sv.id, n) if isinstance(sv, ast.Name) else sv
            ctx.check(isinstance(v, ast.Constant) and v.value is None, "framing/chunked-length-none", ctx.construct(q, g.node(n).ast),
                      "for chunked coding self.length is not None: lineReceived would treat the request as having a fixed/empty body")
    for n in ident + chunk:
        c = call_in(g.node(n).ast, "_IdentityTransferDecoder", "_ChunkedTransferDecoder")
        args = list(c.args) + [k.value for k in c.keywords]
        ok = len(args) >= 2 and src(args[-1]) == "self._finishRequestBody" and src(args[-2]).endswith(".handleContentChunk") and \
            src(args[-2]).startswith("self.requests[-1]")
        ctx.check(ok, "framing/decoder-callbacks", ctx.construct(q, c),
                  "body bytes do not go to the current request's handleContentChunk / the bytes after the body are not given back through _finishRequestBody")
    for i in install:
        w1 = ordered(g, setlen, [i])
        w2 = g.must_pass([i], setlen, exc=False)
        ctx.check(w1 is None or w2 is None, "framing/length-and-decoder-together", ctx.construct(q, g.node(i).ast),
                  "a decoder is installed on a path that does not set self.length (the request would be completed before its body)",
                  witness=g.describe(w2))
        v = g.node(i).ast.value
        src_ok = isinstance(v, ast.Name) and all(isinstance(x, ast.Call) and call_name(x) in ("_IdentityTransferDecoder", "_ChunkedTransferDecoder")
                                                for x in local_values(f, v.id))
        ctx.check(src_ok, "framing/installed-decoder-is-chosen", ctx.construct(q, g.node(i).ast), "the installed decoder is not the one chosen from the header")

    # _failChooseTransferDecoder
    ff = ctx.func(HTTP, "HTTPChannel._failChooseTransferDecoder")
    gf = ctx.cfg(ff)
    qf = QC + "_failChooseTransferDecoder"
    rs = calls_named(gf, RESPOND)
    wit = gf.must_pass([gf.entry], rs, exc=False)
    ctx.check(bool(rs) and wit is None, "reject/fail-sends-400", qf, "_failChooseTransferDecoder can return without answering 400", witness=gf.describe(wit))
    for r in gf.ids(lambda n: n.kind == "stmt" and isinstance(n.ast, ast.Return)):
        ctx.check(is_falsy_return(gf.node(r).ast) and gf.node(r).ast.value is not None, "reject/fail-returns-false", ctx.construct(qf, gf.node(r).ast),
                  "_failChooseTransferDecoder reports success: the header with invalid framing is accepted")
    _respond_sites(ctx, gf, qf, extra_ok=lambda nd: nd.kind == "stmt" and isinstance(nd.ast, ast.Assign) and isinstance(nd.ast.value, ast.Constant))


def _header_case(x: bytes) -> bytes:
    """Http-Header-Case, written out: every '-'-separated word capitalised."""
    return b"-".join(w[:1].upper() + w[1:].lower() for w in x.split(b"-"))


def _canonical(ctx, I, lits, q):
    """The literals the framing decision compares the (canonicalised) header name with are the canonical spellings of
    exactly Content-Length and Transfer-Encoding; where the canonicalisation expression of _NameEncoder can be located
    (in encode() or a helper) it must agree with Http-Header-Case on them."""
    cls = ctx.cls(HDRS, "_NameEncoder")
    want = {b"content-length", b"transfer-encoding"}
    ctx.check({l.lower() for l in lits} == want, "framing/headers-recognised", q,
              f"the framing headers recognised are {sorted(lits)}; RFC 9112 6 requires exactly Content-Length and Transfer-Encoding")
    cm = class_assigns(cls).get("_caseMappings")
    try:
        mapping = I.ev(cm, {}) if cm is not None else {}
    except Exception:
        mapping = {}
    for l in sorted(lits):
        c = _header_case(l)
        c = mapping.get(c, c)
        ctx.check(c == l, "framing/canonical-literal", f"{q} | {l!r}",
                  f"header name literal {l!r} is not the canonical Http-Header-Case spelling ({c!r}) that reaches _maybeChooseTransferDecoder: the framing header would be ignored")
    with ctx.section("canonicalisation expression of _NameEncoder"):
        found = []
        for m in [n for n in cls.body if isinstance(n, (ast.FunctionDef, ast.AsyncFunctionDef))]:
            for st in statements(m):
                v = st.value if isinstance(st, (ast.Assign, ast.Return)) else None
                if v is not None and any(isinstance(c, ast.Call) and call_attr(c) in ("capitalize", "title") for c in ast.walk(v)):
                    bound = {t.id for comp in ast.walk(v) if isinstance(comp, ast.comprehension) for t in ast.walk(comp.target) if isinstance(t, ast.Name)}
                    free = sorted({n.id for n in ast.walk(v) if isinstance(n, ast.Name) and isinstance(n.ctx, ast.Load)} - bound - set(I.consts) - set(I.funcs))
                    if len(free) == 1:
                        found.append((m, v, free[0]))
        ctx.need(found, "canonicalisation expression (capitalised words) in _NameEncoder")
        for m, expr, var in found:
            bad = None
            for l in sorted(want) + [b"CONTENT-LENGTH", b"Transfer-encoding", b"x-a-b"]:
                try:
                    got = I.ev(expr, {var: l})
                except Exception as e:
                    raise AnalysisError(f"canonicalisation expression not evaluable: {src(expr)[:80]} ({e})")
                if got != _header_case(l) and bad is None:
                    bad = (l, got)
            ctx.check(bad is None, "framing/canonicalisation", ctx.construct("twisted.web.http_headers._NameEncoder." + m.name, expr),
                      f"the canonical form of {bad[0]!r} is {bad[1]!r}, not Http-Header-Case: the framing literals no longer match received names" if bad else "")


def _respond(ctx):
    f = ctx.func(HTTP, "HTTPChannel._respondToBadRequestAndDisconnect")
    g = ctx.cfg(f)
    q = QC + "_respondToBadRequestAndDisconnect"
    ws = calls_named(g, "self.transport.write", "self.transport.writeSequence")
    ctx.need(ws, "transport.write in _respondToBadRequestAndDisconnect")
    for n in ws:
        c = call_in(g.node(n).ast, "self.transport.write", "self.transport.writeSequence")
        a = c.args[0] if c.args else None
        v = a.value if isinstance(a, ast.Constant) and isinstance(a.value, bytes) else None
        ok = v is not None and v.startswith(b"HTTP/1.1 400 ") and v.endswith(b"\r\n\r\n") and v.count(b"\r\n") == 2
        ctx.check(ok, "reject/400-status-line", ctx.construct(q, c), "the bad-request response is not exactly a 400 status line followed by an empty line")
    lose = calls_named(g, "self.loseConnection", "self.transport.loseConnection", "self.transport.abortConnection")
    wit = g.must_pass([g.entry], lose, exc=False)
    ctx.check(bool(lose) and wit is None, "reject/400-then-close", q, "the 400 is sent but the connection is not closed: following bytes are still parsed",
              witness=g.describe(wit))
    wit = ordered(g, ws, lose)
    ctx.check(wit is None, "reject/400-before-close", q, "the connection is closed before the 400 is written", witness=g.describe(wit))
    f2 = ctx.func(HTTP, "HTTPChannel.loseConnection")
    g2 = ctx.cfg(f2)
    tl = calls_named(g2, "self.transport.loseConnection", "self.transport.abortConnection")
    wit = g2.must_pass([g2.entry], tl, exc=False)
    ctx.check(bool(tl) and wit is None, "reject/channel-close-reaches-transport", QC + "loseConnection",
              "HTTPChannel.loseConnection can return without closing the transport", witness=g2.describe(wit))


def _raw_data(ctx, I):
    f = ctx.func(HTTP, "HTTPChannel.rawDataReceived")
    g = ctx.cfg(f)
    q = QC + "rawDataReceived"
    sites = _respond_sites(ctx, g, q)
    dn = calls_named(g, "self._transferDecoder.dataReceived")
    ctx.need(dn, "self._transferDecoder.dataReceived call in rawDataReceived")
    p = f.args.args[1].arg
    for n in dn:
        c = call_in(g.node(n).ast, "self._transferDecoder.dataReceived")
        hs = [h for h in handlers_of(g, n) if catches(I, g.node(h).ast, "_MalformedChunkedDataError")]
        wit = None
        for h in hs:
            wit = wit or g.must_pass([h], sites, exc=False)
        ctx.check(bool(hs) and wit is None, "reject/malformed-chunk-gives-400", ctx.construct(q, c),
                  "malformed chunked data (_MalformedChunkedDataError) is not answered with 400 and a close",
                  witness=g.describe(wit) if wit else "no handler catches _MalformedChunkedDataError")
        ctx.check(len(c.args) == 1 and src(c.args[0]) == p, "framing/body-bytes-to-decoder", ctx.construct(q, c), "the decoder does not receive the delivered bytes")
    # the bytes after the body are buffered before the request is handed over
    f2 = ctx.func(HTTP, "HTTPChannel._finishRequestBody")
    g2 = ctx.cfg(f2)
    q2 = QC + "_finishRequestBody"
    p2 = f2.args.args[1].arg
    app = [n for n in calls_named(g2, "self._dataBuffer.append", "self._dataBuffer.extend")
           if src(call_in(g2.node(n).ast, "self._dataBuffer.append", "self._dataBuffer.extend").args[0]) in (p2, f"[{p2}]", f"({p2},)")]
    acr = calls_named(g2, "self.allContentReceived")
    wit = ordered(g2, app, acr)
    ctx.check(bool(app) and bool(acr) and wit is None, "framing/leftover-buffered-before-hand-over", q2,
              "the bytes following the body are not stored in _dataBuffer before allContentReceived(): they are lost or replayed out of order",
              witness=g2.describe(wit))
    wit = g2.must_pass([g2.entry], acr, exc=False)
    ctx.check(wit is None, "framing/body-end-completes-request", q2, "the end of the body does not complete the request", witness=g2.describe(wit))


def _identity_decoder(ctx):
    f = ctx.func(HTTP, "_IdentityTransferDecoder.dataReceived")
    g = ctx.cfg(f)
    q = Q + "_IdentityTransferDecoder.dataReceived"
    p = f.args.args[1].arg
    fin = [n for n in g.ids(lambda n: n.kind == "stmt") if any(isinstance(c, ast.Call) and (call_name(c) or "").endswith("finishCallback") for c in walk_local(g.node(n).ast))]
    ctx.need(fin, "finishCallback call in _IdentityTransferDecoder.dataReceived")
    want = (frozenset({(f"len({p})", 1), ("self.contentLength", -1)}), 0)
    for n in fin:
        c = next(c for c in walk_local(g.node(n).ast) if isinstance(c, ast.Call) and (call_name(c) or "").endswith("finishCallback"))
        # boundary: finish iff len(data) >= contentLength
        forms = [lincmp(g.node(t).ast, {}, negate=(lab == "F")) for t, lab in g.edge_guards(n)]
        ctx.check(want in forms, "body/identity-boundary", ctx.construct(q, c),
                  "the body is not finished exactly when len(data) >= remaining contentLength (a request whose last bytes arrive is not completed, "
                  "or is completed early)", detail="guard normal form len(data) - contentLength >= 0")
        a = c.args[0] if c.args else None
        bound = a.slice.lower if isinstance(a, ast.Subscript) and isinstance(a.slice, ast.Slice) and a.slice.upper is None and a.slice.step is None else None
        ok = bound is not None and src(a.value) == p
        bvals = [src(v) for v in resolve_local(f, bound)] if bound is not None else []
        ok = ok and bvals == ["self.contentLength"]
        if ok and isinstance(bound, ast.Name):
            defs = [d for d in g.ids(lambda m: m.kind == "stmt" and isinstance(m.ast, ast.Assign) and any(isinstance(t, ast.Name) and t.id == bound.id for t in m.ast.targets))]
            resets = [r for r in assigns_self(g, "contentLength") if g.dominates(r, n)]
            ok = all(ordered(g, defs, [r]) is None for r in resets)
        ctx.check(ok, "body/leftover-split", ctx.construct(q, c),
                  "finishCallback does not receive exactly data[contentLength:] (bytes of the next request are lost or body bytes are re-parsed as a request)")
        dcs = [m for m in g.ids(lambda m: m.kind == "stmt") if g.dominates(m, n) and any(
            isinstance(x, ast.Call) and (call_name(x) or "").endswith("dataCallback") for x in walk_local(g.node(m).ast))]
        okd = False
        for m in dcs:
            x = next(x for x in walk_local(g.node(m).ast) if isinstance(x, ast.Call) and (call_name(x) or "").endswith("dataCallback"))
            b = x.args[0] if x.args else None
            if isinstance(b, ast.Subscript) and isinstance(b.slice, ast.Slice) and b.slice.lower is None and b.slice.upper is not None and bound is not None \
                    and src(b.slice.upper) == src(bound) and src(b.value) == p:
                okd = True
        ctx.check(okd, "body/body-split", ctx.construct(q, c), "the last body piece is not exactly data[:contentLength]")
        clr = [r for r in g.ids(lambda m: m.kind == "stmt" and isinstance(m.ast, ast.Assign) and any(self_attr(t, "finishCallback") or self_attr(t, "dataCallback") for t in m.ast.targets)
                                and isinstance(m.ast.value, ast.Constant) and m.ast.value.value is None)]
        wit = ordered(g, clr, [n])
        ctx.check(bool(clr) and wit is None, "body/finish-once", ctx.construct(q, c),
                  "the decoder is not marked finished before finishCallback is called (a re-entrant delivery would finish the body twice)", witness=g.describe(wit))
    # partial delivery: counter decreases by exactly len(data)
    augs = g.ids(lambda n: n.kind == "stmt" and isinstance(n.ast, ast.AugAssign) and self_attr(n.ast.target, "contentLength"))
    ctx.check(bool(augs), "body/identity-count", q, "the remaining length is no longer decreased on a partial delivery")
    for n in augs:
        st = g.node(n).ast
        ctx.check(isinstance(st.op, ast.Sub) and src(st.value) == f"len({p})", "body/identity-count", ctx.construct(q, st),
                  "the remaining body length is not decreased by exactly len(data)")
    g0 = [t for t in g.ids(lambda n: n.kind == "test") if src(g.node(t).ast) == "self.dataCallback is None"]
    ctx.check(bool(g0), "body/finish-once", q + " | late delivery", "data delivered after the body finished is not refused")


def _reject_paths(ctx):
    """Exception escape on the reject paths: handler bodies and the rejecting helpers contain no operation that can
    raise on untrusted bytes before / instead of the 400."""
    n = 0
    for name in ("lineReceived", "headerReceived", "rawDataReceived", "_maybeChooseTransferDecoder", "_failChooseTransferDecoder", "_respondToBadRequestAndDisconnect"):
        f = ctx.func(HTTP, "HTTPChannel." + name)
        regions = [st for h in ast.walk(f) if isinstance(h, ast.ExceptHandler) for st in h.body]
        if name in ("_failChooseTransferDecoder", "_respondToBadRequestAndDisconnect"):
            regions += list(f.body)
        for st in regions:
            n += 1
            bad = risky_calls(st)
            ctx.check(not bad, "reject/reject-path-cannot-raise", ctx.construct(QC + name, st),
                      (f"on the reject path {src(bad[0])} can raise for untrusted bytes: the exception escapes dataReceived instead of the 400 being sent") if bad else "")
    ctx.floor("reject/reject-path-cannot-raise", n, 6)


def _content_reset(ctx):
    f = ctx.func(HTTP, "HTTPChannel.allContentReceived")
    g = ctx.cfg(f)
    q = QC + "allContentReceived"
    out = calls_named(g, ".requestReceived")
    ctx.need(out, "req.requestReceived(...) call-out in allContentReceived")
    for attr, pred, what in (("length", lambda v: is_const(v, 0), "0"), ("_transferDecoder", lambda v: isinstance(v, ast.Constant) and v.value is None, "None"),
                             ("__first_line", lambda v: is_const(v, 1), "1"), ("_receivedHeaderCount", lambda v: is_const(v, 0), "0"),
                             ("_receivedHeaderSize", lambda v: is_const(v, 0), "0")):
        rs = assigns_self(g, attr, pred)
        wit = ordered(g, rs, out)
        ctx.check(bool(rs) and wit is None, "framing/state-reset-before-hand-over", f"{q} | self.{attr} = {what}",
                  f"self.{attr} is not reset to {what} before the application is called: a response finished synchronously replays the next "
                  "pipelined request against the previous request's framing state", witness=g.describe(wit))
    c = call_in(g.node(out[0]).ast, ".requestReceived")
    vals = [src(v) for a in c.args for v in resolve_local(f, a)]
    ctx.check(vals == ["self._command", "self._path", "self._version"], "request-line/fields-delivered", ctx.construct(q, c),
              "requestReceived is not called with the validated (method, target, version)")


def check(ctx):
    I = http_interp(ctx)
    for name, fn in (("byte classes", lambda: _byte_classes(ctx, I)), ("request line", lambda: _request_line(ctx, I)),
                     ("header name encoder", lambda: check_name_encoder(ctx, I)), ("validator results", lambda: _result_used(ctx, I)),
                     ("lineReceived", lambda: _line_received(ctx, I)), ("headerReceived", lambda: _header_received(ctx, I)),
                     ("framing decision", lambda: _choose_decoder(ctx, I)), ("400 response", lambda: _respond(ctx)),
                     ("raw data", lambda: _raw_data(ctx, I)), ("identity decoder", lambda: _identity_decoder(ctx)),
                     ("state reset", lambda: _content_reset(ctx)), ("reject paths", lambda: _reject_paths(ctx))):
        with ctx.section(name):
            fn()


MUTANTS = [
    Mutant('token-regex-dollar-accepts-trailing-newline', ABNF, '    for c in b:\n        if c not in (\n            b"ABCDEFGHIJKLMNOPQRSTUVWXYZabcdefghijklmnopqrstuvwxyz"  # ALPHA\n            b"0123456789"  # DIGIT\n            b"!#$%&\'*+-.^_`|~"\n        ):\n            return False\n    return b != b""\n', '    return _TOKEN_RE.match(b) is not None\n', more=[(ABNF, '"""\n\n\ndef _istoken', '"""\n\nimport re\n\n_TOKEN_RE = re.compile(rb"[A-Za-z0-9!#$%&\'*+\\-.^_`|~]+$")\n\n\ndef _istoken')], expect_rule='byte-class/exact'),
    Mutant('hexdigits-regex-dollar-accepts-trailing-newline', ABNF, '    for c in b:\n        if c not in b"0123456789abcdefABCDEF":\n            return False\n    return b != b""\n', '    return _HEX_RE.match(b) is not None\n', more=[(ABNF, '"""\n\n\ndef _istoken', '"""\n\nimport re\n\n_HEX_RE = re.compile(rb"[0-9a-fA-F]+$")\n\n\ndef _istoken')], expect_rule='byte-class/hex'),
    Mutant('name-cached-by-helper-before-validation', HDRS, '        if not _istoken(bytes_name):\n            raise InvalidHeaderName(bytes_name)\n\n        result = b"-".join([word.capitalize() for word in bytes_name.split(b"-")])\n', '        result = self._remember(name, bytes_name)\n        if not _istoken(result):\n            raise InvalidHeaderName(bytes_name)\n        return result\n\n    def _remember(self, name, bytes_name):\n        result = b"-".join([word.capitalize() for word in bytes_name.split(b"-")])\n', expect_rule='header-name/cache-after-validation'),
    Mutant("F19a-revert-target-upper-bound-176", HTTP, "if c <= 32 or c > 126:", "if c <= 32 or c > 176:", expect_rule="request-line/target-byte"),
    Mutant("empty-target-accepted", HTTP, "    if request == b\"\":\n        raise ValueError(\"Empty request-target\")\n", "", expect_rule="request-line/"),
    Mutant("version-prefix-only", HTTP, "if version != b\"HTTP/1.1\" and version != b\"HTTP/1.0\":", "if not version.startswith(b\"HTTP/1.\"):",
           expect_rule="request-line/version"),
    Mutant("split-any-whitespace", HTTP, "method, request, version = line.split(b\" \")", "method, request, version = line.split()", expect_rule="request-line/structure"),
    Mutant("token-allows-colon", ABNF, "b\"!#$%&'*+-.^_`|~\"\n", "b\"!#$%&'*+-.^_`|~:\"\n", expect_rule="byte-class/exact"),
    Mutant("hexdigits-allow-empty", ABNF, "            return False\n    return b != b\"\"\n\n\ndef _hexint", "            return False\n    return True\n\n\ndef _hexint",
           expect_rule="byte-class/"),
    Mutant("size-limit-no-return", HTTP, "            self._respondToBadRequestAndDisconnect()\n            return\n\n        if self.__first_line:",
           "            self._respondToBadRequestAndDisconnect()\n\n        if self.__first_line:", expect_rule="reject/stop-after-400"),
    Mutant("bad-request-line-not-answered", HTTP, "            except ValueError:\n                self._respondToBadRequestAndDisconnect()\n                return\n",
           "            except ValueError:\n                return\n", expect_rule="request-line/invalid-gives-400"),
    Mutant("last-header-result-ignored", HTTP, "                if not ok:\n                    return\n", "", expect_rule="reject/result-used"),
    Mutant("length-falsy-completes-chunked", HTTP, "            if self.length == 0:\n                self.allContentReceived()", "            if not self.length:\n                self.allContentReceived()",
           expect_rule="framing/body-mode-from-length"),
    Mutant("stale-header-kept", HTTP, "            self.__header = b\"\"\n            self.allHeadersReceived()", "            self.allHeadersReceived()", expect_rule="headers/stale-header-cleared"),
    Mutant("nul-check-dropped", HTTP, "        if b\"\\x00\" in data:\n            self._respondToBadRequestAndDisconnect()\n            return False\n", "", expect_rule="header/nul-rejected"),
    Mutant("nul-returns-true", HTTP, "        if b\"\\x00\" in data:\n            self._respondToBadRequestAndDisconnect()\n            return False", "        if b\"\\x00\" in data:\n            self._respondToBadRequestAndDisconnect()\n            return True",
           expect_rule="reject/stop-after-400"),
    Mutant("invalid-name-tolerated", HTTP, "        except InvalidHeaderName:\n            self._respondToBadRequestAndDisconnect()\n            return False", "        except InvalidHeaderName:\n            pass",
           expect_rule="reject/handler-rejects"),
    Mutant("value-strip-all-whitespace", HTTP, "        data = data.strip(b\" \\t\")\n        if b\"\\x00\" in data:", "        data = data.strip()\n        if b\"\\x00\" in data:", expect_rule="header/ows-strip"),
    Mutant("raw-name-to-framing-decision", HTTP, "            header = _nameEncoder.encode(header)\n", "            _nameEncoder.encode(header)\n", expect_rule="header/"),
    Mutant("framing-decision-result-dropped", HTTP, "        if not self._maybeChooseTransferDecoder(header, data):\n            return False\n",
           "        self._maybeChooseTransferDecoder(header, data)\n", expect_rule="reject/result-used"),
    Mutant("content-length-lenient-digits", HTTP, "            if not data.isdigit():\n                return self._failChooseTransferDecoder()", "            if not data.strip().isdigit():\n                return self._failChooseTransferDecoder()",
           expect_rule="framing/content-length-digits"),
    Mutant("chunked-substring-match", HTTP, "            if data.lower() == b\"chunked\":", "            if b\"chunked\" in data.lower():", expect_rule="framing/transfer-coding"),
    Mutant("unknown-coding-accepted", HTTP, "                return True\n            else:\n                return self._failChooseTransferDecoder()\n        else:\n            # It's not a length",
           "                return True\n            else:\n                return True\n        else:\n            # It's not a length", expect_rule="framing/transfer-coding"),
    Mutant("conflicting-framing-last-wins", HTTP, "        if self._transferDecoder is not None:\n            return self._failChooseTransferDecoder()\n        else:\n            self.length = length",
           "        if False:\n            return self._failChooseTransferDecoder()\n        else:\n            self.length = length", expect_rule="framing/conflict-rejected"),
    Mutant("length-not-set-with-decoder", HTTP, "            self.length = length\n            self._transferDecoder = newTransferDecoder", "            self._transferDecoder = newTransferDecoder",
           expect_rule="framing/"),
    Mutant("fail-reports-success", HTTP, "        self.length = None\n        return False", "        self.length = None\n        return True", expect_rule="reject/"),
    Mutant("lowercase-framing-literal", HTTP, "        if header == b\"Content-Length\":", "        if header == b\"Content-length\":", expect_rule="framing/canonical-literal"),
    Mutant("400-without-close", HTTP, "        self.transport.write(b\"HTTP/1.1 400 Bad Request\\r\\n\\r\\n\")\n        self.loseConnection()", "        self.transport.write(b\"HTTP/1.1 400 Bad Request\\r\\n\\r\\n\")",
           expect_rule="reject/400-then-close"),
    Mutant("malformed-chunk-swallowed", HTTP, "        except _MalformedChunkedDataError:\n            self._respondToBadRequestAndDisconnect()", "        except _MalformedChunkedDataError:\n            pass",
           expect_rule="reject/malformed-chunk-gives-400"),
    Mutant("leftover-buffered-after-hand-over", HTTP, "        self._dataBuffer.append(data)\n        self.allContentReceived()", "        self.allContentReceived()\n        self._dataBuffer.append(data)",
           expect_rule="framing/leftover-buffered-before-hand-over"),
    Mutant("identity-boundary-off-by-one", HTTP, "        elif len(data) < self.contentLength:", "        elif len(data) <= self.contentLength:", expect_rule="body/identity-boundary"),
    Mutant("identity-leftover-off-by-one", HTTP, "            finishCallback(data[contentLength:])", "            finishCallback(data[contentLength + 1 :])", expect_rule="body/leftover-split"),
    Mutant("decoder-reset-after-call-out", HTTP, "        self._transferDecoder = None\n        del self._command, self._path, self._version", "        del self._command, self._path, self._version",
           more=[(HTTP, "        req.requestReceived(command, path, version)\n", "        req.requestReceived(command, path, version)\n        self._transferDecoder = None\n")],
           expect_rule="framing/state-reset-before-hand-over"),
    Mutant("content-length-hex", HTTP, "            length = int(data)\n", "            length = int(data, 16)\n", expect_rule="framing/identity-length-is-content-length"),
    Mutant("malformed-chunk-handler-narrowed", HTTP, "        except _MalformedChunkedDataError:\n            self._respondToBadRequestAndDisconnect()", "        except _DataLoss:\n            self._respondToBadRequestAndDisconnect()",
           expect_rule="reject/malformed-chunk-gives-400"),
    Mutant("header-rejected-but-reported-valid", HTTP, "        if not self._maybeChooseTransferDecoder(header, data):\n            return False", "        if not self._maybeChooseTransferDecoder(header, data):\n            return True",
           expect_rule="reject/result-used"),
    Mutant("token-first-byte-only", ABNF, "    for c in b:\n        if c not in (\n", "    for c in b[:1]:\n        if c not in (\n", expect_rule="byte-class/exact"),
    Mutant("invalid-name-logged-with-strict-decode", HTTP, "        except InvalidHeaderName:\n            self._respondToBadRequestAndDisconnect()\n            return False",
           "        except InvalidHeaderName:\n            self._log.info(\"bad header name {n}\", n=header.decode(\"ascii\"))\n            self._respondToBadRequestAndDisconnect()\n            return False",
           expect_rule="reject/reject-path-cannot-raise"),
    Mutant("name-cache-before-validation", HDRS, "        if not _istoken(bytes_name):\n            raise InvalidHeaderName(bytes_name)\n\n        result =",
           "        result =", expect_rule="header-name/"),
]
SILENT = [
    Silent('token-regex-Z-anchored', ABNF, '    for c in b:\n        if c not in (\n            b"ABCDEFGHIJKLMNOPQRSTUVWXYZabcdefghijklmnopqrstuvwxyz"  # ALPHA\n            b"0123456789"  # DIGIT\n            b"!#$%&\'*+-.^_`|~"\n        ):\n            return False\n    return b != b""\n', '    return _TOKEN_RE.match(b) is not None\n', more=[(ABNF, '"""\n\n\ndef _istoken', '"""\n\nimport re\n\n_TOKEN_RE = re.compile(rb"[A-Za-z0-9!#$%&\'*+\\-.^_`|~]+\\Z")\n\n\ndef _istoken')]),
    Silent('token-regex-fullmatch', ABNF, '    for c in b:\n        if c not in (\n            b"ABCDEFGHIJKLMNOPQRSTUVWXYZabcdefghijklmnopqrstuvwxyz"  # ALPHA\n            b"0123456789"  # DIGIT\n            b"!#$%&\'*+-.^_`|~"\n        ):\n            return False\n    return b != b""\n', '    return _TOKEN_RE.fullmatch(b) is not None\n', more=[(ABNF, '"""\n\n\ndef _istoken', '"""\n\nimport re\n\n_TOKEN_RE = re.compile(rb"[A-Za-z0-9!#$%&\'*+\\-.^_`|~]+")\n\n\ndef _istoken')]),
    Silent('token-frozenset-all', ABNF, '    for c in b:\n        if c not in (\n            b"ABCDEFGHIJKLMNOPQRSTUVWXYZabcdefghijklmnopqrstuvwxyz"  # ALPHA\n            b"0123456789"  # DIGIT\n            b"!#$%&\'*+-.^_`|~"\n        ):\n            return False\n    return b != b""\n', '    return b != b"" and all(c in _TCHARS for c in b)\n', more=[(ABNF, '"""\n\n\ndef _istoken', '"""\n\n_TCHARS = frozenset(b"ABCDEFGHIJKLMNOPQRSTUVWXYZabcdefghijklmnopqrstuvwxyz0123456789!#$%&\'*+-.^_`|~")\n\n\ndef _istoken')]),
    Silent('hexdigits-regex-fullmatch', ABNF, '    for c in b:\n        if c not in b"0123456789abcdefABCDEF":\n            return False\n    return b != b""\n', '    return _HEX_RE.fullmatch(b) is not None\n', more=[(ABNF, '"""\n\n\ndef _istoken', '"""\n\nimport re\n\n_HEX_RE = re.compile(rb"[0-9a-fA-F]+")\n\n\ndef _istoken')]),
    Silent('name-cached-by-helper-after-validation', HDRS, '        if not _istoken(bytes_name):\n            raise InvalidHeaderName(bytes_name)\n\n        result = b"-".join([word.capitalize() for word in bytes_name.split(b"-")])\n', '        if not _istoken(bytes_name):\n            raise InvalidHeaderName(bytes_name)\n        return self._remember(name, bytes_name)\n\n    def _remember(self, name, bytes_name):\n        result = b"-".join([word.capitalize() for word in bytes_name.split(b"-")])\n'),
    Silent("invalid-name-logged-with-repr", HTTP, "        except InvalidHeaderName:\n            self._respondToBadRequestAndDisconnect()\n            return False",
           "        except InvalidHeaderName:\n            self._respondToBadRequestAndDisconnect()\n            self._log.info(\"bad header name {n!r}\", n=header)\n            return False", allow_error=False),
    Silent("target-bounds-rewritten", HTTP, "if c <= 32 or c > 126:", "if c < 33 or c >= 127:"),
    Silent("target-lower-bound-space-unreachable", HTTP, "if c <= 32 or c > 126:", "if c < 32 or c > 126:"),
    Silent("version-membership", HTTP, "if version != b\"HTTP/1.1\" and version != b\"HTTP/1.0\":", "if version not in (b\"HTTP/1.1\", b\"HTTP/1.0\"):"),
    Silent("empty-target-not", HTTP, "    if request == b\"\":\n        raise ValueError(\"Empty request-target\")", "    if not request:\n        raise ValueError(\"Empty request-target\")"),
    Silent("nul-check-find", HTTP, "        if b\"\\x00\" in data:\n            self._respondToBadRequestAndDisconnect()", "        if data.find(b\"\\x00\") != -1:\n            self._respondToBadRequestAndDisconnect()"),
    Silent("rename-ok", HTTP, "                ok = self.headerReceived(self.__header)\n                # If the last header we got is invalid, we MUST NOT proceed\n                # with processing. We'll have sent a 400 anyway, so just stop.\n                if not ok:\n                    return",
           "                valid = self.headerReceived(self.__header)\n                if not valid:\n                    return"),
    Silent("test-call-directly", HTTP, "                ok = self.headerReceived(self.__header)\n                # If the last header we got is invalid, we MUST NOT proceed\n                # with processing. We'll have sent a 400 anyway, so just stop.\n                if not ok:\n                    return",
           "                if not self.headerReceived(self.__header):\n                    return"),
    Silent("body-mode-branches-swapped", HTTP, "            if self.length == 0:\n                self.allContentReceived()\n            else:\n                self.setRawMode()",
           "            if self.length != 0:\n                self.setRawMode()\n            else:\n                self.allContentReceived()"),
    Silent("conflict-test-inverted", HTTP, "        if self._transferDecoder is not None:\n            return self._failChooseTransferDecoder()\n        else:\n            self.length = length\n            self._transferDecoder = newTransferDecoder\n            return True",
           "        if self._transferDecoder is None:\n            self._transferDecoder = newTransferDecoder\n            self.length = length\n            return True\n        return self._failChooseTransferDecoder()"),
    Silent("coding-lowered-once", HTTP, "            if data.lower() == b\"chunked\":\n                length = None", "            coding = data.lower()\n            if coding == b\"chunked\":\n                length = None",
           more=[(HTTP, "            elif data.lower() == b\"identity\":", "            elif coding == b\"identity\":")]),
    Silent("identity-boundary-rewritten", HTTP, "        elif len(data) < self.contentLength:", "        elif not len(data) >= self.contentLength:"),
    Silent("reset-order", HTTP, "        self.length = 0\n        self._receivedHeaderCount = 0\n        self._receivedHeaderSize = 0\n        self.__first_line = 1\n        self._transferDecoder = None\n",
           "        self._transferDecoder = None\n        self.__first_line = 1\n        self._receivedHeaderSize = 0\n        self._receivedHeaderCount = 0\n        self.length = 0\n"),
]
