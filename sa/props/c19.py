"""C19 - HTTP/1.1 server framing follows RFC 9112 (no request smuggling)."""
from __future__ import annotations

import ast

from sa.astx import assigned_targets, call_attr, call_name, dotted, lincmp, src, statements, walk_local
from sa.domains import HEXDIG, TCHAR, VCHAR, fmt_set
from sa.effects import class_accesses
from sa.selftest import Mutant, Silent
from sa.source import AnalysisError, class_assigns
from sa.props._lib_e_machine import PyRaise, exc_name
from sa.props._lib_e_http import Harness, check_name_encoder_behaviour
from sa.props._lib_e_struct import (c19_fold_clause, c19_bad_request_helper, c19_framing_decision, c19_identity_decoder, c19_int_provenance, c19_reject_discipline, structural)
from sa.props._lib_e import (Unknown, assigns_self, call_in, calls_named, catches, check_hex_validators, check_name_encoder, check_token_validator, falsy_until_exit,
                             handlers_of, http_interp, is_const, is_falsy_return, local_values, make_env, only_nodes_until_exit,
                             ordered, resolve_local, risky_calls, self_attr, site_label, walk)

PROPERTY = "C19"
INCLUDE = [("C22", None, "the server decodes chunked request bodies with http._ChunkedTransferDecoder: 'exactly the body RFC 9112 assigns to it (... chunked coding)' and "
            "'malformed chunks ... answered with 400' need every clause of C22 about that decoder (strict size line, exact CRLF after chunk data, absorbing rejection, "
            "errors raised as _MalformedChunkedDataError, which C19's own mustpass/ rules then follow to the 400)")]
HTTP = "web/http.py"
ABNF = "web/_abnf.py"
HDRS = "web/http_headers.py"
Q = "twisted.web.http."
QC = Q + "HTTPChannel."
RESPOND = "self._respondToBadRequestAndDisconnect"
FAIL = "self._failChooseTransferDecoder"
CHOOSE = "self._maybeChooseTransferDecoder"

TECHNIQUE = 'finite-exhaustive validators + guard valuations; CFG must-pass/provenance on inlined view; bounded interpreted streams'
EXPLANATION = (
    'Structural and finite-exhaustive rules run on a normalised view (private helpers inlined at their call sites, temporaries followed by partial evaluati'
    'on, guard clauses read through the CFG) and abstain with a note when a shape is not recognised; the bounded layer (source interpreted by an AST interp'
    'reter with model collaborators, compared with an oracle) covers every clause a second time and is the only evidence where stated. FINITE-EXHAUSTIVE: _'
    'istoken/_ishexdigits/_hexint/_parseRequestLine over all 256 byte values in every position class plus idiom pitfalls (byte-class/, request-line/); the '
    'framing decision of _maybeChooseTransferDecoder under every valuation of its guards - header in {Content-Length, Transfer-Encoding, other} x value cla'
    'ss (1*DIGIT or not; chunked / identity / other coding) x decoder already chosen or not (decision/): non-digit lengths, unknown codings, repeated or co'
    'nflicting framing headers fail; identity decoder over every ordering of len(data) vs contentLength (ordering/); a whitespace-preceded line with no hea'
    'der pending never becomes a header of its own - partial evaluation of the inlined lineReceived for leading SP / HTAB / mixed whitespace (fold/). STRUC'
    'TURAL: int() on header data dominated by the digit test, length/decoder/callbacks installed together from the validated value (provenance/); every 400'
    " site is followed only by falsy returns, every validating method's result is used (F19b = the one dropped result, known), decoder errors reach a 400, "
    'the 400 helper writes the status line then closes (mustpass/); the name-encoder cache is filled and read only behind _istoken (header-name/); handler '
    'bodies cannot raise on untrusted bytes (reject/reject-path-cannot-raise). BOUNDED ONLY: agreement of the delivered requests with the reference decisio'
    'n on generated header blocks and deliveries (framing/), nothing processed after a 400 on a transport that keeps delivering (reject/nothing-processed-a'
    "fter-400), presence of each individual syntax check in headerReceived (colon, NUL, OWS) - a structural decider for 'a check is present' would have to "
    'pin the shape. obs-fold positions (continuation of a header, lone continuation after the request line) are part of the generated grammar. Not decided:'
    ' agreement with an independent parser beyond the generated grammar.'
)
ASSUMPTIONS = [
    'CPython semantics for the builtin values the interpreter delegates to (bytes, int, list, dict, re on constant patterns)',
    'the model transport delivers what it is given; LineReceiver/TimeoutMixin are interpreted from protocols/basic.py and policies.py',
    'parse_qs / content file / zope interface checks are stubbed (outside the property)',
]


def _first(items):
    return items[0] if items else None


# ------------------------------------------------------------------------------------------------------
def _byte_classes(ctx, I):
    check_token_validator(ctx, I)
    check_hex_validators(ctx, I)


def _ref_request_line(line: bytes):
    parts = line.split(b" ")
    if len(parts) != 3:
        return None
    m, t, v = parts
    if not m or any(c not in TCHAR for c in m):
        return None
    if not t or any(c not in VCHAR for c in t):
        return None
    if v not in (b"HTTP/1.1", b"HTTP/1.0"):
        return None
    return (m, t, v)


def _request_line(ctx, I):
    f = ctx.func(HTTP, "_parseRequestLine")
    q = Q + "_parseRequestLine"
    singles = [bytes([v]) for v in range(256)]
    fam = {
        "target-byte": [b"GET /" + s + b"x HTTP/1.1" for s in singles] + [b"GET " + s + b" HTTP/1.1" for s in singles]
                       + [b"GET /x" + s + b" HTTP/1.0" for s in singles],
        "method-byte": [b"G" + s + b"T / HTTP/1.1" for s in singles] + [s + b" / HTTP/1.1" for s in singles],
        "version": [b"GET / HTTP/1." + s for s in singles] + [b"GET / " + v for v in (
            b"HTTP/1.1", b"HTTP/1.0", b"HTTP/1.2", b"HTTP/2.0", b"HTTP/0.9", b"http/1.1", b"HTTP/1.1\r", b"HTTP/11", b"HTTP/1.10",
            b"HTTP/1", b"", b"HTTP/1.1x", b"xHTTP/1.1", b"HTTP/1.01", b"HTTP/01.1")],
        "structure": [b"GET / HTTP/1.1", b"GET  / HTTP/1.1", b"GET / HTTP/1.1 ", b" GET / HTTP/1.1", b"GET /", b"GET", b"",
                      b"GET\t/\tHTTP/1.1", b"GET /\tHTTP/1.1", b"GET  HTTP/1.1", b" / HTTP/1.1", b"GET / a HTTP/1.1",
                      b"GET /a b HTTP/1.1", b"OPTIONS * HTTP/1.1", b"CONNECT a:1 HTTP/1.1", b"get /%20?x=y#z HTTP/1.0",
                      b"GET\r/ HTTP/1.1", b"GET /\n HTTP/1.1", b"GET / HTTP/1.1\n", b"GET /\x00 HTTP/1.1", b"GET\n / HTTP/1.1", b"GET\r\n / HTTP/1.1",
                      b"GET\x00 / HTTP/1.1", b"GET / HTTP/1.1\r\n", b"GET /\r\n HTTP/1.1", b"\nGET / HTTP/1.1", b"GET / HTTP/1.0\n"],
    }
    for name, dom in fam.items():
        bad = None
        for line in dom:
            kind, val = I.outcome(f, [line])
            want = _ref_request_line(line)
            if want is None:
                ok = kind == "raise" and I.is_sub(val, "ValueError")
            else:
                ok = kind == "ok" and tuple(val) == want
            if not ok and bad is None:
                bad = (line, kind, val, want)
        ctx.check(bad is None, "request-line/" + name, q,
                  (f"_parseRequestLine({bad[0]!r}) gives {bad[1]} {bad[2]!r}; RFC 9112 3 (method=token SP target=1*VCHAR SP HTTP/1.0|1.1) "
                   f"requires {'ValueError' if bad[3] is None else bad[3]}") if bad else "",
                  detail=f"{len(dom)} lines agree with the RFC 9112 reference decision")


# ---- behaviour of the channel, by interpretation ------------------------------------------------------------------------
BAD_REQUEST = b"HTTP/1.1 400 Bad Request\r\n\r\n"
NEXT = b"POST /next HTTP/1.1\r\nHost: y\r\nContent-Length: 2\r\n\r\nhi"


def _unfold(lines):
    """obs-fold: continuation lines joined to the previous header line with one space; returns (lines, lone) where lone lists the
    whitespace-preceded lines that follow the request line directly."""
    out, lone = [lines[0]], []
    for ln in lines[1:]:
        if ln[:1] in (b" ", b"\t"):
            if len(out) == 1:
                lone.append(ln)
            else:
                out[-1] = out[-1] + b" " + ln.lstrip(b" \t")
        else:
            out.append(ln)
    return out, lone


def _ref_block(lines, max_headers=500, max_size=16384):
    """Reference decision for a header block (request line + header lines, no obs-fold), RFC 9112 3/5/6 plus the statement of
    the property: None = must be answered with 400; else (method, target, version, headers[(lower name, value)], framing)."""
    rl = _ref_request_line(lines[0])
    if rl is None:
        return None
    if sum(len(x) for x in lines) > max_size or len(lines) - 1 > max_headers:
        return None
    headers = []
    cl, te = [], []
    for ln in lines[1:]:
        name, sep, value = ln.partition(b":")
        if not sep or not name or any(c not in TCHAR for c in name):
            return None
        value = value.strip(b" \t")
        if b"\x00" in value:
            return None
        low = name.lower()
        headers.append((low, value))
        if low == b"content-length":
            if not value or any(c not in b"0123456789" for c in value) or cl or te:
                return None
            cl.append(int(value))
        elif low == b"transfer-encoding":
            v = value.lower()
            if v == b"identity":
                continue
            if v != b"chunked" or cl or te:
                return None
            te.append(v)
    framing = ("chunked",) if te else (("length", cl[0]) if cl else ("none",))
    return rl + (headers, framing)


def _chunked(parts, trailer=b""):
    return b"".join(b"%x;e=1\r\n" % len(p) + p + b"\r\n" for p in parts) + b"0\r\n" + trailer + b"\r\n"


def _blocks(tier):
    """(family, lines) - grammar-based header blocks around the framing headers."""
    out = []
    rl = b"POST /x?q=1 HTTP/1.1"
    host = [b"Host: a"]
    for v in (b"3", b"0", b"007", b"10", b"12", b"", b"+3", b"-3", b"0x3", b"3,3", b"3, 3", b"3\x0b", b"\x0c3", b"1_0", b"\xd9\xa5", b"3.0", b"1e1", b"\xb2", b"3\r", b"3\n", b"a", b"3;q", b"3 3"):
        out.append(("content-length-value", [rl] + host + [b"Content-Length: " + v]))
    for v in (b"chunked", b"Chunked", b"CHUNKED", b"gzip, chunked", b"chunked, gzip", b"xchunked", b"chunkedx", b"chunked;q=1", b"\x0bchunked", b"chunked\n", b"identity", b"Identity",
              b"gzip", b"", b"identity, chunked", b"deflate", b"chunked,chunked"):
        out.append(("transfer-coding", [rl] + host + [b"Transfer-Encoding: " + v]))
    # RFC 9110 8.6: a recipient must anticipate very large decimal numerals and prevent parsing errors due to integer conversion: such a
    # length may be refused (400) or accepted, but it must not make an exception escape the channel
    for digits in (4300, 4301, 5000):
        out.append(("content-length-huge", [rl] + host + [b"Content-Length: " + b"1" * digits]))
    cl3, cl4, te = b"Content-Length: 3", b"Content-Length: 4", b"Transfer-Encoding: chunked"
    for combo in ([cl3, cl3], [cl3, cl4], [cl3, te], [te, cl3], [te, te], [b"Transfer-Encoding: identity", cl3], [cl3, b"Transfer-Encoding: identity"], [te, b"Transfer-Encoding: identity"],
                  [b"Transfer-Encoding: gzip", te], [cl3, b"X-A: 1", cl3], [cl3, b"X-A: 1", te]):
        for pos in ("first", "middle", "last"):
            others = [b"X-B: 2", b"Accept: */*"]
            lines = {"first": combo + others, "middle": others[:1] + combo + others[1:], "last": others + combo}[pos]
            out.append(("conflicting-framing", [rl] + host + lines))
    for name in (b"content-length", b"CONTENT-LENGTH", b"Content-length", b"cOnTeNt-LeNgTh"):
        out.append(("header-name-case", [rl] + host + [name + b": 3"]))
    for name in (b"transfer-encoding", b"TRANSFER-ENCODING", b"Transfer-encoding"):
        out.append(("header-name-case", [rl] + host + [name + b": chunked"]))
    for ln in (b"Content-Length:3", b"Content-Length:   3  ", b"Content-Length:\t3\t", b"Transfer-Encoding:chunked", b"Transfer-Encoding: \t chunked \t"):
        out.append(("optional-whitespace", [rl] + host + [ln]))
    bad_lines = [b"NoColonHere", b"Bad Name: 1", b": empty-name", b"X: a\x00b", b"X\x00: 1", b"X-Foo\n: v", b"X-Foo\r: v", b"Content-Length : 3", b"Content-Length\t: 3",
                 b"X(y): 1", b"\x80: 1", b"Transfer-Encoding : chunked", b"X-Foo\n\n: v"]
    for ln in bad_lines:
        for pos in ("first", "middle", "last"):
            others = [b"X-B: 2", b"Accept: */*"]
            lines = {"first": [ln] + others, "middle": others[:1] + [ln] + others[1:], "last": others + [ln]}[pos]
            out.append(("invalid-header-line", [rl] + host + lines + ([] if pos == "last" else [])))
    for r in (b"GET /x HTTP/1.1", b"GET  /x HTTP/1.1", b"GET /x HTTP/1.2", b"G@T /x HTTP/1.1", b"GET /\x7f HTTP/1.1", b"GET /\xb0 HTTP/1.1", b"GET /x", b"GET /x HTTP/1.1 ", b"GET\n /x HTTP/1.1",
              b"GET /x HTTP/1.0", b"OPTIONS * HTTP/1.1", b"GET /x\tHTTP/1.1", b"/x HTTP/1.1"):
        out.append(("request-line", [r] + host))
    # obs-fold (RFC 9112 5.2 / 2.2): a line starting with SP / HTAB continues the previous header line; directly after the request line there is
    # nothing to continue: the message must be rejected or the line ignored - it must never become a header of its own
    for ln in (b" Content-Length: 3", b"\tTransfer-Encoding: chunked", b"  X-Lone: 1", b" Content-Length: 3 ", b"\t \tContent-Length: 3"):
        out.append(("fold-after-request-line", [rl, ln] + host))
        out.append(("fold-after-request-line", [rl, ln]))
    out.append(("fold-continues-header", [rl] + host + [b"X-Fold: a", b"  b", b"\tc"]))
    out.append(("fold-continues-header", [rl] + host + [b"Content-Length:", b" 3"]))
    out.append(("fold-continues-header", [rl] + host + [b"X-A: 1", b" Content-Length: 3"]))
    out.append(("fold-continues-header", [rl] + host + [b"Transfer-Encoding:", b"\tchunked", b"X-B: 2"]))
    out.append(("no-framing-headers", [rl] + host + [b"X-A: 1", b"X-A: 2", b"Accept: a:b:c", b"X-Empty:"]))
    if tier != "quick":
        out.append(("limits", [rl] + host + [b"X-%d: v" % i for i in range(499)]))
        out.append(("limits", [rl] + host + [b"X-%d: v" % i for i in range(500)]))
    out.append(("limits", [rl] + host + [b"X-Big: " + b"v" * 16300]))
    out.append(("limits", [rl] + host + [b"X-Big: " + b"v" * 9000, b"X-Big2: " + b"v" * 9000]))
    for body in (b"g\r\nabc\r\n0\r\n\r\n", b"3\r\nabcXX0\r\n\r\n", b"3;\x00\r\nabc\r\n0\r\n\r\n", b"+3\r\nabc\r\n0\r\n\r\n", b"3\n\r\nabc\r\n0\r\n\r\n", b"\xe9\r\nabc\r\n0\r\n\r\n"):
        out.append(("malformed-chunked-body", [rl] + host + [te, b"X-Body: " + body.hex().encode()]))
    if tier == "quick":
        seen = {}
        red = []
        for fam, lines in out:
            i = seen[fam] = seen.get(fam, 0) + 1
            # positions come in triples (first, middle, last): keep one per triple, rotating, and every 'last' of the first two triples
            if fam in ("conflicting-framing", "invalid-header-line") and not ((i - 1) % 3 == ((i - 1) // 3) % 3 or ((i - 1) % 3 == 2 and i <= 6)):
                continue
            red.append((fam, lines))
        out = red
    return out


def _body_for(framing):
    if framing[0] == "length":
        return (b"abcdefgh" * 2)[: framing[1]], (b"abcdefgh" * 2)[: framing[1]]
    if framing[0] == "chunked":
        return _chunked([b"he\r\n", b"llo"], b"X-T: 1\r\n"), b"he\r\nllo"
    return b"", b""


def _same_request(info, want, body):
    if info is None:
        return False
    m, t, v, headers, framing = want
    hs = info["headers"] or {}
    got = sorted((k.lower(), x) for k, vs in hs.items() for x in vs)
    return info["method"] == m and info["uri"] == t and info["version"] == v and (info["body"] or b"") == body and got == sorted(headers)


def _framing(ctx, H):
    q = QC + "dataReceived"
    tier = ctx.tier
    fams = {}
    for fam, lines in _blocks(tier):
        fams.setdefault(fam, []).append(lines)

    def answer_now(mm, req):
        H.call(req, "write", b"ok")
        H.call(req, "finish")

    for fam, blocks in fams.items():
        bad = None
        n = 0
        for lines in blocks:
            unfolded, lone = _unfold(lines)
            huge = fam == "content-length-huge"
            want = None if huge else _ref_block(unfolded)
            alt_reject = bool(lone) or huge    # RFC 9112 2.2: reject the message, or consume the lone whitespace-preceded lines without processing them
            block = b"\r\n".join(lines) + b"\r\n\r\n"
            if fam == "malformed-chunked-body":
                want, (wire_body, body) = None, (bytes.fromhex(lines[-1].split(b": ")[1].decode()), b"")
            elif huge:
                wire_body, body = b"", b""
            elif want:
                wire_body, body = _body_for(want[4])
            else:
                lowered = block.lower()
                wire_body, body = (_chunked([b"abc"]), b"") if b"chunked" in lowered else ((b"abc", b"") if b"content-length" in lowered else (b"", b""))
            stream = block + wire_body + NEXT
            cut = len(block) + len(wire_body) // 2
            deliveries = [("whole", [stream])]
            if fam != "limits" and (tier != "quick" or wire_body):
                deliveries.append(("split after body", [stream[:len(block) + len(wire_body)], stream[len(block) + len(wire_body):]]))
            if fam != "limits" and (tier != "quick" or (wire_body and n % 3 == 0)):
                deliveries.append(("split in body", [stream[:cut], stream[cut:]]))
            if fam != "limits" and (tier != "quick" or n % 7 == 0):
                deliveries.append(("split in headers", [stream[:len(block) // 2], stream[len(block) // 2:]]))
                deliveries.append(("line by line", [x + b"\r\n" for x in block[:-2].split(b"\r\n")] + [wire_body + NEXT]))
            n += 1
            for how, pieces in deliveries:
                def scen(H, pieces=pieces):
                    ch = H.channel(process=answer_now)
                    esc = None
                    counts = []
                    for p in pieces:
                        if H.transport.attrs["disconnecting"]:
                            break              # a transport that stops delivering once closed
                        try:
                            H.feed(ch, p)
                        except PyRaise as e:
                            esc = exc_name(e.exc)
                            break
                        counts.append(len(H.seen))
                    return list(H.seen), H.wire(), H.transport.attrs["disconnecting"], esc, counts
                o = H.run(scen)
                if o.kind != "ok":
                    bad = (lines, how, f"{o.kind} {o.exc_name}")
                    break
                seen, wire, closed, esc, counts = o.value
                if alt_reject and seen == [] and wire == BAD_REQUEST and closed and esc is None:
                    continue
                if huge and seen == [] and wire == b"" and esc is None and not closed:
                    continue                    # accepted: the channel waits for a body of that length
                if want is None:
                    ok = seen == [] and wire == BAD_REQUEST and closed and esc is None
                    exp = "400 Bad Request, connection closed, nothing handed to the application"
                elif want[2] == b"HTTP/1.0":
                    ok = len(seen) == 1 and _same_request(seen[0], want, body) and closed and esc is None and b" 400 " not in wire[:16]
                    exp = f"request {want[0]!r} {want[1]!r} with body {body!r}, then the (non-persistent) connection closed"
                else:
                    ok = len(seen) == 2 and _same_request(seen[0], want, body) and (seen[1]["method"], seen[1]["uri"], seen[1]["body"]) == (b"POST", b"/next", b"hi") \
                        and not wire.startswith(b"HTTP/1.1 400") and esc is None and not closed and (how != "split after body" or counts[:1] == [1])
                    exp = f"request {want[0]!r} {want[1]!r} with body {body!r} and framing {want[4]}, then the pipelined POST /next (body b'hi') as a separate request, the first one handed over as soon as its last body byte arrived (handed-over counts per delivery {counts})"
                if not ok:
                    got = [(i["method"], i["uri"], i["body"], sorted((i["headers"] or {}).items())[:4]) for i in seen]
                    bad = (lines, how, f"handed over {got!r}, wire starts {wire[:40]!r}, closed={closed}, escaped exception {esc}; expected {exp}")
                    break
            if bad:
                break
        ctx.check(bad is None, "framing/" + fam, f"{q} | {fam}",
                  (f"header block {[bytes(x)[:40] for x in bad[0]][:6]!r} delivered {bad[1]}: {bad[2]}") if bad else "",
                  detail=f"{len(blocks)} header blocks x deliveries agree with the RFC 9112 reference decision (400 + close + nothing processed, or the exact body and the next request intact)")


def _after_400(ctx, H):
    """'...answered with 400 and nothing after it is processed' on a transport that keeps delivering after loseConnection
    (TLS until close_notify, in-memory transports): every following byte is delivered, line by line."""
    q = QC + "dataReceived | 400, transport keeps delivering"
    rl = b"POST /x HTTP/1.1"
    tail = [b"X-Later: 1", b"", b"0\r\n\r\nabc", b"GET /next HTTP/1.1", b"Host: y", b"", b""]
    conflict = [rl, b"Host: a", b"Content-Length: 5", b"Transfer-Encoding: chunked"]
    cases = {
        "the last header line is rejected, then the empty line and body bytes": [conflict, [rl, b"Host: a", b"Bad Name: 1"], [rl, b"NoColon"], [rl, b"Content-Length: +5"],
                                                                                 [rl, b"Content-Length: 5", b"Content-Length: 5"], [rl, b"X: a\x00b"]],
        "a header line is rejected": [conflict + [b"X: y"], [rl, b"Host: a", b"Bad Name: 1", b"X: y"], [rl, b"Content-Length: 3", b"Content-Length: 3", b"X: y"], [rl, b"NoColon", b"X: y"]],
        "the request line is rejected": [[b"GET /\x7f HTTP/1.1", b"Host: a"], [b"GET / HTTP/9.9", b"Host: a"]],
        "a chunk of the body is malformed": [[rl, b"Host: a", b"Transfer-Encoding: chunked", b"", b"BODY:" + x] for x in (b"g\r\n", b"3;\x00\r\n", b"+3\r\n", b"0x0\r\n", b"3\r\nabcXX", b"2\r\nab\r\n \r\n")],
        "the trailer section is too long": [[rl, b"Host: a", b"Transfer-Encoding: chunked", b"", b"BODY:3\r\nabc\r\n0\r\n" + (b"X-T: " + b"v" * 1000 + b"\r\n") * 66]],
        "the header block is too large": [[rl] + [b"X-Big: " + b"v" * 9000] * 2],
    }
    for label, blocks in cases.items():
        bad = None
        for lines in blocks:
            if any(x.startswith(b"BODY:") for x in lines):
                pieces = [x + b"\r\n" for x in lines[:-1]] + [lines[-1][5:], b"0\r\n\r\n", b"\r\n", b"GET /next HTTP/1.1\r\nHost: y\r\n\r\n"]
            elif label.startswith("the last header line"):
                pieces = [x + b"\r\n" for x in lines] + [b"\r\n", b"abcde", b"fgh"]
            else:
                follow = [b""] + tail
                pieces = [x + b"\r\n" for x in lines] + [x + b"\r\n" if not x.endswith(b"abc") else x for x in follow]

            def scen(H, pieces=pieces):
                ch = H.channel(process=lambda mm, req: (H.call(req, "write", b"ok"), H.call(req, "finish")))
                escaped = []
                for p in pieces:
                    try:
                        H.feed(ch, p)
                    except PyRaise as e:
                        escaped.append(exc_name(e.exc))
                        break            # an exception escaping dataReceived makes the transport drop the connection
                return list(H.seen), H.wire(strict=False), H.transport.attrs["disconnecting"], escaped
            outs = H.run(scen, single=False, max_paths=64)
            for o in outs:
                if len(outs) > 1 and (o.kind != "ok" or not (o.value[0] == [] and o.value[1].startswith(BAD_REQUEST) and o.value[2] and b"200" not in o.value[1])):
                    # several paths = some branch depended on a value the interpreter does not know: a failing path among them is not a
                    # positive finding about the code
                    raise AnalysisError(f"after-400 scenario for {[bytes(x)[:30] for x in lines][:3]} depends on a value the interpreter does not know ({len(outs)} paths)")
                if o.kind != "ok":
                    bad = (lines, f"{o.kind} {o.exc_name}")
                    break
                seen, wire, closed, escaped = o.value
                if not (seen == [] and wire.startswith(BAD_REQUEST) and closed and b"200" not in wire):
                    bad = (lines, f"handed over {[(i['method'], i['uri'], i['body']) for i in seen]!r}, wire {wire[:80]!r}")
                    break
            if bad:
                break
        ctx.check(bad is None, "reject/nothing-processed-after-400", f"{Q}HTTPChannel | {label}, transport keeps delivering after loseConnection",
                  (f"header block {[bytes(x)[:40] for x in bad[0]]!r} is answered with 400, but with the following bytes still delivered: {bad[1]} - the rejected request reaches the "
                   "application / is answered (the result of the header validation is not honoured for the rest of the header block)") if bad else "")


def _reject_paths(ctx):
    """Exception escape on the reject paths: handler bodies of the channel contain no operation that can raise on untrusted
    bytes before / instead of the 400."""
    cls = ctx.cls(HTTP, "HTTPChannel")
    n = 0
    for f in [x for x in cls.body if isinstance(x, (ast.FunctionDef, ast.AsyncFunctionDef))]:
        for h in [x for x in ast.walk(f) if isinstance(x, ast.ExceptHandler)]:
            for st in h.body:
                n += 1
                bad = risky_calls(st)
                ctx.check(not bad, "reject/reject-path-cannot-raise", ctx.construct(QC + f.name, st),
                          (f"in an exception handler {src(bad[0])} can raise for untrusted bytes: the exception escapes dataReceived instead of the 400 being sent") if bad else "")
    ctx.floor("reject/reject-path-cannot-raise", n, 3)


RULE_KINDS = {
    "byte-class/": "finite-exhaustive",     # validators evaluated over all 256 byte values in every position class + idiom pitfalls
    "request-line/": "finite-exhaustive",   # every byte value in method / target / version position + structural line forms
    "decision/": "finite-exhaustive",       # _maybeChooseTransferDecoder under every valuation of its guards (header class x value class x decoder present)
    "ordering/": "finite-exhaustive",
    "fold/": "finite-exhaustive",           # lone continuation line: every valuation of lineReceived's guards for SP / HTAB / mixed leading whitespace       # identity decoder: every ordering of len(data) vs contentLength
    "mustpass/": "structural",              # must-pass-through / dominance on the inlined CFGs
    "provenance/": "structural",            # def-use / provenance of length, decoder, callbacks, int() argument
    "header-name/cache": "structural", "header-name/validated": "structural", "header-name/invalid-raises": "structural",
    "reject/reject-path-cannot-raise": "structural",
    "header-name/invalid-refused-every-time": "bounded", "header-name/canonical-form": "bounded",
    "framing/": "bounded", "reject/nothing-processed-after-400": "bounded",
}


def check(ctx):
    I = http_interp(ctx)
    with ctx.section("byte classes"):
        _byte_classes(ctx, I)
    with ctx.section("request line"):
        _request_line(ctx, I)
    structural(ctx, "C19 framing decision over all guard valuations", lambda s: c19_framing_decision(s, I), "framing/content-length-value, framing/transfer-coding, framing/conflicting-framing (bounded)")
    structural(ctx, "C19 int() provenance", lambda s: c19_int_provenance(s, I), "framing/content-length-value (bounded)")
    structural(ctx, "C19 reject discipline (400 and stop, results used, decoder errors)", lambda s: c19_reject_discipline(s, I), "framing/* and reject/nothing-processed-after-400 (bounded)")
    structural(ctx, "C19 lone continuation line", lambda s: c19_fold_clause(s, I), "framing/fold-after-request-line (bounded)")
    structural(ctx, "C19 400 helper", lambda s: c19_bad_request_helper(s), "framing/* (bounded)")
    structural(ctx, "C19 identity decoder orderings", lambda s: c19_identity_decoder(s, ctx), "framing/* split deliveries (bounded)")
    structural(ctx, "C19 header-name encoder cache discipline", lambda s: check_name_encoder(s, I), "header-name/invalid-refused-every-time (bounded)")
    H = Harness(ctx)
    with ctx.section("header name encoder"):
        check_name_encoder_behaviour(ctx, H)
    with ctx.section("framing"):
        _framing(ctx, H)
    with ctx.section("after a 400"):
        _after_400(ctx, H)
    with ctx.section("reject paths"):
        _reject_paths(ctx)


MUTANTS = [
    Mutant("class-level-table-entry-accepts-instead-of-rejecting", HTTP, '    def _maybeChooseTransferDecoder(self, header, data):\n',
           '    _onFramingError = {"reject": lambda self: True}\n\n    def _maybeChooseTransferDecoder(self, header, data):\n', more=[(HTTP, '            if not data.isdigit():\n                return self._failChooseTransferDecoder()\n', '            if not data.isdigit():\n                return self._onFramingError["reject"](self)\n')]),
    Mutant("F22t-revert-oversized-trailers-not-absorbing", HTTP, '            receivedSize = self._receivedTrailerHeadersSize + eolIndex + 2\n            if receivedSize > self._maxTrailerHeadersSize:\n                raise _MalformedChunkedDataError("Trailer headers data is too long.")\n            self._trailerHeaders.append(self._buffer[0:eolIndex])\n            del self._buffer[0 : eolIndex + 2]\n            self._start = 0\n            self._receivedTrailerHeadersSize = receivedSize\n',
           '            self._trailerHeaders.append(self._buffer[0:eolIndex])\n            del self._buffer[0 : eolIndex + 2]\n            self._start = 0\n            self._receivedTrailerHeadersSize += eolIndex + 2\n            if self._receivedTrailerHeadersSize > self._maxTrailerHeadersSize:\n                raise _MalformedChunkedDataError("Trailer headers data is too long.")\n', expect_rule="reject/nothing-processed-after-400"),
    Mutant("F19h-revert-huge-content-length-escapes", HTTP, "            try:\n                length = int(data)\n            except ValueError:\n                # More digits than Python is willing to convert: no request\n                # body can be that long.\n                return self._failChooseTransferDecoder()\n",
           "            length = int(data)\n", expect_rule="framing/content-length-huge"),
    Mutant("huge-content-length-error-swallowed", HTTP, "                # body can be that long.\n                return self._failChooseTransferDecoder()\n", "                # body can be that long.\n                length = 0\n",
           expect_rule="framing/content-length-huge"),
    Mutant("F19b-revert-header-result-dropped", HTTP, "                ok = self.headerReceived(self.__header)\n                # If the header we just got is invalid, we MUST NOT proceed\n                # with processing. We'll have sent a 400 anyway, so just stop.\n                if not ok:\n                    return\n            self.__header = line",
           "                self.headerReceived(self.__header)\n            self.__header = line", expect_rule="mustpass/result-used"),
    Mutant("F19b-revert-seen-by-the-bounded-layer", HTTP, "                ok = self.headerReceived(self.__header)\n                # If the header we just got is invalid, we MUST NOT proceed\n                # with processing. We'll have sent a 400 anyway, so just stop.\n                if not ok:\n                    return\n            self.__header = line",
           "                self.headerReceived(self.__header)\n            self.__header = line", expect_rule="reject/nothing-processed-after-400"),
    Mutant("rejected-header-replaced-by-next-line", HTTP, "                if not ok:\n                    return\n            self.__header = line", "                if not ok:\n                    self.__header = line\n                    return\n            self.__header = line",
           expect_rule="reject/nothing-processed-after-400"),
    Mutant('token-regex-dollar-accepts-trailing-newline', ABNF, '    for c in b:\n        if c not in (\n            b"ABCDEFGHIJKLMNOPQRSTUVWXYZabcdefghijklmnopqrstuvwxyz"  # ALPHA\n            b"0123456789"  # DIGIT\n            b"!#$%&\'*+-.^_`|~"\n        ):\n            return False\n    return b != b""\n', '    return _TOKEN_RE.match(b) is not None\n', more=[(ABNF, '"""\n\n\ndef _istoken', '"""\n\nimport re\n\n_TOKEN_RE = re.compile(rb"[A-Za-z0-9!#$%&\'*+\\-.^_`|~]+$")\n\n\ndef _istoken')]),
    Mutant('hexdigits-regex-dollar-accepts-trailing-newline', ABNF, '    for c in b:\n        if c not in b"0123456789abcdefABCDEF":\n            return False\n    return b != b""\n', '    return _HEX_RE.match(b) is not None\n', more=[(ABNF, '"""\n\n\ndef _istoken', '"""\n\nimport re\n\n_HEX_RE = re.compile(rb"[0-9a-fA-F]+$")\n\n\ndef _istoken')]),
    Mutant('name-cached-by-helper-before-validation', HDRS, '        if not _istoken(bytes_name):\n            raise InvalidHeaderName(bytes_name)\n\n        result = b"-".join([word.capitalize() for word in bytes_name.split(b"-")])\n', '        result = self._remember(name, bytes_name)\n        if not _istoken(result):\n            raise InvalidHeaderName(bytes_name)\n        return result\n\n    def _remember(self, name, bytes_name):\n        result = b"-".join([word.capitalize() for word in bytes_name.split(b"-")])\n'),
    Mutant("F19a-revert-target-upper-bound-176", HTTP, "if c <= 32 or c > 126:", "if c <= 32 or c > 176:"),
    Mutant("empty-target-accepted", HTTP, "    if request == b\"\":\n        raise ValueError(\"Empty request-target\")\n", ""),
    Mutant("version-prefix-only", HTTP, "if version != b\"HTTP/1.1\" and version != b\"HTTP/1.0\":", "if not version.startswith(b\"HTTP/1.\"):"),
    Mutant("split-any-whitespace", HTTP, "method, request, version = line.split(b\" \")", "method, request, version = line.split()"),
    Mutant("token-allows-colon", ABNF, "b\"!#$%&'*+-.^_`|~\"\n", "b\"!#$%&'*+-.^_`|~:\"\n"),
    Mutant("hexdigits-allow-empty", ABNF, "            return False\n    return b != b\"\"\n\n\ndef _hexint", "            return False\n    return True\n\n\ndef _hexint"),
    Mutant("size-limit-no-return", HTTP, "            self._respondToBadRequestAndDisconnect()\n            return\n\n        if self.__first_line:",
           "            self._respondToBadRequestAndDisconnect()\n\n        if self.__first_line:"),
    Mutant("bad-request-line-not-answered", HTTP, "            except ValueError:\n                self._respondToBadRequestAndDisconnect()\n                return\n",
           "            except ValueError:\n                return\n"),
    Mutant("last-header-result-ignored", HTTP, "                if not ok:\n                    return\n            self.__header = b\"\"\n", "            self.__header = b\"\"\n"),
    Mutant("length-falsy-completes-chunked", HTTP, "            if self.length == 0:\n                self.allContentReceived()", "            if not self.length:\n                self.allContentReceived()"),
    Mutant("stale-header-kept", HTTP, "            self.__header = b\"\"\n            self.allHeadersReceived()", "            self.allHeadersReceived()"),
    Mutant("nul-check-dropped", HTTP, "        if b\"\\x00\" in data:\n            self._respondToBadRequestAndDisconnect()\n            return False\n", ""),
    Mutant("nul-returns-true", HTTP, "        if b\"\\x00\" in data:\n            self._respondToBadRequestAndDisconnect()\n            return False", "        if b\"\\x00\" in data:\n            self._respondToBadRequestAndDisconnect()\n            return True"),
    Mutant("invalid-name-tolerated", HTTP, "        except InvalidHeaderName:\n            self._respondToBadRequestAndDisconnect()\n            return False", "        except InvalidHeaderName:\n            pass"),
    Mutant("value-strip-all-whitespace", HTTP, "        data = data.strip(b\" \\t\")\n        if b\"\\x00\" in data:", "        data = data.strip()\n        if b\"\\x00\" in data:"),
    Mutant("raw-name-to-framing-decision", HTTP, "            header = _nameEncoder.encode(header)\n", "            _nameEncoder.encode(header)\n"),
    Mutant("framing-decision-result-dropped", HTTP, "        if not self._maybeChooseTransferDecoder(header, data):\n            return False\n",
           "        self._maybeChooseTransferDecoder(header, data)\n"),
    Mutant("content-length-lenient-digits", HTTP, "            if not data.isdigit():\n                return self._failChooseTransferDecoder()", "            if not data.strip().isdigit():\n                return self._failChooseTransferDecoder()"),
    Mutant("chunked-substring-match", HTTP, "            if data.lower() == b\"chunked\":", "            if b\"chunked\" in data.lower():"),
    Mutant("unknown-coding-accepted", HTTP, "                return True\n            else:\n                return self._failChooseTransferDecoder()\n        else:\n            # It's not a length",
           "                return True\n            else:\n                return True\n        else:\n            # It's not a length"),
    Mutant("conflicting-framing-last-wins", HTTP, "        if self._transferDecoder is not None:\n            return self._failChooseTransferDecoder()\n        else:\n            self.length = length",
           "        if False:\n            return self._failChooseTransferDecoder()\n        else:\n            self.length = length"),
    Mutant("length-not-set-with-decoder", HTTP, "            self.length = length\n            self._transferDecoder = newTransferDecoder", "            self._transferDecoder = newTransferDecoder"),
    Mutant("fail-reports-success", HTTP, "        self.length = None\n        return False", "        self.length = None\n        return True"),
    Mutant("lowercase-framing-literal", HTTP, "        if header == b\"Content-Length\":", "        if header == b\"Content-length\":"),
    Mutant("400-without-close", HTTP, "        self.transport.write(b\"HTTP/1.1 400 Bad Request\\r\\n\\r\\n\")\n        self.loseConnection()", "        self.transport.write(b\"HTTP/1.1 400 Bad Request\\r\\n\\r\\n\")"),
    Mutant("malformed-chunk-swallowed", HTTP, "        except _MalformedChunkedDataError:\n            self._respondToBadRequestAndDisconnect()", "        except _MalformedChunkedDataError:\n            pass"),
    Mutant("leftover-buffered-after-hand-over", HTTP, "        self._dataBuffer.append(data)\n        self.allContentReceived()", "        self.allContentReceived()\n        self._dataBuffer.append(data)"),
    Mutant("identity-boundary-off-by-one", HTTP, "        elif len(data) < self.contentLength:", "        elif len(data) <= self.contentLength:"),
    Mutant("identity-leftover-off-by-one", HTTP, "            finishCallback(data[contentLength:])", "            finishCallback(data[contentLength + 1 :])"),
    Mutant("content-length-hex", HTTP, "            length = int(data)\n", "            length = int(data, 16)\n"),
    Mutant("malformed-chunk-handler-narrowed", HTTP, "        except _MalformedChunkedDataError:\n            self._respondToBadRequestAndDisconnect()", "        except _DataLoss:\n            self._respondToBadRequestAndDisconnect()"),
    Mutant("header-rejected-but-reported-valid", HTTP, "        if not self._maybeChooseTransferDecoder(header, data):\n            return False", "        if not self._maybeChooseTransferDecoder(header, data):\n            return True"),
    Mutant("token-first-byte-only", ABNF, "    for c in b:\n        if c not in (\n", "    for c in b[:1]:\n        if c not in (\n"),
    Mutant("invalid-name-logged-with-strict-decode", HTTP, "        except InvalidHeaderName:\n            self._respondToBadRequestAndDisconnect()\n            return False",
           "        except InvalidHeaderName:\n            self._log.info(\"bad header name {n}\", n=header.decode(\"ascii\"))\n            self._respondToBadRequestAndDisconnect()\n            return False"),
    Mutant("fold-pieces-joined-without-leading-separator", HTTP, "            self.__header += b\" \" + line.lstrip(b\" \\t\")", "            self.__header = b\" \".join([p for p in (self.__header, line.lstrip(b\" \\t\")) if p])"),
    Mutant("name-cache-before-validation", HDRS, "        if not _istoken(bytes_name):\n            raise InvalidHeaderName(bytes_name)\n\n        result =",
           "        result ="),
]
SILENT = [
    Silent("reject-through-class-level-table-of-functions", HTTP, '    def _maybeChooseTransferDecoder(self, header, data):\n',
           '    _onFramingError = {"reject": _failChooseTransferDecoder}\n\n    def _maybeChooseTransferDecoder(self, header, data):\n', more=[(HTTP, '            if not data.isdigit():\n                return self._failChooseTransferDecoder()\n', '            if not data.isdigit():\n                return self._onFramingError["reject"](self)\n')]),
    Silent("fold-separator-by-join", HTTP, "            self.__header += b\" \" + line.lstrip(b\" \\t\")", "            self.__header = b\" \".join((self.__header, line.lstrip(b\" \\t\")))"),
    Silent("header-prologue-in-helper", HTTP, "        try:\n            header, data = line.split(b\":\", 1)\n        except ValueError:\n            self._respondToBadRequestAndDisconnect()\n            return False\n",
           "        pair = self._nameAndValue(line)\n        if pair is None:\n            self._respondToBadRequestAndDisconnect()\n            return False\n        header, data = pair\n",
           more=[(HTTP, "    def allContentReceived(self):\n", "    def _nameAndValue(self, line):\n        name, colon, value = line.partition(b\":\")\n        if not colon:\n            return None\n        return name, value\n\n    def allContentReceived(self):\n")]),
    Silent("end-of-headers-in-helper", HTTP, "            self.__header = b\"\"\n            self.allHeadersReceived()\n            if self.length == 0:\n                self.allContentReceived()\n            else:\n                self.setRawMode()",
           "            self._headersDone()",
           more=[(HTTP, "    def _finishRequestBody(self, data):\n", "    def _headersDone(self):\n        self.__header = b\"\"\n        self.allHeadersReceived()\n        if self.length != 0:\n            self.setRawMode()\n            return\n        self.allContentReceived()\n\n    def _finishRequestBody(self, data):\n")]),
    Silent("identity-decoder-guard-clauses", HTTP, "        elif len(data) < self.contentLength:\n            self.contentLength -= len(data)\n            self.dataCallback(data)\n        else:",
           "        elif len(data) < self.contentLength:\n            remaining = self.contentLength - len(data)\n            self.contentLength = remaining\n            self.dataCallback(data)\n        else:"),
    Silent("encoder-without-walrus", HDRS, "        if canonicalName := self._canonicalHeaderCache.get(name):\n            return canonicalName\n", "        cached = self._canonicalHeaderCache.get(name)\n        if cached:\n            return cached\n"),
    Silent('token-regex-Z-anchored', ABNF, '    for c in b:\n        if c not in (\n            b"ABCDEFGHIJKLMNOPQRSTUVWXYZabcdefghijklmnopqrstuvwxyz"  # ALPHA\n            b"0123456789"  # DIGIT\n            b"!#$%&\'*+-.^_`|~"\n        ):\n            return False\n    return b != b""\n', '    return _TOKEN_RE.match(b) is not None\n', more=[(ABNF, '"""\n\n\ndef _istoken', '"""\n\nimport re\n\n_TOKEN_RE = re.compile(rb"[A-Za-z0-9!#$%&\'*+\\-.^_`|~]+\\Z")\n\n\ndef _istoken')]),
    Silent('token-regex-fullmatch', ABNF, '    for c in b:\n        if c not in (\n            b"ABCDEFGHIJKLMNOPQRSTUVWXYZabcdefghijklmnopqrstuvwxyz"  # ALPHA\n            b"0123456789"  # DIGIT\n            b"!#$%&\'*+-.^_`|~"\n        ):\n            return False\n    return b != b""\n', '    return _TOKEN_RE.fullmatch(b) is not None\n', more=[(ABNF, '"""\n\n\ndef _istoken', '"""\n\nimport re\n\n_TOKEN_RE = re.compile(rb"[A-Za-z0-9!#$%&\'*+\\-.^_`|~]+")\n\n\ndef _istoken')]),
    Silent('token-frozenset-all', ABNF, '    for c in b:\n        if c not in (\n            b"ABCDEFGHIJKLMNOPQRSTUVWXYZabcdefghijklmnopqrstuvwxyz"  # ALPHA\n            b"0123456789"  # DIGIT\n            b"!#$%&\'*+-.^_`|~"\n        ):\n            return False\n    return b != b""\n', '    return b != b"" and all(c in _TCHARS for c in b)\n', more=[(ABNF, '"""\n\n\ndef _istoken', '"""\n\n_TCHARS = frozenset(b"ABCDEFGHIJKLMNOPQRSTUVWXYZabcdefghijklmnopqrstuvwxyz0123456789!#$%&\'*+-.^_`|~")\n\n\ndef _istoken')]),
    Silent('hexdigits-regex-fullmatch', ABNF, '    for c in b:\n        if c not in b"0123456789abcdefABCDEF":\n            return False\n    return b != b""\n', '    return _HEX_RE.fullmatch(b) is not None\n', more=[(ABNF, '"""\n\n\ndef _istoken', '"""\n\nimport re\n\n_HEX_RE = re.compile(rb"[0-9a-fA-F]+")\n\n\ndef _istoken')]),
    Silent('name-cached-by-helper-after-validation', HDRS, '        if not _istoken(bytes_name):\n            raise InvalidHeaderName(bytes_name)\n\n        result = b"-".join([word.capitalize() for word in bytes_name.split(b"-")])\n', '        if not _istoken(bytes_name):\n            raise InvalidHeaderName(bytes_name)\n        return self._remember(name, bytes_name)\n\n    def _remember(self, name, bytes_name):\n        result = b"-".join([word.capitalize() for word in bytes_name.split(b"-")])\n'),
    Silent("invalid-name-logged-with-repr", HTTP, "        except InvalidHeaderName:\n            self._respondToBadRequestAndDisconnect()\n            return False",
           "        except InvalidHeaderName:\n            self._respondToBadRequestAndDisconnect()\n            self._log.info(\"bad header name {n!r}\", n=header)\n            return False", allow_error=False),
    Silent("target-bounds-rewritten", HTTP, "if c <= 32 or c > 126:", "if c < 33 or c >= 127:"),
    Silent("target-lower-bound-space-unreachable", HTTP, "if c <= 32 or c > 126:", "if c < 32 or c > 126:"),
    Silent("version-membership", HTTP, "if version != b\"HTTP/1.1\" and version != b\"HTTP/1.0\":", "if version not in (b\"HTTP/1.1\", b\"HTTP/1.0\"):"),
    Silent("empty-target-not", HTTP, "    if request == b\"\":\n        raise ValueError(\"Empty request-target\")", "    if not request:\n        raise ValueError(\"Empty request-target\")"),
    Silent("nul-check-find", HTTP, "        if b\"\\x00\" in data:\n            self._respondToBadRequestAndDisconnect()", "        if data.find(b\"\\x00\") != -1:\n            self._respondToBadRequestAndDisconnect()"),
    Silent("rename-ok", HTTP, "                ok = self.headerReceived(self.__header)\n                # If the last header we got is invalid, we MUST NOT proceed\n                # with processing. We'll have sent a 400 anyway, so just stop.\n                if not ok:\n                    return",
           "                valid = self.headerReceived(self.__header)\n                if not valid:\n                    return"),
    Silent("test-call-directly", HTTP, "                ok = self.headerReceived(self.__header)\n                # If the last header we got is invalid, we MUST NOT proceed\n                # with processing. We'll have sent a 400 anyway, so just stop.\n                if not ok:\n                    return",
           "                if not self.headerReceived(self.__header):\n                    return"),
    Silent("body-mode-branches-swapped", HTTP, "            if self.length == 0:\n                self.allContentReceived()\n            else:\n                self.setRawMode()",
           "            if self.length != 0:\n                self.setRawMode()\n            else:\n                self.allContentReceived()"),
    Silent("conflict-test-inverted", HTTP, "        if self._transferDecoder is not None:\n            return self._failChooseTransferDecoder()\n        else:\n            self.length = length\n            self._transferDecoder = newTransferDecoder\n            return True",
           "        if self._transferDecoder is None:\n            self._transferDecoder = newTransferDecoder\n            self.length = length\n            return True\n        return self._failChooseTransferDecoder()"),
    Silent("coding-lowered-once", HTTP, "            if data.lower() == b\"chunked\":\n                length = None", "            coding = data.lower()\n            if coding == b\"chunked\":\n                length = None",
           more=[(HTTP, "            elif data.lower() == b\"identity\":", "            elif coding == b\"identity\":")]),
    Silent("identity-boundary-rewritten", HTTP, "        elif len(data) < self.contentLength:", "        elif not len(data) >= self.contentLength:"),
    Silent("reset-order", HTTP, "        self.length = 0\n        self._receivedHeaderCount = 0\n        self._receivedHeaderSize = 0\n        self.__first_line = 1\n        self._transferDecoder = None\n",
           "        self._transferDecoder = None\n        self.__first_line = 1\n        self._receivedHeaderSize = 0\n        self._receivedHeaderCount = 0\n        self.length = 0\n"),
]
