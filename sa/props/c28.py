"""C28 - template flattening never lets content become markup."""
from __future__ import annotations

import ast
import itertools

import html

from sa.astx import NotConst, call_attr, call_name, const_eval, module_consts, src, walk_local
from sa.domains import escaper_problems, replace_chain
from sa.selftest import Mutant, Silent
from sa.source import AnalysisError
from sa.props._lib_f import Abstain, norm_function, structural, GenThunk, InterpError, MDeferred, ModelRaised, World, call_sites, interpret, module_patterns, named_calls, param_names

PROPERTY = "C28"
FL = "web/_flatten.py"
Q = "twisted.web._flatten."
TECHNIQUE = "data-flow provenance at every write() sink; escapers over all 256 bytes; bounded tree round-trips and tokenizer oracles"
EXPLANATION = (
    "STRUCTURAL (for every path of the normalised _flattenElement): each write() argument is, by data flow, markup literal / tag or attribute name / output of the escaper of its "
    "context (dataEscaper(root) in the text branch, escapedCDATA / escapedComment of root.data in theirs) / the numeric character reference - raw root, root.data or attribute "
    "values never reach write(); attribute values recurse only through writeWithAttributeEscaping(write) + attributeEscapingDoneOutside, children reset to escapeForContent, "
    "no other step overrides the escaper, keepGoing forwards its context; buffered writes are delivered in order; between escaper and sink nothing rewrites the bytes: the writer flatten() hands down is the caller's writer or a "
    "forwarder of its unchanged argument (sink/output-not-rewritten); an escaper whose guarantee depends on context (classified from its own source: it rewrites a pattern longer than one byte or looks at the start / end of "
    "its argument - escapedCDATA, escapedComment) is applied to the node's WHOLE data, never to a slice / chunk / loop piece of it (sink/whole-data-escaper; byte-wise escapers may be "
    "applied piecewise); a slot frame answers by key PRESENCE only - the guards of `return <frame value>` never mention the value "
    "(slot/decision-by-presence); the frame a Tag pushes is popped on every path leaving its branch (slot/frame-popped; F28c, fixed: it was not - the revert is a mutant).  FINITE-EXHAUSTIVE: "
    "_getSlotValue over stacks of 0..3 frames x {None, empty, other key, key with a truthy / each falsy value} x default {None, falsy, truthy}: the innermost frame holding the key "
    "answers, whatever the value (slot/nearest-frame-wins); content and attribute escapers on all "
    "256 bytes and their neighbourhoods (single-byte replacement chain checked).  BOUNDED second layer (bounded evidence only for: comment/CDATA escapers - string grids against "
    "tokenizer oracles, F28 fixed, F28b known; parse-back of whole trees): "
    "Decides: (a) provenance at every write(...) of _flattenElement: the argument is a markup literal from the frozen set, dataEscaper(root), "
    "escapedCDATA(root.data) / escapedComment(root.data) bracketed in order by their delimiters, the tag/attribute name (valid by the statement) or the "
    "numeric character reference; attribute values are flattened only through write=writeWithAttributeEscaping(write) with attributeEscapingDoneOutside, "
    "between `name=\"` and the closing quote; children reset the escaper to escapeForContent; keepGoing forwards its six arguments in order with the "
    "enclosing defaults and the tree starts with escapeForContent; (b) the four escapers are interpreted (whitelisted evaluator, no execution) on every "
    "string up to length 5 (4 for attributes) over a hostile alphabet and compared with oracles: text/attribute output contains no raw < > (\") and "
    "un-escapes to the input with '&' rewritten first; CDATA output re-parses as CDATA sections whose concatenation is the input; comment output must "
    "be consumed as exactly one comment by an HTML5 comment tokenizer (F28, fixed: data starting with '>' or '->' or containing '--!>' ended the comment "
    "early; the revert is a mutant) and be well-formed XML comment data - it is not (known finding F28b: '--' is not well-formed XML). The tree family is flattened through flatten() itself (the public writer chain) and includes every hostile value - the empty ones too - as a "
    "slot fill under an outer fill and a default, sibling rows with their own fills, and comment / CDATA / text data with a control character inside '-->', '--!>', ']]>' or before a "
    "leading '>' (judged with the tokenizer oracles), and ~128 KiB data strings in which a terminator straddles every power-of-two offset 2**10..2**17.  Not decided: structural equality after re-parsing whole documents, renderers' own output."
)
RULE_KINDS = {
    "sink/output-not-rewritten": "structural", "sink/whole-data-escaper": "structural", "flatten/terminators-across-chunk-boundaries": "bounded", "slot/decision-by-presence": "structural", "slot/frame-popped": "structural", "slot/frame-scope": "bounded", "slot/nearest-frame-wins": "finite-exhaustive", "flatten/terminators-with-control-characters": "bounded",
    "sink/": "structural", "attribute/": "structural", "children/": "structural", "recursion/": "structural",
    "escaper/all-bytes": "finite-exhaustive", "escaper/rewrite-order": "structural", "escaper/metacharacters": "structural", "escaper/attribute-chain": "structural",
    "flatten/": "bounded", "escaper/": "bounded",
}
ASSUMPTIONS = ["tag and attribute names are valid names (given by the property statement)", "str methods replace/encode behave as in CPython (the evaluator calls them on constants)"]

MARKUP_LITERALS = {b"<![CDATA[", b"]]>", b"<!--", b"-->", b"<", b">", b'"', b" />"}


def _const(n):
    try:
        return const_eval(n)
    except NotConst:
        return None


def check(ctx):
    MODULE_ENV.clear()
    MODULE_ENV.update(module_consts(ctx.mod(FL)))
    MODULE_ENV.update(module_patterns(ctx.mod(FL)))
    with ctx.section("s-sinks"):
        structural(ctx, "sink/provenance", "flatten/parses-back (bounded)", _s_sinks, ctx)
    with ctx.section("fe-escapers"):
        try:
            structural(ctx, "escaper/all-bytes", "escaper/content-roundtrip + escaper/attribute-roundtrip (bounded)", _fe_escapers, ctx)
        except (InterpError, ModelRaised) as e:      # an exception of the interpreted code that no scenario expected is confined to this section
            raise AnalysisError(f"C28/fe-escapers: {e}")
    with ctx.section("flatten"):
        try:
            _flatten_roundtrip(ctx)
        except (InterpError, ModelRaised) as e:      # an exception of the interpreted code that no scenario expected is confined to this section
            raise AnalysisError(f"C28/flatten: _flattenElement uses a construct the evaluator cannot interpret: {e}")
    with ctx.section("buffer"):
        structural(ctx, "recursion/buffer-order", "flatten/parses-back (bounded)", _buffer, ctx)
    with ctx.section("s-whole-data"):
        structural(ctx, "sink/whole-data-escaper", "flatten/terminators-across-chunk-boundaries (bounded)", _s_whole_data, ctx)
    with ctx.section("flatten-straddle"):
        try:
            _flatten_straddle(ctx)
        except (InterpError, ModelRaised) as e:
            raise AnalysisError(f"C28/flatten-straddle: {e}")
    with ctx.section("s-writer-chain"):
        structural(ctx, "sink/output-not-rewritten", "flatten/terminators-with-control-characters (bounded)", _s_writer_chain, ctx)
    with ctx.section("s-slot-lookup"):
        structural(ctx, "slot/decision-by-presence", "slot/nearest-frame-wins (finite-exhaustive)", _s_slot_lookup, ctx)
    with ctx.section("s-slot-frames"):
        structural(ctx, "slot/frame-popped", "slot/frame-scope (bounded)", _s_slot_frames, ctx)
    with ctx.section("slot-scope"):
        try:
            _slot_scope(ctx)
        except (InterpError, ModelRaised) as e:      # an exception of the interpreted code that no scenario expected is confined to this section
            raise AnalysisError(f"C28/slot-scope: {e}")
    with ctx.section("fe-slot-lookup"):
        try:
            _fe_slot_lookup(ctx)
        except (InterpError, ModelRaised) as e:      # an exception of the interpreted code that no scenario expected is confined to this section
            raise AnalysisError(f"C28/fe-slot-lookup: _getSlotValue uses a construct the evaluator cannot interpret: {e}")
    with ctx.section("flatten-control-characters"):
        try:
            _flatten_control(ctx)
        except (InterpError, ModelRaised) as e:      # an exception of the interpreted code that no scenario expected is confined to this section
            raise AnalysisError(f"C28/flatten-control-characters: the writer chain uses a construct the evaluator cannot interpret: {e}")
    with ctx.section("escapers-structure"):
        _escaper_structure(ctx)
    with ctx.section("escapers-content"):
        _escaper_content(ctx)
    with ctx.section("escapers-attribute"):
        _escaper_attribute(ctx)
    with ctx.section("escapers-cdata"):
        _escaper_cdata(ctx)
    with ctx.section("escapers-comment"):
        _escaper_comment(ctx)


# ---- (a) sinks ---------------------------------------------------------------------------------------
# ---- (a) the flattener, evaluated ---------------------------------------------------------------------------------------------
class Tag:
    def __init__(self, tagName, attributes=None, children=None):
        self.tagName, self.attributes, self.children = tagName, dict(attributes or {}), list(children or [])
        self.render, self.slotData, self.filename, self.lineNumber, self.columnNumber = None, None, None, None, None

    def clone(self, deep=True):
        return Tag(self.tagName, self.attributes, self.children)


class slot:
    def __init__(self, name, default=None):
        self.name, self.default, self.children = name, default, []


class CDATA:
    def __init__(self, data):
        self.data = data


class Comment:
    def __init__(self, data):
        self.data = data


class CharRef:
    def __init__(self, ordinal):
        self.ordinal = ordinal


for _c in (Tag, slot, CDATA, Comment, CharRef):
    _c._sa_model = True

VOID = ("img", "br", "hr", "base", "meta", "link", "param", "area", "input", "col", "basefont", "isindex", "frame", "command", "embed", "keygen", "source", "track", "wbs")


def _flat_world(ctx):
    ctx.func(FL, "_flattenElement")
    stan = ctx.mod("web/_stan.py")
    void = module_consts(stan).get("voidElements", VOID)
    env = {"Tag": Tag, "slot": slot, "CDATA": CDATA, "Comment": Comment, "CharRef": CharRef, "voidElements": void, "Deferred": MDeferred,
           "GeneratorType": type(x for x in ()), "BUFFER_SIZE": 65536}
    ext = {"nativeString": lambda s_: s_.decode("ascii") if isinstance(s_, bytes) else s_, "IRenderable.providedBy": lambda o: False, "iscoroutine": lambda o: False,
           "_fork": lambda d: d, "cast": lambda t, v: v}
    return World(ctx.mod(FL), externals=ext, env=env)


def _flatten(w, root):
    """depth-first trampoline (what _flattenTree does): every yielded generator is run to completion before its parent continues"""
    out = []

    def hook(v):
        if isinstance(v, GenThunk):
            v.run(hook)
        elif isinstance(v, MDeferred):
            v.addCallback(lambda r: (hook(r), r)[1])
    def tree(request, root_, write):
        # _flattenTree's depth-first trampoline (its buffering is decided structurally: recursion/buffer-order)
        thunk = w.funcs["_flattenElement"](request, root_, write, [], None, w.funcs["escapeForContent"])
        thunk.run(hook)
        return None
    w.funcs["_flattenTree"] = tree
    w.funcs["ensureDeferred"] = lambda x: x
    if w.mod.find("flatten") is not None:
        w.funcs["flatten"](None, root, out.append)          # the writer chain of the public entry point is interpreted too
    else:
        tree(None, root, out.append)
    return b"".join(out)


class _Doc:
    """what an XML parser sees: (tag, {attr: value}, [children]) / text / ('cdata', text)"""


def _parse(doc: bytes):
    import xml.dom.minidom as md
    dom = md.parseString(b"<root>" + doc + b"</root>")

    def conv(n):
        if n.nodeType == n.TEXT_NODE:
            return n.data
        if n.nodeType == n.CDATA_SECTION_NODE:
            return ("cdata", n.data)
        if n.nodeType == n.COMMENT_NODE:
            return ("comment",)
        return (n.tagName, {k: v for k, v in n.attributes.items()}, _merge([conv(c) for c in n.childNodes]))
    return _merge([conv(c) for c in dom.documentElement.childNodes])


def _merge(items):
    out = []
    for it in items:
        if isinstance(it, str) and out and isinstance(out[-1], str):
            out[-1] += it
        elif isinstance(it, tuple) and it[0] == "cdata" and out and isinstance(out[-1], tuple) and out[-1][0] == "cdata":
            out[-1] = ("cdata", out[-1][1] + it[1])
        elif it != "":
            out.append(it)
    return out


def _expected(node, slots=None):
    slots = slots or {}
    if isinstance(node, bytes):
        return [node.decode("utf-8")]
    if isinstance(node, str):
        return [node]
    if isinstance(node, (list, tuple)):
        return _merge([x for c in node for x in _expected(c, slots)])
    if isinstance(node, CharRef):
        return [chr(node.ordinal)]
    if isinstance(node, CDATA):
        return [("cdata", node.data if isinstance(node.data, str) else node.data.decode())] if node.data else []
    if isinstance(node, Comment):
        return [("comment",)]
    if isinstance(node, slot):
        return _expected(slots.get(node.name, node.default), slots)
    if isinstance(node, MDeferred):
        return _expected(node.result, slots)
    if isinstance(node, Tag):
        sl = dict(slots)
        sl.update(node.slotData or {})
        if not node.tagName:
            return _expected(node.children, sl)
        attrs = {}
        for k, v in node.attributes.items():
            attrs[k if isinstance(k, str) else k.decode()] = _attr_text(v, sl)
        return [(node.tagName if isinstance(node.tagName, str) else node.tagName.decode(), attrs, _merge(_expected(node.children, sl)))]
    raise AssertionError(node)


def _attr_text(v, slots):
    """an attribute value is the serialisation of its content (markup inside an attribute is text)"""
    parts = []
    for item in _expected(v, slots):
        parts.append(item if isinstance(item, str) else _serialise(item))
    return "".join(parts)


def _serialise(item):
    if isinstance(item, str):
        return html.escape(item, quote=False)
    if item[0] == "cdata":
        return "<![CDATA[" + item[1] + "]]>"
    if item[0] == "comment":
        return "<!---->"
    tag, attrs, children = item
    a = "".join(f' {k}="{html.escape(v, quote=True).replace("&#x27;", chr(39))}"' for k, v in attrs.items())
    if not children and tag in VOID:
        return f"<{tag}{a} />"
    return f"<{tag}{a}>" + "".join(_serialise(c) for c in children) + f"</{tag}>"


HOSTILE = ["plain", "<b>x</b>", "a & b", "a &amp; b", "\"q\" 'p'", "x > y < z", "]]>", "--><script>", "&#34;", "</p><p>", "\u00e9\u4e2d", b"bytes <&> \"", "a\"onload=\"x", ""]


def _trees():
    fired = MDeferred()
    fired.callback("deferred <text> & \"more\"")
    out = []
    for h in HOSTILE:
        out.append(Tag("p", {}, [h]))
        out.append(Tag("a", {"href": h, "title": "t"}, ["x"]))
        out.append(Tag("div", {"data-x": Tag("b", {"k": h}, [h])}, []))
        out.append(Tag("p", {}, [slot("s")]).__class__("p", {}, [slot("s", default=h)]))
        if isinstance(h, str):
            out.append(Tag("p", {}, [CDATA(h), "tail"]))
    out += [Tag("p", {}, ["a", CharRef(38), CharRef(60), "b"]), Tag("br"), Tag("img", {"alt": "<x>"}), Tag("p", {}, [Tag("", {}, ["inner <t>", Tag("i", {}, ["&"])])]),
            Tag("ul", {}, [[Tag("li", {}, [str(i), "<"]) for i in range(3)], ("t1", "t2")]), Tag("p", {}, [fired]), Tag("p", {b"id": b"x&y"}, [b"<bytes>"]),
            Tag("p", {}, [Comment("fine comment"), "after"]), Tag("span", {"a": ["l1", "<l2>", Tag("q")]}, [])]
    # slots filled with every hostile value - in particular the EMPTY ones - under an outer fill of the same name, with a default, and in sibling rows
    for h in HOSTILE + [b"", [], ()]:
        inner = Tag("span", {"title": slot("v")}, [slot("v", default="DEFAULT")])
        inner.slotData = {"v": h}
        outer = Tag("div", {}, [slot("v"), "[", inner, "]"])
        outer.slotData = {"v": "OUTER <fill>"}
        out.append(outer)
    rows = []
    for h in ("<first row>", "", "third"):
        li = Tag("li", {}, [slot("cell")])
        li.slotData = {"cell": h}
        rows.append(li)
    out.append(Tag("ul", {}, [rows]))
    t = Tag("p", {"title": slot("who")}, ["hello ", slot("who"), slot("missing", default="dflt")])
    t.slotData = {"who": "<World> & \"co\""}
    out.append(t)
    return out


def _describe(t):
    if isinstance(t, Tag):
        return f"Tag({t.tagName!r}, {{{', '.join(f'{k!r}: {_describe(v)}' for k, v in t.attributes.items())}}}, [{', '.join(_describe(c) for c in t.children)}])"
    if isinstance(t, (CDATA, Comment)):
        return f"{type(t).__name__}({t.data!r})"
    if isinstance(t, slot):
        return f"slot({t.name!r}, default={_describe(t.default)})"
    if isinstance(t, CharRef):
        return f"CharRef({t.ordinal})"
    if isinstance(t, (list, tuple)):
        return "[" + ", ".join(_describe(c) for c in t) + "]"
    if isinstance(t, MDeferred):
        return f"Deferred({_describe(t.result)})"
    return repr(t)


def _flatten_roundtrip(ctx):
    w = _flat_world(ctx)
    q = Q + "_flattenElement"
    bad = []
    n = 0
    for tree in _trees():
        n += 1
        want = _expected(tree)
        try:
            doc = _flatten(w, tree)
        except ModelRaised as e:
            bad.append((tree, f"raises {e.name}", None))
            continue
        try:
            got = _parse(doc)
        except Exception as e:
            bad.append((tree, f"is flattened to {doc!r}, which is not well-formed ({str(e)[:60]})", None))
            continue
        if got != want:
            bad.append((tree, f"is flattened to {doc!r}, which parses as {got!r}", want))
    msg = ""
    if bad:
        t, why, want = bad[0]
        msg = f"{_describe(t)} {why}" + (f" instead of {want!r}" if want is not None else "") + f": content became markup (or was altered); {len(bad)} of {n} trees wrong"
    ctx.check(not bad, "flatten/parses-back", q, msg, detail=f"{n} element trees")
    ctx.extra["trees_flattened"] = n
    # delimiters of CDATA / comments, void elements
    for tree, want in ((Tag("p", {}, [Comment("c")]), b"<p><!--c--></p>"), (Tag("p", {}, [CDATA("d")]), b"<p><![CDATA[d]]></p>"), (Tag("br"), b"<br />"), (Tag("p"), b"<p></p>"),
                       (Tag("br", {}, ["x"]), b"<br>x</br>")):
        try:
            doc = _flatten(w, tree)
        except ModelRaised as e:
            doc = f"raises {e.name}"
        ctx.check(doc == want, "flatten/markup-shape", q + f" | {_describe(tree)}", f"{_describe(tree)} is flattened to {doc!r} instead of {want!r}")
    ft = ctx.func(FL, "_flattenTree")
    starts = [c for c in walk_local(ft) if isinstance(c, ast.Call) and call_name(c) == "_flattenElement"]
    ok = len(starts) == 1 and any(src(a) == "escapeForContent" for a in list(starts[0].args) + [k.value for k in starts[0].keywords])
    ctx.check(ok, "recursion/top-level-escaper", Q + "_flattenTree", "flattening does not start in the content-escaping context")


# ==================================================================================================================================
# STRUCTURAL layer: provenance of everything that reaches write() in _flattenElement, by data flow (not by local names)
# ==================================================================================================================================
MARKUP = {b"<![CDATA[", b"]]>", b"<!--", b"-->", b"<", b">", b'"', b" />", b" ", b'="', b"</"}


def _sources(expr, f, loopkeys, loopvals, depth=0):
    """set of provenance classes of the bytes an expression can evaluate to: 'markup' (literal), 'name' (tag / attribute name: valid by the statement), 'escaped:<escaper>',
    'charref', 'RAW:<what>' (content that passed no escaper), '?' (not understood)"""
    if depth > 6:
        return {"?"}
    c = _const(expr)
    if isinstance(c, bytes):
        return {"markup"} if c in MARKUP else {"RAW:literal " + repr(c)}
    if isinstance(expr, ast.IfExp):
        return _sources(expr.body, f, loopkeys, loopvals, depth + 1) | _sources(expr.orelse, f, loopkeys, loopvals, depth + 1)
    if isinstance(expr, ast.BinOp) and isinstance(expr.op, ast.Add):
        return _sources(expr.left, f, loopkeys, loopvals, depth + 1) | _sources(expr.right, f, loopkeys, loopvals, depth + 1)
    if isinstance(expr, ast.Attribute) and src(expr) == "root.tagName":
        return {"name"}
    if isinstance(expr, ast.Call):
        cn = call_name(expr) or ""
        if isinstance(expr.func, ast.Attribute) and expr.func.attr == "encode":
            inner = expr.func.value
            if isinstance(inner, ast.BinOp) and isinstance(inner.op, ast.Mod) and _const(inner.left) == "&#%d;":
                return {"charref"}
            return _sources(inner, f, loopkeys, loopvals, depth + 1)
        if cn == "dataEscaper" and [src(a_) for a_ in expr.args] == ["root"]:
            return {"escaped:dataEscaper"}
        if cn in ("escapedCDATA", "escapedComment") and [src(a_) for a_ in expr.args] == ["root.data"]:
            return {"escaped:" + cn}
        if cn in ("escapeForContent", "escapedCDATA", "escapedComment", "dataEscaper"):
            return {"escaped:" + cn + "(other)"}
        return {"?"}
    if isinstance(expr, ast.BinOp) and isinstance(expr.op, ast.Mod) and _const(expr.left) in ("&#%d;", b"&#%d;"):
        return {"charref"}
    if isinstance(expr, ast.Name):
        if expr.id in loopkeys:
            return {"name"}
        if expr.id in loopvals:
            return {"RAW:attribute value"}
        if expr.id == "root":
            return {"RAW:root"}
        defs = [s_.value for s_ in walk_local(f) if isinstance(s_, ast.Assign) and any(isinstance(t, ast.Name) and t.id == expr.id for t in s_.targets)]
        if not defs:
            return {"?"}
        out = set()
        for d in defs:
            out |= _sources(d, f, loopkeys, loopvals, depth + 1)
        return out
    if isinstance(expr, ast.Attribute) and src(expr) in ("root.data", "root.children", "root.attributes"):
        return {"RAW:" + src(expr)}
    return {"?"}


def _s_sinks(ctx):
    f = norm_function(ctx, FL, "_flattenElement")
    g = ctx.cfg(f)
    q = Q + "_flattenElement"
    loops = [s_ for s_ in walk_local(f) if isinstance(s_, ast.For) and "root.attributes" in src(s_.iter) and isinstance(s_.target, ast.Tuple) and len(s_.target.elts) == 2]
    if len(loops) != 1:
        raise Abstain(f"{len(loops)} loops over root.attributes")
    kname, vname = [src(e) for e in loops[0].target.elts]
    writes = call_sites(g, lambda c: isinstance(c.func, ast.Name) and c.func.id == "write")
    if len(writes) < 10:
        raise Abstain(f"only {len(writes)} write() sites in the normalised _flattenElement")
    n_raw = 0
    unknown = []
    for n, c in writes:
        if len(c.args) != 1:
            unknown.append(src(c))
            continue
        srcs = _sources(c.args[0], f, {kname}, {vname})
        raw = sorted(x for x in srcs if x.startswith("RAW:"))
        if raw:
            n_raw += 1
            ctx.violation("sink/provenance", q + f" | write({src(c.args[0])[:50]})", f"content reaches the output without passing the escaper of its context: {raw} - a string could open or close markup")
        elif "?" in srcs:
            unknown.append(src(c)[:60])
        else:
            ctx.ok("sink/provenance", q + f" | write(<{'+'.join(sorted(srcs))}>)")
        # context of the escaped kinds
        guards = [src(g.node(t).ast) for t, lab in g.edge_guards(n) if lab == "T"]
        for kind, want in (("escaped:dataEscaper", ("isinstance(root, (bytes, str))", "isinstance(root, (str, bytes))")), ("escaped:escapedCDATA", ("isinstance(root, CDATA)",)),
                           ("escaped:escapedComment", ("isinstance(root, Comment)",))):
            if kind in srcs:
                ctx.check(any(w_ in guards for w_ in want), "sink/context", q + f" | {kind}", f"the {kind.split(':')[1]} output is not confined to the `{want[0]}` branch (guards: {guards})")
    if unknown:
        ctx.note(f"sink/provenance: {len(unknown)} write() argument(s) not understood ({unknown[:2]}); left to flatten/parses-back (bounded)")
    # attribute values / children: the recursive steps, BY ROLE - every expression that produces the generator flattening another root, be it a direct _flattenElement(...) call
    # or a call of a nested forwarding helper (keepGoing(x, ...), flattenInContext(x)): each is resolved to the six arguments _flattenElement finally gets
    outer = [a_.arg for a_ in f.args.args]
    if len(outer) != 6:
        raise Abstain(f"_flattenElement takes {outer}")
    P_REQ, P_ROOT, P_WRITE, P_SLOTS, P_RF, P_ESC = outer
    helpers = {}
    for h in [n_ for n_ in ast.walk(f) if isinstance(n_, ast.FunctionDef) and n_ is not f]:
        body = [st for st in h.body if not (isinstance(st, ast.Expr) and isinstance(st.value, ast.Constant))]
        if len(body) == 1 and isinstance(body[0], ast.Return) and isinstance(body[0].value, ast.Call) and call_name(body[0].value) == "_flattenElement" and len(body[0].value.args) == 6 \
                and not body[0].value.keywords:
            ha = h.args
            names = [x.arg for x in ha.args]
            dfl = dict(zip(names[len(names) - len(ha.defaults):], ha.defaults)) if ha.defaults else {}
            helpers[h.name] = (names, dfl, body[0].value.args)

    def resolve(c):
        """the six final arguments of a recursive step, or None"""
        cn = call_name(c)
        if cn == "_flattenElement":
            if len(c.args) == 6 and not c.keywords:
                return list(c.args)
            return None
        if cn in helpers:
            names, dfl, fin = helpers[cn]
            m_ = dict(dfl)
            if len(c.args) > len(names) or any(k.arg not in names for k in c.keywords):
                return None
            m_.update(dict(zip(names, c.args)))
            m_.update({k.arg: k.value for k in c.keywords})
            if set(m_) != set(names):
                return None
            return [m_[a_.id] if isinstance(a_, ast.Name) and a_.id in m_ else a_ for a_ in fin]
        return None
    steps = []
    inside_helpers = {id(x) for hname in helpers for h in [n_ for n_ in ast.walk(f) if isinstance(n_, ast.FunctionDef) and n_.name == hname] for x in ast.walk(h)}
    for n, c in call_sites(g, lambda c: call_name(c) == "_flattenElement" or call_name(c) in helpers):
        if id(c) in inside_helpers:
            continue
        r6 = resolve(c)
        if r6 is None:
            raise Abstain(f"the recursive step `{src(c)[:60]}` could not be resolved to the arguments of _flattenElement")
        steps.append((n, c, r6))
    if not steps:
        raise Abstain("no recursive flattening steps found")
    for n, c, r6 in steps:
        ctx.check(src(r6[0]) == P_REQ and src(r6[3]) == P_SLOTS, "recursion/forwarding", q + f" | {src(c)[:40]}",
                  f"a recursive step passes `{src(r6[0])}` / `{src(r6[3])}` instead of the request and the slot stack of its context")
    attr = [(n, c, r6) for n, c, r6 in steps if src(r6[1]) == vname]
    ctx.check(len(attr) == 1, "attribute/escaped-outside", q + " | attribute value", f"attribute values are flattened at {len(attr)} sites (one expected)")
    for n, c, r6 in attr:
        w_ = r6[2]
        ok = isinstance(w_, ast.Call) and call_name(w_) == "writeWithAttributeEscaping" and [src(x) for x in w_.args] == [P_WRITE]
        if not ok and isinstance(w_, ast.Name):
            ds = [st.value for st in walk_local(f) if isinstance(st, ast.Assign) and any(isinstance(t, ast.Name) and t.id == w_.id for t in st.targets)]
            ok = len(ds) == 1 and isinstance(ds[0], ast.Call) and call_name(ds[0]) == "writeWithAttributeEscaping" and [src(x) for x in ds[0].args] == [P_WRITE]
        ctx.check(ok, "attribute/escaped-outside", q + " | attribute value | writer",
                  "an attribute value is flattened with a writer that does not escape for attributes: a double quote or '<' in the value (or in nested tags) ends the attribute")
        ctx.check(src(r6[5]) == "attributeEscapingDoneOutside", "attribute/escaped-outside", q + " | attribute value | inner escaper",
                  "the inner escaper of an attribute value is not attributeEscapingDoneOutside")
    for n, c, r6 in steps:
        if any(c is c2 for _, c2, _ in attr):
            continue
        if src(r6[1]) == "root.children" and any(src(g.node(t).ast) == "root.tagName" and lab == "T" for t, lab in g.edge_guards(n)):
            ctx.check(src(r6[5]) == "escapeForContent" and src(r6[2]) == P_WRITE, "children/content-escaper", q + " | children of a named tag",
                      "children of a tag do not switch back to escapeForContent (text inside a tag inside an attribute would lose one level of quoting)")
        else:
            ok = src(r6[5]) == P_ESC and src(r6[2]) == P_WRITE
            ctx.check(ok, "recursion/no-escaper-override", q + f" | step into {src(r6[1])[:30]}", "a recursive flattening step overrides the escaper / writer of its context")
    for hname, (names, dfl, fin) in helpers.items():
        # a forwarding helper keeps the context for whatever it does not take as a parameter, and its defaults are the context's
        fixed = [(i_, a_) for i_, a_ in enumerate(fin) if not (isinstance(a_, ast.Name) and a_.id in names)]
        okf = all(src(a_) == outer[i_] for i_, a_ in fixed) and all(src(d) == k for k, d in dfl.items())
        ctx.check(okf, "recursion/forwarding", Q + "_flattenElement." + hname,
                  f"{hname} does not forward (request, newRoot, write, slotData, renderFactory, dataEscaper) of the enclosing context in the parameter order of _flattenElement")


def _fe_escapers(ctx):
    """finite-exhaustive: an escaper that is a chain of single-byte replacements maps every byte independently; checking all 256 bytes (alone and next to each rewritten
    metacharacter, for the ordering of the rewrites) is exhaustive"""
    efc = ctx.func(FL, "escapeForContent")
    try:
        pairs = replace_chain(efc)
    except AnalysisError:
        pairs = []
    if not pairs or not all(isinstance(o, bytes) and len(o) == 1 for o, n in pairs):
        raise Abstain("escapeForContent is not a chain of single-byte .replace() calls")
    w = ctx.func(FL, "writeWithAttributeEscaping._write")
    bad_c, bad_a = [], []
    metas = [o for o, n in pairs] + [b'"']
    cases = [bytes([b]) for b in range(256)] + [m + bytes([b]) for m in metas for b in b'&<>";#a'] + [bytes([b]) + m for m in metas for b in b'&<>";#a']
    for data in cases:
        out = _run(efc, data)
        try:
            text = data.decode("latin-1")
            ok = isinstance(out, bytes) and b"<" not in out and b">" not in out and html.unescape(out.decode("latin-1")) == text
        except Exception:
            ok = False
        if not ok:
            bad_c.append((data, out))
        captured = []
        funcs = {"isinstance": isinstance, "write": lambda d: captured.append(d), "escapeForContent": lambda d: _run(efc, d)}
        kind, val = interpret(w, dict(MODULE_ENV, **{param_names(w)[0]: data, "str": str, "bytes": bytes}), funcs=funcs)
        o2 = b"".join(captured) if kind == "return" and all(isinstance(c_, bytes) for c_ in captured) else None
        if o2 is None or (set(o2) & set(b'<>"')) or html.unescape(o2.decode("latin-1")) != data.decode("latin-1"):
            bad_a.append((data, o2))
    dom = "domain: single-byte replacement chain (checked): all 256 bytes, alone and adjacent to every rewritten metacharacter"
    ctx.check(not bad_c, "escaper/all-bytes", Q + "escapeForContent", f"escapeForContent({bad_c[0][0]!r}) = {bad_c[0][1]!r}: raw markup survives or the text does not un-escape to itself" if bad_c else "", detail=dom)
    ctx.check(not bad_a, "escaper/all-bytes", Q + "writeWithAttributeEscaping._write", f"attribute text {bad_a[0][0]!r} is written as {bad_a[0][1]!r}" if bad_a else "", detail=dom)


def _buffer_roles(ctx):
    """Find the buffering writer BY ROLE: it is the callable _flattenTree hands to the root _flattenElement as `write`.  Two shapes are read:
      closure : a nested function appending to a list of _flattenTree, a nested flush function delivering b''.join(list) to the upstream writer (a parameter of _flattenTree);
      object  : the bound method <obj>.<m> of an instance of a module class built from the upstream writer; the buffer and the upstream writer are attributes of that instance.
    -> dict(fw, ff: function nodes; buf, up, flush_in_w, flush_in_t: the normalised texts of the buffer, the upstream writer and the flush call as seen in fw/ff resp. in
    _flattenTree; names for the constructs)"""
    ft = ctx.func(FL, "_flattenTree")
    up = param_names(ft)[2]
    roots = [c for c in walk_local(ft) if isinstance(c, ast.Call) and call_name(c) == "_flattenElement" and len(c.args) >= 3]
    if len(roots) != 1:
        raise Abstain(f"{len(roots)} root _flattenElement(...) calls in _flattenTree")
    w = roots[0].args[2]
    nested = {n.name: n for n in ast.walk(ft) if isinstance(n, ast.FunctionDef) and n is not ft}
    if isinstance(w, ast.Name) and w.id in nested:
        fw = nested[w.id]
        called = [c.func.id for c in walk_local(fw) if isinstance(c, ast.Call) and isinstance(c.func, ast.Name) and c.func.id in nested and c.func.id != fw.name]
        if len(set(called)) != 1:
            raise Abstain(f"the buffering writer {fw.name} calls {sorted(set(called))} (one flush function expected)")
        ff = nested[called[0]]
        apps = [c for c in walk_local(fw) if isinstance(c, ast.Call) and call_attr(c) == "append" and isinstance(c.func.value, ast.Name)]
        if not apps:
            return dict(ft=ft, fw=fw, ff=ff, buf=None, up=up, flush_in_w=ff.name, flush_in_t=ff.name, qw=Q + "_flattenTree." + fw.name, qf=Q + "_flattenTree." + ff.name)
        return dict(ft=ft, fw=fw, ff=ff, buf=apps[0].func.value.id, up=up, flush_in_w=ff.name, flush_in_t=ff.name, qw=Q + "_flattenTree." + fw.name, qf=Q + "_flattenTree." + ff.name)
    if isinstance(w, ast.Attribute) and isinstance(w.value, ast.Name):
        obj = w.value.id
        ctors = [st.value for st in walk_local(ft) if isinstance(st, (ast.Assign, ast.AnnAssign)) and st.value is not None and
                 any(isinstance(t, ast.Name) and t.id == obj for t in (st.targets if isinstance(st, ast.Assign) else [st.target])) and isinstance(st.value, ast.Call)]
        if len(ctors) != 1 or not isinstance(ctors[0].func, ast.Name):
            raise Abstain(f"`{obj}` is not built by one constructor call in _flattenTree")
        cname = ctors[0].func.id
        cls = ctx.mod(FL).find(cname)
        if not isinstance(cls, ast.ClassDef):
            raise Abstain(f"`{cname}` is not a class of the module")
        ctx.cls(FL, cname)
        ms = {n.name: n for n in cls.body if isinstance(n, ast.FunctionDef)}
        if w.attr not in ms or "__init__" not in ms:
            raise Abstain(f"{cname}.{w.attr} / {cname}.__init__ not found")
        fw = ms[w.attr]
        # the attribute holding the upstream writer: assigned in __init__ from the parameter that receives _flattenTree's writer
        ip = param_names(ms["__init__"])[1:]
        kw = {k.arg: k.value for k in ctors[0].keywords}
        bound = dict(zip(ip, ctors[0].args))
        bound.update({k: v for k, v in kw.items() if k in ip})
        wparam = [p_ for p_, v in bound.items() if isinstance(v, ast.Name) and v.id == up]
        if len(wparam) != 1:
            raise Abstain(f"the upstream writer is not handed to {cname}(...) as one plain argument")
        upattr = [src(t) for st in walk_local(ms["__init__"]) if isinstance(st, (ast.Assign, ast.AnnAssign)) and st.value is not None and src(st.value) == wparam[0]
                  for t in (st.targets if isinstance(st, ast.Assign) else [st.target])]
        if len(upattr) != 1:
            raise Abstain(f"{cname}.__init__ does not keep the upstream writer in one attribute")
        called = [c.func.attr for c in walk_local(fw) if isinstance(c, ast.Call) and isinstance(c.func, ast.Attribute) and src(c.func.value) == "self" and c.func.attr in ms and c.func.attr != fw.name]
        if len(set(called)) != 1:
            raise Abstain(f"{cname}.{fw.name} calls {sorted(set(called))} (one flush method expected)")
        ff = ms[called[0]]
        apps = [c for c in walk_local(fw) if isinstance(c, ast.Call) and call_attr(c) == "append" and isinstance(c.func.value, ast.Attribute) and src(c.func.value.value) == "self"]
        return dict(ft=ft, fw=fw, ff=ff, buf=src(apps[0].func.value) if apps else None, up=upattr[0], flush_in_w="self." + ff.name, flush_in_t=f"{obj}.{ff.name}",
                    qw=Q + cname + "." + fw.name, qf=Q + cname + "." + ff.name, up_in_t=up)
    raise Abstain(f"the writer handed to the root _flattenElement is `{src(w)}`")


def _buffer(ctx):
    """everything written reaches the upstream writer exactly once and in the order written"""
    r = _buffer_roles(ctx)
    ft, bw, fb, up, bufname = r["ft"], r["fw"], r["ff"], r["up"], r["buf"]
    qw, qf, qt = r["qw"], r["qf"], Q + "_flattenTree"
    g = ctx.cfg(bw)
    ps = [p_ for p_ in param_names(bw) if p_ != "self"]
    if len(ps) != 1:
        raise Abstain(f"the buffering writer takes {ps}")
    bs = ps[0]
    app = call_sites(g, lambda c: call_attr(c) == "append" and [src(a) for a in c.args] == [bs] and src(c.func.value) == (bufname or ""))
    direct = call_sites(g, lambda c: src(c.func) == up)
    flushes = [n for n, c in call_sites(g, lambda c: src(c.func) == r["flush_in_w"])]
    ctx.check(len(app) >= 1, "recursion/buffer-order", qw, "output is not appended to the buffer")
    for n, c in direct:
        w = g.must_precede(flushes, [n])
        ctx.check(w is None and [src(a) for a in c.args] == [bs], "recursion/buffer-order", ctx.construct(qw, c),
                  "a chunk is handed to the upstream writer while earlier output is still sitting in the buffer: it overtakes the markup that should enclose it "
                  "(tags.p(big) is written as BIG<p></p>)", witness=g.describe(w))
    w = g.must_pass([g.entry], [n for n, c in app] + [n for n, c in direct], exc=False)
    ctx.check(w is None, "recursion/buffer-order", qw + " | every chunk kept", "a chunk can be dropped (neither buffered nor written)", witness=g.describe(w))
    for n, c in app:
        ctx.check(g.path([n], [m for m, _ in direct], strict=True) is None and g.path([m for m, _ in direct], [n], strict=True) is None, "recursion/buffer-order",
                  ctx.construct(qw, c) + " | once", "a chunk is both buffered and written directly (duplicated output)")
    if bufname is None:
        return
    g2 = ctx.cfg(fb)
    wr = call_sites(g2, lambda c: src(c.func) == up)
    if len(wr) != 1 or len(wr[0][1].args) != 1:
        ctx.check(False, "recursion/buffer-order", qf, f"the buffer is delivered by {len(wr)} upstream writes, not by exactly one")
    else:
        delivered = wr[0][1].args[0]
        for _ in range(3):          # a named temporary holding the joined buffer
            if isinstance(delivered, ast.Name):
                ds = [st.value for st in walk_local(fb) if isinstance(st, ast.Assign) and any(isinstance(t, ast.Name) and t.id == delivered.id for t in st.targets)]
                if len(ds) == 1 and g2.must_precede([i for st in walk_local(fb) if isinstance(st, ast.Assign) and st.value is ds[0] for i in g2.ids_of(st)], [wr[0][0]]) is None:
                    delivered = ds[0]
                    continue
            break
        joined = (isinstance(delivered, ast.Call) and call_attr(delivered) == "join" and isinstance(delivered.func.value, ast.Constant) and delivered.func.value.value == b""
                  and [src(a) for a in delivered.args] == [bufname] and not delivered.keywords)
        if joined:
            ctx.ok("recursion/buffer-order", qf)
        elif bufname in src(delivered):
            ctx.violation("recursion/buffer-order", qf, f"the buffer is delivered as `{src(delivered)}`, not joined in order (b''.join({bufname}))")
        else:
            ctx.note(f"recursion/buffer-order: what the flush delivers (`{src(delivered)}`) was not recognised; clause left to flatten/parses-back (bounded)")
    clears = g2.ids(lambda x: x.kind == "stmt" and ((isinstance(x.ast, ast.Delete) and src(x.ast.targets[0]) == f"{bufname}[:]") or
                                                 (isinstance(x.ast, ast.Expr) and isinstance(x.ast.value, ast.Call) and src(x.ast.value.func) == f"{bufname}.clear") or
                                                 (isinstance(x.ast, ast.Assign) and any(src(t) == bufname for t in x.ast.targets) and isinstance(x.ast.value, ast.List) and not x.ast.value.elts)))
    for n, c in wr:
        w = g2.must_pass([n], clears, exc=False)
        ctx.check(bool(clears) and w is None, "recursion/buffer-order", ctx.construct(qf, c) + " | then emptied", "delivered output stays in the buffer and is delivered again",
                  witness=g2.describe(w))
    g3 = ctx.cfg(ft)
    fl = [n for n, c in call_sites(g3, lambda c: src(c.func) == r["flush_in_t"])]
    w = g3.must_pass([g3.entry], fl, exc=False)
    loops = g3.ids(lambda x: x.kind == "join" and isinstance(x.ast, ast.While))
    final = [n for n in fl if g3.path([n], loops, strict=True) is None]
    ctx.check(w is None and bool(final), "recursion/buffer-order", qt + " | final flush", "flattening can finish with output still in the buffer", witness=g3.describe(w))
    upt = r.get("up_in_t", up)
    others = [c for c in walk_local(ft) if isinstance(c, ast.Call) and isinstance(c.func, ast.Name) and c.func.id == upt]
    ctx.check(not others, "recursion/buffer-order", qt + " | no direct writes", "_flattenTree writes to the upstream writer around the buffer")


def _escaper_reach(ctx, name):
    """how far an escaper looks: ('context', why) when it rewrites a pattern longer than one byte or inspects positions (startswith / endswith / slices / indexing) - its guarantee
    holds only for the WHOLE string it was given; ('bytewise', None) when it is a chain of single-byte replacements (may be applied piece by piece); (None, why) when not understood"""
    try:
        f = ctx.func(FL, name)
    except Exception:
        return None, "not a function of the module"
    p0 = param_names(f)[0] if param_names(f) else None
    why = []
    for x in ast.walk(f):
        if isinstance(x, ast.Call) and isinstance(x.func, ast.Attribute) and x.func.attr == "replace" and x.args:
            lit = _const(x.args[0])
            if isinstance(lit, (bytes, str)) and len(lit) > 1:
                why.append(f"rewrites {lit!r}")
            elif not isinstance(lit, (bytes, str)):
                v = MODULE_ENV.get(src(x.args[0]))
                if isinstance(v, (bytes, str)) and len(v) > 1:
                    why.append(f"rewrites {v!r}")
                elif not isinstance(v, (bytes, str)):
                    return None, f"replace({src(x.args[0])}, ...) with a pattern that is not a literal"
        if isinstance(x, ast.Call) and isinstance(x.func, ast.Attribute) and x.func.attr in ("startswith", "endswith", "find", "index", "rfind", "split", "partition", "rpartition"):
            why.append(f"looks at positions ({x.func.attr})")
        if isinstance(x, ast.Subscript) and isinstance(x.value, ast.Name):
            why.append("looks at positions (indexing / slicing)")
        if isinstance(x, ast.Call) and (call_name(x) or "").split(".")[-1] in ("sub", "subn") and "re" in (call_name(x) or ""):
            why.append("rewrites by a regular expression")
    return ("context", "; ".join(sorted(set(why)))) if why else ("bytewise", None)


def _s_whole_data(ctx):
    """STRUCTURAL (def-use, by role): an escaper whose guarantee depends on context - it rewrites a multi-byte pattern (']]>', '-->', '--!>') or looks at the start / end of its
    argument - is applied to the WHOLE character data of the node: its argument derives from root.data / root itself, never from a slice, a chunk or a loop variable running over
    pieces of it (a terminator straddling two pieces would be seen by neither call).  Byte-wise escapers may be applied piece by piece"""
    f = norm_function(ctx, FL, "_flattenElement")
    q = Q + "_flattenElement"
    module_funcs = {n.name for n in ctx.mod(FL).tree.body if isinstance(n, ast.FunctionDef)} if hasattr(ctx.mod(FL), "tree") else set()
    loopvars = {}
    for st in walk_local(f):
        if isinstance(st, ast.For):
            for x in ast.walk(st.target):
                if isinstance(x, ast.Name):
                    loopvars[x.id] = st
        for comp in [c for c in ast.walk(st) if isinstance(c, (ast.ListComp, ast.GeneratorExp, ast.SetComp, ast.DictComp))] if isinstance(st, ast.stmt) else []:
            for gen in comp.generators:
                for x in ast.walk(gen.target):
                    if isinstance(x, ast.Name):
                        loopvars.setdefault(x.id, gen)

    def whole(e, depth=0):
        """True: the node's complete data; False: positively a part of it; None: not understood"""
        if depth > 4:
            return None
        if isinstance(e, ast.Attribute) and src(e) == "root.data":
            return True
        if isinstance(e, ast.Name) and e.id == "root":
            return True
        if isinstance(e, ast.Call) and isinstance(e.func, ast.Attribute) and e.func.attr in ("encode", "decode"):
            return whole(e.func.value, depth + 1)
        if isinstance(e, ast.Subscript) and isinstance(e.slice, ast.Slice):
            return False
        if isinstance(e, ast.Name):
            if e.id in loopvars:
                it = loopvars[e.id].iter
                if any(isinstance(x, ast.Attribute) and src(x) in ("root.data",) or (isinstance(x, ast.Name) and x.id == "root") for x in ast.walk(it)):
                    return False          # runs over pieces of the node's data
                return None
            ds = [s_.value for s_ in walk_local(f) if isinstance(s_, ast.Assign) and any(isinstance(t, ast.Name) and t.id == e.id for t in s_.targets)]
            rs = [whole(d, depth + 1) for d in ds]
            if not ds or None in rs:
                return None
            return all(rs)
        return None
    n = 0
    for c in [c for c in walk_local(f) if isinstance(c, ast.Call) and isinstance(c.func, ast.Name) and len(c.args) == 1]:
        name = c.func.id
        if name == "dataEscaper":
            continue          # the per-context escapers handed around as dataEscaper are the byte-wise ones (checked: escaper/all-bytes)
        if not name.startswith("escape"):
            continue
        reach, why = _escaper_reach(ctx, name)
        if reach != "context":
            continue
        n += 1
        v = whole(c.args[0])
        if v is None:
            raise Abstain(f"where the argument of {name}({src(c.args[0])}) comes from was not understood")
        ctx.check(v, "sink/whole-data-escaper", q + f" | {name}({src(c.args[0])})",
                  f"{name} {why}, so it has to see the node's whole character data; here it is given `{src(c.args[0])}`, a PIECE of it: a terminator that straddles two pieces is rewritten by "
                  "neither call and closes the section inside the data - the rest is parsed as markup")
    if n == 0:
        raise Abstain("no call of a context-sensitive escaper found in the normalised _flattenElement")


def _flatten_straddle(ctx):
    """BOUNDED: CDATA / comment / text data in which a terminator straddles every power-of-two offset from 2**10 to 2**17 (any plausible chunk size, BUFFER_SIZE among them),
    flattened through flatten(); judged with the tokenizer oracles"""
    w = _flat_world(ctx)
    q = Q + "flatten"
    bad, n = [], 0
    for kind, term in (("cdata", "]]>"), ("comment", "-->"), ("comment", "--!>"), ("text", "<b>")):
        for shift in range(1, len(term)):
            n += 1
            parts, pos = [], 0
            for k in range(10, 18):
                at = 2 ** k - shift          # the terminator starts `shift` characters before the boundary
                parts.append("a" * (at - pos))
                parts.append(term)
                pos = at + len(term)
            d = "".join(parts) + "<script>x</script>"
            node = Comment(d) if kind == "comment" else CDATA(d) if kind == "cdata" else d
            try:
                doc = _flatten(w, Tag("p", {}, [node, "TAIL"]))
            except ModelRaised as e:
                bad.append((kind, term, shift, f"raises {e.name}"))
                continue
            raw = d.encode("utf-8")
            if not (doc.startswith(b"<p>") and doc.endswith(b"TAIL</p>")):
                bad.append((kind, term, shift, "the element is not flattened as <p>...TAIL</p>"))
                continue
            inner = doc[3:-len(b"TAIL</p>")]
            if kind == "comment":
                end = html5_comment_end(inner + b"TAIL</p>") if inner.startswith(b"<!--") else -1
                if end != len(inner):
                    bad.append((kind, term, shift, f"an HTML tokenizer ends the comment at offset {end} of {len(inner)}: what follows ({inner[end:end + 30]!r}...) is markup"))
            elif kind == "cdata":
                got = _parse_cdata(inner)
                if got != raw:
                    first = inner.find(b"]]>")
                    bad.append((kind, term, shift, f"the CDATA section ends at offset {first} (a ']]>' of the data was not rewritten): what follows ({inner[first + 3:first + 33]!r}...) is markup"))
            else:
                if b"<" in inner or b">" in inner or html.unescape(inner.decode("utf-8")) != d:
                    bad.append((kind, term, shift, "the text does not come back unchanged / contains raw markup characters"))
    msg = ""
    if bad:
        kind, term, shift, why = bad[0]
        msg = (f"{ {'comment': 'Comment', 'cdata': 'CDATA', 'text': 'text'}[kind] } data with {term!r} starting {shift} character(s) before the offsets 2**10 .. 2**17: {why}; "
               f"{len(bad)} of {n} data strings wrong")
    ctx.check(not bad, "flatten/terminators-across-chunk-boundaries", q + " | <terminator straddling power-of-two offsets>", msg, detail=f"{n} data strings of ~128 KiB")


def _s_writer_chain(ctx):
    """STRUCTURAL: between the context's escaper and the caller's sink the bytes are only passed on (identity) or concatenated (the buffer): every writer that the public entry
    points hand down is the caller's writer itself or a nested function that forwards its argument unchanged.  A step that deletes / translates / re-encodes bytes after
    escaping would invalidate what the escapers guarantee (they looked for terminators in the bytes BEFORE that step)"""
    fl = ctx.func(FL, "flatten")
    q = Q + "flatten"
    up = param_names(fl)[2] if len(param_names(fl)) > 2 else None
    starts = [c for c in walk_local(fl) if isinstance(c, ast.Call) and call_name(c) == "_flattenTree"]
    if up is None or len(starts) != 1 or len(starts[0].args) < 3:
        raise Abstain("flatten() does not hand its writer to _flattenTree positionally")
    handed = starts[0].args[2]
    nested = {n.name: n for n in ast.walk(fl) if isinstance(n, ast.FunctionDef) and n is not fl}
    if isinstance(handed, ast.Name) and handed.id == up:
        ctx.ok("sink/output-not-rewritten", q + " | writer handed to _flattenTree")
    elif (isinstance(handed, ast.Name) and handed.id in nested) or isinstance(handed, ast.Lambda):
        wf = nested[handed.id] if isinstance(handed, ast.Name) else handed
        ps = [a.arg for a in wf.args.args]
        calls = [c for c in ast.walk(wf) if isinstance(c, ast.Call) and isinstance(c.func, ast.Name) and c.func.id == up]
        if not calls or len(ps) != 1:
            raise Abstain(f"the wrapper {getattr(wf, 'name', '<lambda>')} does not call the caller's writer")
        for c in calls:
            a = c.args[0] if len(c.args) == 1 and not c.keywords else None
            same = isinstance(a, ast.Name) and a.id == ps[0] and not any(isinstance(st, (ast.Assign, ast.AugAssign)) and ps[0] in [src(t) for t in getattr(st, "targets", [getattr(st, "target", None)]) if t is not None]
                                                                          for st in ast.walk(wf))
            ctx.check(same, "sink/output-not-rewritten", q + f".{getattr(wf, 'name', '<lambda>')} | {src(c)[:70]}",
                      f"the writer handed to the flattener passes `{src(a) if a is not None else src(c)}` on instead of the bytes it was given: output is rewritten AFTER the escapers "
                      "looked at it, so a byte removed / changed there can assemble a terminator ('--\\x00>' -> '-->', ']]\\x00>' -> ']]>') that the escaper never saw")
    else:
        raise Abstain(f"the writer handed to _flattenTree is `{src(handed)}`")
    fs = ctx.func(FL, "flattenString")
    for c in [c for c in walk_local(fs) if isinstance(c, ast.Call) and call_name(c) == "flatten" and len(c.args) >= 3]:
        a = c.args[2]
        ctx.check(isinstance(a, ast.Attribute) and a.attr == "write", "sink/output-not-rewritten", Q + "flattenString | writer handed to flatten",
                  f"flattenString collects the output through `{src(a)}`, not through the plain write method of its buffer")


def _s_slot_lookup(ctx):
    """STRUCTURAL (decision domain): whether a frame answers a slot lookup is decided by key PRESENCE only - the guards of `return <value of the frame>` mention the frame and the
    name (is None / in / truthiness of the frame), never the value"""
    f = ctx.func(FL, "_getSlotValue")
    q = Q + "_getSlotValue"
    ps = param_names(f)
    if len(ps) < 3:
        raise Abstain(f"signature {ps}")
    name, frames, default = ps[0], ps[1], ps[2]
    g = ctx.cfg(f)
    loops = [st for st in walk_local(f) if isinstance(st, ast.For) and frames in src(st.iter) and isinstance(st.target, ast.Name)]
    if len(loops) != 1:
        raise Abstain(f"{len(loops)} loops over the slot frames")
    fr = loops[0].target.id
    # names bound to the VALUE found in a frame: <frame>[name] / <frame>.get(name...)
    def is_value_expr(e):
        return (isinstance(e, ast.Subscript) and src(e.value) == fr) or (isinstance(e, ast.Call) and call_attr(e) == "get" and src(e.func.value) == fr) or \
               (isinstance(e, ast.IfExp) and (is_value_expr(e.body) or is_value_expr(e.orelse)))
    valnames = {t.id for st in ast.walk(loops[0]) if isinstance(st, ast.Assign) and is_value_expr(st.value) for t in st.targets if isinstance(t, ast.Name)}
    valnames |= {st.target.id for st in ast.walk(loops[0]) if isinstance(st, ast.NamedExpr) and is_value_expr(st.value)}
    rets = [st for st in ast.walk(loops[0]) if isinstance(st, ast.Return) and st.value is not None and (is_value_expr(st.value) or (isinstance(st.value, ast.Name) and st.value.id in valnames))]
    if not rets:
        raise Abstain("no `return <value of the frame>` inside the loop over the frames")

    def atoms(e):
        if isinstance(e, ast.BoolOp):
            return [a for v in e.values for a in atoms(v)]
        if isinstance(e, ast.UnaryOp) and isinstance(e.op, ast.Not):
            return atoms(e.operand)
        return [e]
    n = 0
    for r in rets:
        for i in g.ids_of(r):
            for t, lab in g.edge_guards(i):
                te = g.node(t).ast
                if te is None or not any(isinstance(x, ast.Name) and x.id in ({fr, name} | valnames) for x in ast.walk(te)):
                    continue
                for a in atoms(te):
                    n += 1
                    mentions_value = any((isinstance(x, ast.Name) and x.id in valnames) or is_value_expr(x) for x in ast.walk(a))
                    presence = (isinstance(a, ast.Compare) and len(a.ops) == 1 and (
                        (isinstance(a.ops[0], (ast.In, ast.NotIn)) and src(a.left) == name and src(a.comparators[0]) == fr) or
                        (isinstance(a.ops[0], (ast.Is, ast.IsNot, ast.Eq, ast.NotEq)) and src(a.left) == fr and src(a.comparators[0]) == "None"))) or (isinstance(a, ast.Name) and a.id == fr)
                    if mentions_value:
                        ctx.violation("slot/decision-by-presence", q + f" | guard `{src(a)}` of `{src(r)}`",
                                      f"whether a frame answers the lookup depends on the VALUE (`{src(a)}`): a slot filled with '', b'', [] or () counts as unfilled and an outer / "
                                      "earlier fill, the default or UnfilledSlot takes its place - content of one element shows up in another")
                    elif presence:
                        ctx.ok("slot/decision-by-presence", q + f" | guard `{src(a)}` of `{src(r)}`")
                    else:
                        raise Abstain(f"guard `{src(a)}` of the frame's answer is neither a presence test nor a test of the value")
    if n == 0:
        raise Abstain("the frame's answer is returned unguarded")


def _s_slot_frames(ctx):
    """STRUCTURAL: the slot frame a Tag pushes is popped again on every path that leaves the Tag's branch (so it scopes the Tag's own subtree only)"""
    f = norm_function(ctx, FL, "_flattenElement")
    g = ctx.cfg(f)
    q = Q + "_flattenElement"
    pushes = [(n, c) for n, c in call_sites(g, lambda c: call_attr(c) == "append" and isinstance(c.func.value, ast.Name) and len(c.args) == 1 and src(c.args[0]).endswith(".slotData"))]
    if not pushes:
        raise Abstain("no <stack>.append(<tag>.slotData) in _flattenElement")
    for n, c in pushes:
        stack = c.func.value.id
        pops = [m for m, c2 in call_sites(g, lambda c2: call_attr(c2) == "pop" and src(c2.func.value) == stack)]
        w = g.path([n], [g.exit], avoid=pops, edge_ok=lambda a, b, l: l != "exc")
        ctx.check(bool(pops) and w is None, "slot/frame-popped", q + f" | {src(c)}",
                  "the slot frame pushed for a Tag stays on the stack after the Tag has been flattened (there is a path to the end of the branch without a pop): a slot in a LATER sibling or "
                  "in the rest of the parent is answered from the finished Tag's fills instead of its own ancestors'", witness=g.describe(w))


def _slot_scope(ctx):
    """BOUNDED: a slot that FOLLOWS a filled sibling element is answered from its own ancestors"""
    w = _flat_world(ctx)
    q = Q + "_flattenElement"
    bad, n = [], 0
    for h in ("INNER <fill>", ""):
        inner = Tag("span", {}, [slot("v")])
        inner.slotData = {"v": h}
        for tree in (Tag("div", {}, ["[", inner, "]", slot("v")]), Tag("div", {}, [inner, Tag("i", {"title": slot("v")}, [])])):
            tree.slotData = {"v": "OUTER <fill>"}
            n += 1
            want = _expected(tree)
            try:
                doc = _flatten(w, tree)
            except ModelRaised as e:
                doc = f"raises {e.name}"
            try:
                got = _parse(doc) if isinstance(doc, bytes) else None
            except Exception:           # not well-formed: it certainly does not parse back to the tree that was built
                got = None
            if got != want:
                bad.append((tree, doc, got, want))
    msg = ""
    if bad:
        tree, doc, got, want = bad[0]
        msg = (f"{_describe(tree)} with the outer fill v='OUTER <fill>' and the span's own fill v='INNER <fill>' is flattened to {doc!r}: the slot after the span shows the span's "
               f"value; {len(bad)} of {n} trees wrong")
    ctx.check(not bad, "slot/frame-scope", q + " | slot after a filled sibling element", msg, detail=f"{n} trees")


class _Marker:
    """a slot value of which only identity matters"""
    _sa_model = True

    def __init__(self, label, truthy):
        self.label, self.truthy = label, truthy

    def __bool__(self):
        return self.truthy

    def __repr__(self):
        return self.label


def _fe_slot_lookup(ctx):
    """FINITE-EXHAUSTIVE over the abstract domain of a lookup: stacks of 0..3 frames, each frame None / empty / holding another key / holding the key with a falsy or a truthy
    value (str, bytes, list, tuple, object), default None / falsy / truthy.  Oracle: the innermost frame that HAS the key answers with its value (whatever it is), else the default
    unless it is None, else UnfilledSlot"""
    f = ctx.func(FL, "_getSlotValue")
    q = Q + "_getSlotValue"
    w = _flat_world(ctx)
    look = w.funcs["_getSlotValue"]
    falsy = ["", b"", [], (), _Marker("<falsy object>", False)]
    kinds = [("none", None), ("empty", {}), ("other", {"other": "o"}), ("truthy", None)] + [(f"falsy{i}", None) for i in range(len(falsy))]
    bad, n = [], 0
    for depth in range(0, 4):
        for combo in itertools.product(range(len(kinds)), repeat=depth):
            for dflt in (None, "", "DEFAULT"):
                frames, want = [], ("default",)
                for pos, k in enumerate(combo):
                    kind = kinds[k][0]
                    if kind == "truthy":
                        v = f"value{pos}"
                        frames.append({"s": v, "x": 1})
                        want = ("value", v)
                    elif kind.startswith("falsy"):
                        v = falsy[int(kind[5:])]
                        frames.append({"s": v})
                        want = ("value", v)
                    else:
                        frames.append(kinds[k][1] if kinds[k][1] is None else dict(kinds[k][1]))
                if depth == 3 and len(set(combo)) == 3 and n % 3:      # thin out the deepest level: every pair of kinds in every order is still covered by depth 2
                    n += 1
                    continue
                n += 1
                try:
                    got = ("value", look("s", frames, dflt))
                except ModelRaised as e:
                    got = ("raises", e.name)
                if want[0] == "default":
                    want_ = ("raises", "UnfilledSlot") if dflt is None else ("value", dflt)
                else:
                    want_ = want
                same = got[0] == want_[0] and (got[1] is want_[1] or (got[0] == "raises" and got[1] == want_[1]) or (isinstance(want_[1], (str, bytes)) and got[1] == want_[1] and type(got[1]) is type(want_[1])))
                if not same:
                    bad.append(([("None" if fr_ is None else repr(fr_)) for fr_ in frames], dflt, got, want_))
    msg = ""
    if bad:
        frs, dflt, got, want_ = bad[0]
        msg = (f"slot 's' looked up in the frames [{', '.join(frs)}] (innermost last), default {dflt!r}: {'gives ' + repr(got[1]) if got[0] == 'value' else 'raises ' + got[1]} instead of "
               f"{repr(want_[1]) if want_[0] == 'value' else 'raising ' + want_[1]}; {len(bad)} of {n} lookups wrong")
    ctx.check(not bad, "slot/nearest-frame-wins", q + " | <frame stacks x value kinds x default>", msg, detail=f"{n} lookups")


CONTROLS = [b"\x00", b"\x0b", b"\x1b", b"\x7f", b"\t", b"\n"]      # C0 controls that XML/HTML cannot carry, DEL, and two that they can


def _flatten_control(ctx):
    """BOUNDED: comment / CDATA / text data with a control character INSIDE a terminator sequence (every inner position of '-->', '--!>', ']]>', and before a leading '>'),
    flattened through flatten() itself; the document is judged with the tokenizer oracles: the comment / the CDATA sections end exactly where the flattener ended them and the
    data comes back unchanged"""
    w = _flat_world(ctx)
    q = Q + "flatten"
    bad, n = [], 0
    fam = []
    for c in CONTROLS:
        for term in (b"-->", b"--!>"):
            for i in range(1, len(term)):
                fam.append(("comment", b"a" + term[:i] + c + term[i:] + b"<script>x</script>"))
        fam.append(("comment", c + b"><script>x</script>"))
        fam.append(("comment", b"-" + c + b"><script>x</script>"))
        for i in range(1, 3):
            fam.append(("cdata", b"a" + b"]]>"[:i] + c + b"]]>"[i:] + b"<script>x</script>"))
        fam.append(("text", b"a" + c + b"<b>"))
    for kind, data in fam:
        n += 1
        d = data.decode("latin-1")
        node = Comment(d) if kind == "comment" else CDATA(d) if kind == "cdata" else d
        try:
            doc = _flatten(w, Tag("p", {}, [node, "TAIL"]))
        except ModelRaised as e:
            bad.append((kind, d, f"raises {e.name}"))
            continue
        raw = d.encode("utf-8")
        if not (doc.startswith(b"<p>") and doc.endswith(b"TAIL</p>")):
            bad.append((kind, d, f"is flattened to {doc!r}"))
            continue
        inner = doc[3:-len(b"TAIL</p>")]
        if kind == "comment":
            if not (inner.startswith(b"<!--") and inner.endswith(b"-->") and html5_comment_end(inner + b"TAIL</p>") == len(inner)):
                bad.append((kind, d, f"is flattened to {doc!r}: an HTML tokenizer ends the comment before the flattener's own '-->', the rest of the data is markup"))
        elif kind == "cdata":
            if _parse_cdata(inner) != raw:
                bad.append((kind, d, f"is flattened to {doc!r}: the CDATA sections " + ("end early / do not cover the data" if _parse_cdata(inner) is None else f"carry {_parse_cdata(inner)!r}")))
        else:
            if html.unescape(inner.decode("utf-8")) != d or b"<" in inner or b">" in inner:
                bad.append((kind, d, f"is flattened to {doc!r}: the text does not come back unchanged"))
    msg = ""
    if bad:
        kind, d, why = bad[0]
        msg = f"{ {'comment': 'Comment', 'cdata': 'CDATA', 'text': 'text'}[kind] }({d!r}) {why}; {len(bad)} of {n} data strings wrong"
    ctx.check(not bad, "flatten/terminators-with-control-characters", q + " | <control character inside '-->' / '--!>' / ']]>' / before a leading '>'>", msg, detail=f"{n} data strings")


# ---- (b) escapers ----------------------------------------------------------------------------------------
MODULE_ENV: dict = {}      # module-level compiled patterns / constants of _flatten.py (filled by check())


def _run(f, data, extra_funcs=None):
    funcs = {"isinstance": isinstance}
    funcs.update(extra_funcs or {})
    kind, val = interpret(f, dict(MODULE_ENV, **{param_names(f)[0]: data, "str": str, "bytes": bytes}), funcs=funcs)
    if kind != "return":
        raise InterpError(f"{f.name} raised {val}")
    return val


def _strings(alphabet, maxlen):
    for n in range(0, maxlen + 1):
        for combo in itertools.product(alphabet, repeat=n):
            yield "".join(combo)


def _escaper_structure(ctx):
    """Order / coverage rules on the `.replace()` idiom.  They apply only while the escapers are written as replace chains; any other idiom
    (translate tables, loops, regex) is judged by the finite-domain round-trip rules alone."""
    f = ctx.func(FL, "escapeForContent")
    q = Q + "escapeForContent"
    try:
        pairs = replace_chain(f)
    except AnalysisError:
        pairs = []
    if pairs:
        probs = escaper_problems(pairs, escape_unit=b"&")
        ctx.check(not probs, "escaper/rewrite-order", q, "; ".join(probs))
        olds = [o for o, n in pairs]
        for ch in (b"&", b"<", b">"):
            ctx.check(ch in olds, "escaper/metacharacters", q + f" | {ch.decode()}", f"{ch!r} is not rewritten in element content")
    else:
        ctx.note("escapeForContent is not a replace chain: judged by escaper/content-roundtrip only")
    f = ctx.func(FL, "writeWithAttributeEscaping._write")
    q = Q + "writeWithAttributeEscaping._write"
    wr = [c for c in walk_local(f) if isinstance(c, ast.Call) and call_name(c) == "write"]
    e = wr[0].args[0] if len(wr) == 1 and len(wr[0].args) == 1 else None
    chain = []
    while isinstance(e, ast.Call) and call_attr(e) == "replace" and len(e.args) >= 2:
        chain.insert(0, (_const(e.args[0]), _const(e.args[1])))
        e = e.func.value
    if chain and isinstance(e, ast.Call) and call_name(e) == "escapeForContent":
        ctx.check([src(a) for a in e.args] == param_names(f)[:1], "escaper/attribute-chain", q, "attribute output is not escapeForContent(data) followed by the quote replacement")
        ctx.check((b'"', b"&quot;") in chain, "escaper/metacharacters", q + ' | "', "the double quote is not rewritten inside attribute values")
        for o, n in chain:
            ctx.check(o not in (b"&",) and b'"' not in (n or b""), "escaper/rewrite-order", q + f" | {o!r}", "a replacement applied after escapeForContent re-introduces or re-escapes a metacharacter")
    else:
        ctx.note("writeWithAttributeEscaping._write is not `write(escapeForContent(data).replace(...))`: judged by escaper/attribute-roundtrip only")


def _unescape(b):
    """what a parser makes of the escaped text: named AND numeric character references are decoded (html.unescape, HTML5 rules)"""
    return html.unescape(b.decode("utf-8", "surrogateescape")).encode("utf-8", "surrogateescape")


LOOKALIKES = ["&#34;", "&#x22;", "&quot;", "&amp;", "&lt;", "&#60;x&#62;", "a&#34; onload=&#34;x", "&#34", "&#038;", "&amp;quot;", "&#x3c;", "&#39;", "&apos;", "&gt", "&AMP;", "&#0;"]


def _escaper_content(ctx):
    efc = ctx.func(FL, "escapeForContent")
    q = Q + "escapeForContent"
    bad = []
    n = 0
    try:
        for s in list(_strings(["&", "<", ">", '"', "a", ";", "l", "t"], 4)) + LOOKALIKES:
            for data in (s, s.encode()):
                n += 1
                out = _run(efc, data)
                okay = isinstance(out, bytes) and b"<" not in out and b">" not in out and _unescape(out) == s.encode()
                # every '&' starts one of our entities
                i = out.find(b"&") if isinstance(out, bytes) else -1
                while okay and i != -1:
                    okay = any(out.startswith(e, i) for e in (b"&amp;", b"&lt;", b"&gt;"))
                    i = out.find(b"&", i + 1)
                if not okay:
                    bad.append((data, out))
    except (InterpError, ModelRaised) as e:      # an exception of the interpreted code that no scenario expected is confined to this section
        raise AnalysisError(f"C28: escapeForContent not interpretable: {e}")
    ctx.check(not bad, "escaper/content-roundtrip", q, f"escapeForContent({bad[0][0]!r}) = {bad[0][1]!r}: raw markup survives or the text does not un-escape to itself ({len(bad)} of {n})" if bad else "",
              detail=f"{n} strings")


def _escaper_attribute(ctx):
    efc = ctx.func(FL, "escapeForContent")
    w = ctx.func(FL, "writeWithAttributeEscaping._write")
    q = Q + "writeWithAttributeEscaping._write"
    bad = []
    n = 0
    try:
        for s in list(_strings(["&", "<", ">", '"', "a", ";", "q"], 4)) + LOOKALIKES:
            n += 1
            captured = []
            funcs = {"isinstance": isinstance, "write": lambda d: captured.append(d), "escapeForContent": lambda d: _run(efc, d)}
            kind, val = interpret(w, dict(MODULE_ENV, **{param_names(w)[0]: s.encode(), "str": str, "bytes": bytes}), funcs=funcs)
            out = b"".join(captured) if all(isinstance(c, bytes) for c in captured) else None
            okay = kind == "return" and isinstance(out, bytes) and not (set(out) & set(b'<>"')) and _unescape(out) == s.encode()
            if not okay:
                bad.append((s, out))
    except (InterpError, ModelRaised) as e:      # an exception of the interpreted code that no scenario expected is confined to this section
        raise AnalysisError(f"C28: attribute escaper uses a construct the evaluator cannot interpret: {e}")
    ctx.check(not bad, "escaper/attribute-roundtrip", q, f"attribute text {bad[0][0]!r} is written as {bad[0][1]!r}: a quote/angle bracket survives or the value does not un-escape to itself ({len(bad)} of {n})" if bad else "",
              detail=f"{n} strings")
    a = ctx.func(FL, "attributeEscapingDoneOutside")
    bad = []
    try:
        for s in ("", "a", '<&">', "é"):
            for data in (s, s.encode()):
                if _run(a, data) != s.encode():
                    bad.append(data)
    except (InterpError, ModelRaised) as e:      # an exception of the interpreted code that no scenario expected is confined to this section
        raise AnalysisError(f"C28: attributeEscapingDoneOutside not interpretable: {e}")
    ctx.check(not bad, "escaper/attribute-roundtrip", Q + "attributeEscapingDoneOutside", f"the pass-through escaper changes {bad[:1]} (the outer writer would then escape a different text)")


def _parse_cdata(doc: bytes):
    """concatenated content of a run of CDATA sections covering doc exactly, else None"""
    pos, content = 0, b""
    while pos < len(doc):
        if not doc.startswith(b"<![CDATA[", pos):
            return None
        end = doc.find(b"]]>", pos + 9)
        if end == -1:
            return None
        content += doc[pos + 9:end]
        pos = end + 3
    return content


def _escaper_cdata(ctx):
    f = ctx.func(FL, "escapedCDATA")
    q = Q + "escapedCDATA"
    bad = []
    n = 0
    try:
        for s in list(_strings(["]", ">", "a", "<", "["], 4)) + ["]]]>", "]]>]]>", "a]]>b]]>", "]]]]>>", "]>]]>", "]]>]", "<![CDATA[]]>"]:
            n += 1
            out = _run(f, s if n % 2 else s.encode())
            got = _parse_cdata(b"<![CDATA[" + out + b"]]>") if isinstance(out, bytes) else None
            if got != s.encode():
                bad.append((s, out))
    except (InterpError, ModelRaised) as e:      # an exception of the interpreted code that no scenario expected is confined to this section
        raise AnalysisError(f"C28: escapedCDATA not interpretable: {e}")
    ctx.check(not bad, "escaper/cdata-sections", q, f"CDATA({bad[0][0]!r}) is written as {bad[0][1]!r}, which does not re-parse as CDATA sections with that content ({len(bad)} of {n})" if bad else "",
              detail=f"{n} strings")


def html5_comment_end(doc: bytes) -> int:
    """Index just after the comment that starts at doc[0:4] == b'<!--' according to the HTML5 tokenizer (13.2.5.43-52); len(doc)+1 on EOF inside it."""
    i = 4
    state = "start"
    n = len(doc)
    while True:
        c = doc[i:i + 1] if i < n else None
        if state == "start":
            if c == b"-":
                state, i = "start-dash", i + 1
            elif c == b">":
                return i + 1
            else:
                state = "comment"
        elif state == "start-dash":
            if c == b"-":
                state, i = "end", i + 1
            elif c == b">":
                return i + 1
            elif c is None:
                return n + 1
            else:
                state = "comment"
        elif state == "comment":
            if c is None:
                return n + 1
            if c == b"<":
                state = "lt"
            elif c == b"-":
                state = "end-dash"
            i += 1
        elif state == "lt":
            if c == b"!":
                state, i = "lt-bang", i + 1
            elif c == b"<":
                i += 1
            else:
                state = "comment"
        elif state == "lt-bang":
            if c == b"-":
                state, i = "lt-bang-dash", i + 1
            else:
                state = "comment"
        elif state == "lt-bang-dash":
            if c == b"-":
                state, i = "lt-bang-dash-dash", i + 1
            else:
                state = "end-dash"
        elif state == "lt-bang-dash-dash":
            state = "end"
        elif state == "end-dash":
            if c == b"-":
                state, i = "end", i + 1
            elif c is None:
                return n + 1
            else:
                state = "comment"
        elif state == "end":
            if c == b">":
                return i + 1
            elif c == b"!":
                state, i = "end-bang", i + 1
            elif c == b"-":
                i += 1
            elif c is None:
                return n + 1
            else:
                state = "comment"
        elif state == "end-bang":
            if c == b"-":
                state, i = "end-dash", i + 1
            elif c == b">":
                return i + 1
            elif c is None:
                return n + 1
            else:
                state = "comment"


def _escaper_comment(ctx):
    f = ctx.func(FL, "escapedComment")
    q = Q + "escapedComment"
    early, xml = [], []
    n = 0
    try:
        for s in list(_strings(["-", ">", "!", "<", "a"], 4)) + ["a--!>", "--!>a", "<!--a", "a-->b", "--->", "a---", "-->-->", "a--!a"]:
            n += 1
            out = _run(f, s if n % 2 else s.encode())
            if not isinstance(out, bytes):
                early.append((s, out))
                continue
            doc = b"<!--" + out + b"-->"
            if html5_comment_end(doc) != len(doc):
                early.append((s, doc))
            if b"--" in out or out.endswith(b"-"):
                xml.append((s, doc))
    except (InterpError, ModelRaised) as e:      # an exception of the interpreted code that no scenario expected is confined to this section
        raise AnalysisError(f"C28: escapedComment not interpretable: {e}")
    ctx.extra["comment_strings_evaluated"] = n
    ex = ", ".join(f"Comment({s!r}) -> {d.decode()}" for s, d in early[:4])
    ctx.check(not early, "escaper/comment-html5", q,
              f"an HTML5 tokenizer does not read the output as one comment ending at the final '-->' for {len(early)} of {n} strings, e.g. {ex}: the rest of the data becomes markup/text")
    ex = ", ".join(f"Comment({s!r}) -> {d.decode()}" for s, d in xml[:3])
    ctx.check(not xml, "escaper/comment-xml", q, f"the output is not well-formed XML comment data ('--' inside or a trailing '-') for {len(xml)} of {n} strings, e.g. {ex}")
    # the one thing it does today must stay: '-->' never survives and a trailing dash is separated
    surv = []
    for s in ("-->", "a-->b", "a-", "-", "a--"):
        out = _run(f, s)
        if b"-->" in out or out.endswith(b"-"):
            surv.append((s, out))
    ctx.check(not surv, "escaper/comment-terminator", q, f"'-->' survives in comment data or a trailing dash joins the closing delimiter: {surv[:2]}")


MUTANTS = [
    Mutant("children-flattened-directly-with-the-context-escaper", FL, '            yield keepGoing(root.children, escapeForContent)\n', '            yield _flattenElement(request, root.children, write, slotData, renderFactory, dataEscaper)\n', expect_rule="children/content-escaper"),
    Mutant("attribute-value-flattened-directly-with-the-plain-writer", FL, '            yield keepGoing(\n                v, attributeEscapingDoneOutside, write=writeWithAttributeEscaping(write)\n            )\n', '            yield _flattenElement(request, v, write, slotData, renderFactory, attributeEscapingDoneOutside)\n', expect_rule="attribute/escaped-outside"),
    Mutant("comment-escaped-in-two-halves", FL, "        write(escapedComment(root.data))\n", "        half = len(root.data) // 2\n        write(escapedComment(root.data[:half]))\n        write(escapedComment(root.data[half:]))\n", expect_rule="sink/whole-data-escaper"),
    Mutant("cdata-escaped-line-by-line", FL, "        write(escapedCDATA(root.data))\n", "        for line in root.data.splitlines(True):\n            write(escapedCDATA(line))\n", expect_rule="sink/whole-data-escaper"),
    Mutant("revert-F28c-tag-frame-never-popped", FL, "            yield keepGoing(root.children)\n            slotData.pop()\n            return\n", "            yield keepGoing(root.children)\n            return\n",
           more=[(FL, "            write(b\" />\")\n        # The slots filled on this tag are in scope for its own attributes and\n        # children only.\n        slotData.pop()\n", "            write(b\" />\")\n")],
           expect_rule="slot/frame-"),
    Mutant("void-element-frame-not-popped", FL, "            write(b\" />\")\n        # The slots filled on this tag are in scope for its own attributes and\n        # children only.\n        slotData.pop()\n",
           "            write(b\" />\")\n            return\n        slotData.pop()\n", expect_rule="slot/frame-popped"),
    Mutant("writer-drops-nul-bytes-after-escaping", FL, "    return ensureDeferred(_flattenTree(request, root, write))\n",
           "    return ensureDeferred(_flattenTree(request, root, lambda data: write(data.replace(b\"\\x00\", b\"\"))))\n", expect_rule="sink/output-not-rewritten"),
    Mutant("writer-normalises-line-ends-after-escaping", FL, "    return ensureDeferred(_flattenTree(request, root, write))\n",
           "    def tidy(data):\n        return write(data.replace(b\"\\r\", b\"\"))\n\n    return ensureDeferred(_flattenTree(request, root, tidy))\n"),
    Mutant("slot-answer-needs-a-truthy-value", FL, "        if slotFrame is not None and name in slotFrame:\n", "        if slotFrame is not None and slotFrame.get(name):\n", expect_rule="slot/"),
    Mutant("slot-lookup-outermost-frame-first", FL, "    for slotFrame in reversed(slotData):\n", "    for slotFrame in slotData:\n", expect_rule="slot/nearest-frame-wins"),
    Mutant("slot-default-only-when-truthy", FL, "        if default is not None:\n            return default\n", "        if default:\n            return default\n", expect_rule="slot/nearest-frame-wins"),
    Mutant("large-chunk-bypasses-buffer", FL, "        nonlocal bufSize\n        buf.append(bs)\n        bufSize += len(bs)\n", "        nonlocal bufSize\n        if len(bs) > BUFFER_SIZE:\n            write(bs)\n            return\n        buf.append(bs)\n        bufSize += len(bs)\n"),
    Mutant("flush-keeps-buffer", FL, "            write(b\"\".join(buf))\n            del buf[:]\n", "            write(b\"\".join(buf))\n"),
    Mutant("content-drops-gt", FL, "    data = data.replace(b\"&\", b\"&amp;\").replace(b\"<\", b\"&lt;\").replace(b\">\", b\"&gt;\")", "    data = data.replace(b\"&\", b\"&amp;\").replace(b\"<\", b\"&lt;\")"),
    Mutant("content-amp-last", FL, "    data = data.replace(b\"&\", b\"&amp;\").replace(b\"<\", b\"&lt;\").replace(b\">\", b\"&gt;\")", "    data = data.replace(b\"<\", b\"&lt;\").replace(b\">\", b\"&gt;\").replace(b\"&\", b\"&amp;\")"),
    Mutant("attribute-keeps-numeric-references", FL, "        write(escapeForContent(data).replace(b'\"', b\"&quot;\"))",
           "        data = data.replace(b\"&#\", b\"\\x00#\").replace(b\"&\", b\"&amp;\").replace(b\"\\x00#\", b\"&#\")\n        data = data.replace(b\"<\", b\"&lt;\").replace(b\">\", b\"&gt;\")\n        write(data.replace(b'\"', b\"&quot;\"))"),
    Mutant("attribute-quote-not-escaped", FL, "        write(escapeForContent(data).replace(b'\"', b\"&quot;\"))", "        write(escapeForContent(data))"),
    Mutant("attribute-quote-escaped-first", FL, "        write(escapeForContent(data).replace(b'\"', b\"&quot;\"))", "        write(escapeForContent(data.replace(b'\"', b\"&quot;\")))"),
    Mutant("text-written-raw-for-bytes", FL, "    if isinstance(root, (bytes, str)):\n        write(dataEscaper(root))", "    if isinstance(root, bytes):\n        write(root)\n    elif isinstance(root, str):\n        write(dataEscaper(root))"),
    Mutant("cdata-not-escaped", FL, "        write(escapedCDATA(root.data))", "        write(attributeEscapingDoneOutside(root.data))"),
    Mutant("cdata-split-wrong", FL, "    return data.replace(b\"]]>\", b\"]]]]><![CDATA[>\")", "    return data.replace(b\"]]>\", b\"]]><![CDATA[>\")"),
    Mutant("comment-terminator-kept", FL, "    data = data.replace(b\"-->\", b\"--&gt;\").replace(b\"--!>\", b\"--!&gt;\")\n", "    data = data.replace(b\"--!>\", b\"--!&gt;\")\n"),
    Mutant("revert-F28-html5-comment-ends", FL, "    data = data.replace(b\"-->\", b\"--&gt;\").replace(b\"--!>\", b\"--!&gt;\")\n    if data.startswith((b\">\", b\"->\")):\n        data = data.replace(b\">\", b\"&gt;\", 1)\n",
           "    data = data.replace(b\"-->\", b\"--&gt;\")\n", expect_rule="escaper/comment-html5"),
    Mutant("comment-bang-terminator-kept", FL, ".replace(b\"--!>\", b\"--!&gt;\")\n", "\n", expect_rule="escaper/comment-html5"),
    Mutant("comment-leading-dash-gt-kept", FL, "    if data.startswith((b\">\", b\"->\")):\n", "    if data.startswith(b\">\"):\n", expect_rule="escaper/comment-html5"),
    Mutant("comment-trailing-dash-kept", FL, "    if data and data[-1:] == b\"-\":\n        data += b\" \"\n", ""),
    Mutant("attribute-flattened-with-plain-writer", FL, "                v, attributeEscapingDoneOutside, write=writeWithAttributeEscaping(write)\n", "                v, escapeForContent\n"),
    Mutant("children-inherit-attribute-escaper", FL, "            yield keepGoing(root.children, escapeForContent)", "            yield keepGoing(root.children)"),
    Mutant("keepgoing-swaps-escaper-default", FL, "        dataEscaper: Callable[[Union[bytes, str]], bytes] = dataEscaper,\n        renderFactory: Optional[IRenderable] = renderFactory,",
           "        dataEscaper: Callable[[Union[bytes, str]], bytes] = attributeEscapingDoneOutside,\n        renderFactory: Optional[IRenderable] = renderFactory,"),
    Mutant("slot-value-unescaped", FL, "        yield keepGoing(slotValue)", "        yield keepGoing(slotValue, attributeEscapingDoneOutside)"),
    Mutant("tree-starts-unescaped", FL, "        _flattenElement(request, root, bufferedWrite, [], None, escapeForContent)", "        _flattenElement(request, root, bufferedWrite, [], None, attributeEscapingDoneOutside)"),
    Mutant("comment-close-before-data", FL, "        write(b\"<!--\")\n        write(escapedComment(root.data))\n        write(b\"-->\")", "        write(b\"<!--\")\n        write(b\"-->\")\n        write(escapedComment(root.data))"),
]
SILENT = [
    Silent("children-flattened-by-a-direct-recursive-call", FL, '            yield keepGoing(root.children, escapeForContent)\n', '            yield _flattenElement(request, root.children, write, slotData, renderFactory, escapeForContent)\n'),
    Silent("attribute-value-flattened-by-a-direct-call-with-a-named-quoting-writer", FL, '            yield keepGoing(\n                v, attributeEscapingDoneOutside, write=writeWithAttributeEscaping(write)\n            )\n', '            quoting = writeWithAttributeEscaping(write)\n            yield _flattenElement(request, v, quoting, slotData, renderFactory, attributeEscapingDoneOutside)\n'),
    Silent("text-escaped-in-two-pieces", FL, "        write(dataEscaper(root))\n", "        for part in (root[:4096], root[4096:]):\n            write(dataEscaper(part))\n"),
    Silent("cdata-data-through-a-local-name", FL, "        write(escapedCDATA(root.data))\n", "        wholeData = root.data\n        write(escapedCDATA(wholeData))\n"),
    Silent("tag-frame-popped-in-both-arms", FL, "            write(b\" />\")\n        # The slots filled on this tag are in scope for its own attributes and\n        # children only.\n        slotData.pop()\n",
           "            write(b\" />\")\n            slotData.pop()\n", more=[(FL, "            write(b\"</\" + tagName + b\">\")\n", "            write(b\"</\" + tagName + b\">\")\n            slotData.pop()\n")]),
    Silent("writer-passed-through-a-plain-forwarder", FL, "    return ensureDeferred(_flattenTree(request, root, write))\n",
           "    def passOn(data):\n        return write(data)\n\n    return ensureDeferred(_flattenTree(request, root, passOn))\n"),
    Silent("slot-frame-tested-by-truthiness", FL, "        if slotFrame is not None and name in slotFrame:\n", "        if slotFrame and name in slotFrame:\n"),
    Silent("slot-lookup-without-for-else", FL, "            return slotFrame[name]\n    else:\n        if default is not None:\n            return default\n        raise UnfilledSlot(name)\n",
           "            return slotFrame[name]\n    if default is not None:\n        return default\n    raise UnfilledSlot(name)\n"),
    Silent("dispatch-as-guard-clauses-with-inlined-temporaries", FL, "    if isinstance(root, (bytes, str)):\n        write(dataEscaper(root))\n    elif isinstance(root, slot):\n        slotValue = _getSlotValue(root.name, slotData, root.default)\n        yield keepGoing(slotValue)\n    elif isinstance(root, CDATA):",
           "    if isinstance(root, (bytes, str)):\n        write(dataEscaper(root))\n        return\n    if isinstance(root, slot):\n        yield keepGoing(_getSlotValue(root.name, slotData, root.default))\n        return\n    if isinstance(root, CDATA):"),
    Silent("content-escaper-by-regex-table", FL, "    data = data.replace(b\"&\", b\"&amp;\").replace(b\"<\", b\"&lt;\").replace(b\">\", b\"&gt;\")",
           "    for old, new in ((b\"&\", b\"&amp;\"), (b\"<\", b\"&lt;\")):\n        data = new.join(data.split(old))\n    data = b\"&gt;\".join(data.split(b\">\"))"),
    Silent("large-chunk-flushes-first", FL, "        nonlocal bufSize\n        buf.append(bs)\n        bufSize += len(bs)\n", "        nonlocal bufSize\n        if len(bs) > BUFFER_SIZE:\n            flushBuffer()\n            write(bs)\n            return\n        buf.append(bs)\n        bufSize += len(bs)\n"),
    Silent("content-translate-loop", FL, "    data = data.replace(b\"&\", b\"&amp;\").replace(b\"<\", b\"&lt;\").replace(b\">\", b\"&gt;\")",
           "    for old, new in ((b\"&\", b\"&amp;\"), (b\"<\", b\"&lt;\"), (b\">\", b\"&gt;\")):\n        data = data.replace(old, new)"),
    Silent("attribute-write-in-steps", FL, "        write(escapeForContent(data).replace(b'\"', b\"&quot;\"))", "        escaped = escapeForContent(data)\n        escaped = escaped.replace(b'\"', b\"&quot;\")\n        write(escaped)"),
    Silent("content-separate-statements", FL, "    data = data.replace(b\"&\", b\"&amp;\").replace(b\"<\", b\"&lt;\").replace(b\">\", b\"&gt;\")",
           "    data = data.replace(b\"&\", b\"&amp;\")\n    data = data.replace(b\">\", b\"&gt;\")\n    data = data.replace(b\"<\", b\"&lt;\")"),
    Silent("attribute-escapes-apostrophe-too", FL, "        write(escapeForContent(data).replace(b'\"', b\"&quot;\"))", "        write(escapeForContent(data).replace(b'\"', b\"&quot;\").replace(b\"\\t\", b\"&#9;\"))"),
    Silent("comment-leading-gt-by-slices", FL, "    if data.startswith((b\">\", b\"->\")):\n        data = data.replace(b\">\", b\"&gt;\", 1)\n",
           "    if data[:1] == b\">\":\n        data = b\"&gt;\" + data[1:]\n    elif data[:2] == b\"->\":\n        data = b\"-&gt;\" + data[2:]\n"),
    Silent("comment-endswith", FL, "    if data and data[-1:] == b\"-\":\n        data += b\" \"\n", "    if data.endswith(b\"-\"):\n        data = data + b\" \"\n"),
    Silent("keyword-escaper-for-children", FL, "            yield keepGoing(root.children, escapeForContent)", "            yield keepGoing(root.children, dataEscaper=escapeForContent)"),
]
