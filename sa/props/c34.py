"""C34 - RFC 1982 serial-number arithmetic is implemented exactly."""
from __future__ import annotations

import ast
from typing import Dict, List, Optional, Tuple

from sa.astx import dotted, src
from sa.effects import class_accesses
from sa.selftest import Mutant, Silent
from sa.source import AnalysisError, base_names, methods

PROPERTY = "C34"
RFC = "names/_rfc1982.py"
Q = "twisted.names._rfc1982.SerialNumber"
TECHNIQUE = "exhaustive evaluation over small rings justified by a structural width-uniformity check"
EXPLANATION = (
    'STRUCTURAL: the width enters __init__ only as the exponent of a power of two, and '
    '__eq__/__lt__/__gt__/__le__/__ge__/__add__ (with the module-level helpers they call) combine the numbers only by +, -, '
    '% and order/equality comparisons in integer arithmetic - no hash()/float()/str() image of a number (rule width-uniform); '
    '__eq__ compares the ring value _number of both operands itself (rule eq-on-ring-value; other shapes abstain); the five fields are written only in '
    '__init__; the base class adds no comparison behaviour. FINITE-EXHAUSTIVE under that argument: every comparison is then '
    'a Boolean combination of atoms +-(a-b) [mod M] ~ 0|H|M, constant on the cells sign(a-b) x cmp(|a-b|, halfRing), all of '
    'which are inhabited from width 3 on, so evaluating ALL pairs of widths 1..5 (1..7 thorough) against RFC 1982 3.2 '
    'written as d=(b-a) mod 2^bits decides every width; likewise __add__ (value, same width, greater for n>0, '
    'ArithmeticError beyond 2^(bits-1)-1). When the argument cannot be established (e.g. true division) the same rules are '
    "emitted as '-sampled' = bounded. BOUNDED: ring constants for widths 1..64/96/128, boundary representatives of widths "
    'up to 128 (n = 2^(bits-1)-1 and 2^(bits-1) exactly; this is what exposes float rounding from 55 bits on; distances k*(2^61-1), '
    'k*(2^31-1), k*2^53 that vanish under hash()/float reductions), refusal of '
    'other widths/types. Not decided: the RFC 4034 date-string helpers.'
)
RULE_KINDS = {
    "rfc1982/base-is-inert": "structural",
    "rfc1982/fields-immutable": "structural",
    "rfc1982/width-uniform": "structural",
    "rfc1982/eq-on-ring-value": "structural",
    "rfc1982/addend-unreduced-at-range-check": "structural",   # no conversion step on the way into __add__ constructs a SerialNumber from the raw operand       # the two sides of __eq__'s comparison derive from _number by identity (not through hash/float/str)
    # decided by evaluating ALL pairs of widths 1..5; complete for every width when rfc1982/width-uniform holds (see its detail)
    "rfc1982/compare-table": "finite-exhaustive",
    "rfc1982/add-": "finite-exhaustive",
    "rfc1982/compare-table-sampled": "bounded",      # same evaluation, emitted under this name when the uniformity argument could not be checked
    "rfc1982/add-value-sampled": "bounded", "rfc1982/add-greater-sampled": "bounded", "rfc1982/add-refuses-large-sampled": "bounded",
    "rfc1982/ring-constants": "bounded",              # the constructor evaluated for widths 1..64, 96, 128
    "rfc1982/refuses-other-width": "bounded",
    "rfc1982/add-plain-int": "bounded",
}
ASSUMPTIONS = [
    "hash() of an int is modelled as CPython on a 64-bit platform does it (reduction modulo sys.hash_info.modulus == 2**61 - 1, -1 mapped to -2)",
    "SerialNumber's base class FancyStrMixin defines no comparison/arithmetic special method (checked: rule rfc1982/base-is-inert)",
    "the comparison expressions are piecewise constant between the evaluated boundary representatives for widths above 5 "
    "(they are built from integer comparisons of a, b, a-b, b-a, halfRing, modulo)",
]

# --------------------------------------------------------------------------------------------------
# A whitelisted interpreter for the (tiny, pure) subset of Python used by SerialNumber.


class _Unsupported(Exception):
    pass


class _Raised(Exception):
    """An exception raised by the interpreted code (only its class name is modelled)."""

    def __init__(self, name: str):
        super().__init__(name)
        self.name = name


class _NotImpl:
    def __repr__(self):
        return "NotImplemented"


NOTIMPL = _NotImpl()

_EXC_PARENTS = {
    "TypeError": "Exception", "ValueError": "Exception", "ArithmeticError": "Exception", "OverflowError": "ArithmeticError",
    "ZeroDivisionError": "ArithmeticError", "AttributeError": "Exception", "KeyError": "LookupError", "IndexError": "LookupError",
    "LookupError": "Exception", "NotImplementedError": "RuntimeError", "RuntimeError": "Exception", "AssertionError": "Exception",
    "Exception": "BaseException", "BaseException": None,
}


def _exc_isa(name: str, handler: str) -> bool:
    seen = 0
    cur: Optional[str] = name
    while cur is not None and seen < 10:
        if cur == handler:
            return True
        cur = _EXC_PARENTS.get(cur, "Exception" if cur not in ("BaseException",) else None)
        seen += 1
    return False


class _Obj:
    __slots__ = ("fields",)

    def __init__(self):
        self.fields: Dict[str, object] = {}

    def __repr__(self):
        return f"SerialNumber({self.fields.get('_number')!r}, serialBits={self.fields.get('_serialBits')!r})"


class _ClassRef:
    pass


class _Fn:
    """A function value of the interpreted code: a def (method, module-level function, nested function) with the environment it closes over."""

    def __init__(self, fdef, closure: Optional[Dict[str, object]] = None):
        self.fdef, self.closure = fdef, closure if closure is not None else {}

    def __repr__(self):
        return f"<function {self.fdef.name}>"


class _Op:
    """A function of the `operator` module as a first-class value."""

    def __init__(self, name: str):
        self.name = name

    def __repr__(self):
        return f"<operator.{self.name}>"


_BUILTIN_TYPES = {"int": int, "float": float, "bool": bool, "str": str, "bytes": bytes, "tuple": tuple, "object": object, "numbers.Integral": int, "Integral": int}
_OP_CMP = {"lt": ast.Lt, "le": ast.LtE, "gt": ast.Gt, "ge": ast.GtE, "eq": ast.Eq, "ne": ast.NotEq, "is_": ast.Is, "is_not": ast.IsNot}
_OP_BIN = {"add": ast.Add, "sub": ast.Sub, "mod": ast.Mod, "mul": ast.Mult, "floordiv": ast.FloorDiv, "truediv": ast.Div, "pow": ast.Pow, "lshift": ast.LShift,
           "rshift": ast.RShift, "and_": ast.BitAnd, "or_": ast.BitOr, "xor": ast.BitXor}
_IDENTITY_DECORATORS = ("wraps", "functools.wraps")       # @wraps(f) copies metadata only

_CMP_METHOD = {ast.Eq: ("__eq__", "__eq__"), ast.NotEq: ("__ne__", "__ne__"), ast.Lt: ("__lt__", "__gt__"), ast.Gt: ("__gt__", "__lt__"),
               ast.LtE: ("__le__", "__ge__"), ast.GtE: ("__ge__", "__le__")}


_HASH_MODULUS = (1 << 61) - 1     # sys.hash_info.modulus of 64-bit CPython: int hashes are reduced modulo this prime


class Interp:
    def __init__(self, cls: ast.ClassDef, mod=None):
        self.cls = cls
        self.mod = mod
        self.methods = methods(cls)
        self.classref = _ClassRef()
        self.fuel = 0
        self._mvals: Dict[str, object] = {}

    # ---- hash(): CPython on a 64-bit platform (sys.hash_info.modulus == 2**61 - 1) ------------
    @staticmethod
    def _int_hash(v: int) -> int:
        h = abs(v) % _HASH_MODULUS
        h = -h if v < 0 else h
        return -2 if h == -1 else h

    def _hash(self, v):
        if isinstance(v, bool) or isinstance(v, int):
            return self._int_hash(int(v))
        if isinstance(v, float):
            if v != v or v in (float("inf"), float("-inf")):
                raise _Unsupported("hash of a non-finite float")
            return hash(v)          # numeric hashes are not randomised; equal to the int hash for integral values
        if v is None:
            raise _Unsupported("hash(None) is address-dependent before Python 3.12")
        if isinstance(v, tuple):
            return hash(tuple(self._hash(x) for x in v))   # a tuple's hash is a fixed function of its items' hashes; hash(h) == h for a reduced h
        if isinstance(v, _Obj):
            if "__hash__" in self.methods:
                r = self.call(v, "__hash__", [])
                if isinstance(r, bool) or not isinstance(r, int):
                    raise _Raised("TypeError")
                return self._int_hash(r)
            if "__eq__" in self.methods:
                raise _Raised("TypeError")   # a class defining __eq__ without __hash__ is unhashable
            raise _Unsupported("identity hash")
        raise _Unsupported(f"hash of {type(v).__name__}")

    # ---- entry points -----------------------------------------------------------------------
    def construct(self, *args, **kw) -> _Obj:
        o = _Obj()
        if "__init__" not in self.methods:
            raise AnalysisError("SerialNumber.__init__ vanished")
        self.call(o, "__init__", list(args), dict(kw))
        return o

    def call(self, obj: _Obj, name: str, args: List[object], kw: Optional[Dict[str, object]] = None):
        f = self.methods.get(name)
        if f is None:
            raise _Unsupported(f"method {name} not defined in the class")
        return self._apply(self._method_value(name), [obj] + list(args), kw or {})

    def _method_value(self, name: str):
        """What the class attribute `name` is bound to: the def itself, or - for a decorated method - the result of calling its decorators (private
        module-level functions, interpreted once, as at class creation)."""
        if name not in self._mvals:
            f = self.methods[name]
            self._mvals[name] = self._decorate(_Fn(f, {}), f, {})
        return self._mvals[name]

    def _decorate(self, val, f, env):
        for d in reversed(getattr(f, "decorator_list", [])):
            if isinstance(d, ast.Call) and (dotted(d.func) or "") in _IDENTITY_DECORATORS:
                continue
            nm = dotted(d) or ""
            if nm in ("staticmethod", "classmethod", "property") or nm.startswith("typing.") or nm in ("overload", "final"):
                raise _Unsupported("decorator " + nm)
            dec = self._expr(d, env)
            val = self._apply(dec, [val], {})
        return val

    def _apply(self, callee, args: List[object], kw: Dict[str, object]):
        if isinstance(callee, _Fn):
            self.fuel += 1
            if self.fuel > 200:
                raise _Unsupported("call depth")
            try:
                env = dict(callee.closure)
                env.update(self._bind(callee.fdef, list(args), kw))
                r = self._block(callee.fdef.body, env)
                return r[1] if r is not None else None
            finally:
                self.fuel -= 1
        if isinstance(callee, _Op):
            if kw or len(args) != 2:
                if callee.name == "neg" and len(args) == 1 and isinstance(args[0], (int, float)) and not kw:
                    return -args[0]
                raise _Raised("TypeError")
            a, b = args
            if callee.name in _OP_CMP:
                return self._cmp(_OP_CMP[callee.name], a, b)
            return self._arith(_OP_BIN[callee.name](), a, b)
        if callee is self.classref:
            return self.construct(*args, **kw)
        raise _Unsupported(f"call of {callee!r}")

    def compare(self, op, a, b):
        """Python's rich-comparison protocol restricted to the interpreted class."""
        m, refl = _CMP_METHOD[op]
        if isinstance(a, _Obj):
            r = self._dunder(a, m, b)
            if r is not NOTIMPL:
                return r
        if isinstance(b, _Obj):
            r = self._dunder(b, refl, a)
            if r is not NOTIMPL:
                return r
        if op is ast.Eq:
            return a is b
        if op is ast.NotEq:
            return a is not b
        raise _Raised("TypeError")

    def _dunder(self, o: _Obj, m: str, other):
        if m in self.methods:
            return self.call(o, m, [other])
        if m == "__ne__" and "__eq__" in self.methods:  # object.__ne__ inverts __eq__
            r = self.call(o, "__eq__", [other])
            return r if r is NOTIMPL else (not r)
        return NOTIMPL

    # ---- machinery ----------------------------------------------------------------------------
    def _bind(self, f: ast.FunctionDef, args: List[object], kw: Dict[str, object]) -> Dict[str, object]:
        a = f.args
        if a.vararg or a.kwarg or a.posonlyargs:
            raise _Unsupported("signature")
        params = [p.arg for p in a.args]
        env: Dict[str, object] = {}
        if len(args) > len(params):
            raise _Raised("TypeError")
        for p, v in zip(params, args):
            env[p] = v
        for k, v in kw.items():
            if k in env or (k not in params and k not in [p.arg for p in a.kwonlyargs]):
                raise _Raised("TypeError")
            env[k] = v
        defaults = dict(zip(params[len(params) - len(a.defaults):], a.defaults))
        for p in params:
            if p not in env:
                if p not in defaults:
                    raise _Raised("TypeError")
                env[p] = self._expr(defaults[p], {})
        for p, d in zip(a.kwonlyargs, a.kw_defaults):
            if p.arg not in env:
                if d is None:
                    raise _Raised("TypeError")
                env[p.arg] = self._expr(d, {})
        return env

    def _block(self, stmts, env) -> Optional[Tuple[str, object]]:
        for st in stmts:
            r = self._stmt(st, env)
            if r is not None:
                return r
        return None

    def _stmt(self, st, env):
        if isinstance(st, ast.Expr):
            if not isinstance(st.value, ast.Constant):
                self._expr(st.value, env)
            return None
        if isinstance(st, ast.Pass):
            return None
        if isinstance(st, (ast.Assign, ast.AnnAssign)):
            if isinstance(st, ast.AnnAssign):
                if st.value is None:
                    return None
                targets = [st.target]
            else:
                targets = st.targets
            v = self._expr(st.value, env)
            for t in targets:
                self._store(t, v, env)
            return None
        if isinstance(st, ast.Return):
            return ("return", self._expr(st.value, env) if st.value is not None else None)
        if isinstance(st, ast.If):
            return self._block(st.body if self._truth(self._expr(st.test, env)) else st.orelse, env)
        if isinstance(st, ast.Raise):
            if st.exc is None:
                cur = env.get("<exc>")
                if cur is None:
                    raise _Unsupported("bare raise outside handler")
                raise _Raised(cur)  # type: ignore[arg-type]
            e = st.exc.func if isinstance(st.exc, ast.Call) else st.exc
            name = dotted(e)
            if name is None:
                raise _Unsupported("raise " + src(st.exc))
            raise _Raised(name.split(".")[-1])
        if isinstance(st, ast.Try):
            try:
                try:
                    r = self._block(st.body, env)
                    if r is None and st.orelse:
                        r = self._block(st.orelse, env)
                except _Raised as ex:
                    for h in st.handlers:
                        if self._handles(h, ex.name):
                            if h.name:
                                raise _Unsupported("except ... as name")
                            env2 = env
                            env2["<exc>"] = ex.name
                            r = self._block(h.body, env2)
                            break
                    else:
                        raise
            finally:
                if st.finalbody:
                    fr = self._block(st.finalbody, env)
                    if fr is not None:
                        return fr
            return r
        if isinstance(st, ast.FunctionDef):
            env[st.name] = self._decorate(_Fn(st, env), st, env)     # closes over the live environment, as Python does
            return None
        raise _Unsupported("statement " + type(st).__name__)

    @staticmethod
    def _handles(h: ast.ExceptHandler, name: str) -> bool:
        if h.type is None:
            return True
        ts = h.type.elts if isinstance(h.type, ast.Tuple) else [h.type]
        for t in ts:
            d = dotted(t)
            if d is None:
                raise _Unsupported("handler type")
            if _exc_isa(name, d.split(".")[-1]):
                return True
        return False

    def _store(self, t, v, env):
        if isinstance(t, ast.Name):
            env[t.id] = v
        elif isinstance(t, ast.Attribute):
            o = self._expr(t.value, env)
            if not isinstance(o, _Obj):
                raise _Unsupported("attribute store on a non-instance")
            o.fields[t.attr] = v
        elif isinstance(t, (ast.Tuple, ast.List)):
            vs = list(v) if isinstance(v, (tuple, list)) else None
            if vs is None or len(vs) != len(t.elts):
                raise _Unsupported("unpacking")
            for e, x in zip(t.elts, vs):
                self._store(e, x, env)
        else:
            raise _Unsupported("store target")

    @staticmethod
    def _truth(v) -> bool:
        if v is NOTIMPL:
            return True  # bool(NotImplemented) is True (deprecated but true)
        if isinstance(v, _Obj):
            return True
        return bool(v)

    def _expr(self, n, env):
        if isinstance(n, ast.Constant):
            return n.value
        if isinstance(n, ast.Name):
            if n.id in env:
                return env[n.id]
            if n.id == "NotImplemented":
                return NOTIMPL
            if n.id == self.cls.name:
                return self.classref
            if self.mod is not None:
                d = self.mod.find(n.id)
                if isinstance(d, ast.FunctionDef):
                    return self._decorate(_Fn(d, {}), d, {})
                v = self.mod.module_assign(n.id)
                if isinstance(v, ast.Constant) and isinstance(v.value, (int, float, str, bytes, bool, type(None))):
                    return v.value
            raise _Unsupported("name " + n.id)
        if isinstance(n, ast.Attribute):
            if isinstance(n.value, ast.Name) and n.value.id == "operator" and "operator" not in env and (n.attr in _OP_CMP or n.attr in _OP_BIN or n.attr == "neg"):
                return _Op(n.attr)
            o = self._expr(n.value, env)
            if isinstance(o, _Obj):
                if n.attr == "__class__":
                    return self.classref
                if n.attr in o.fields:
                    return o.fields[n.attr]
                if n.attr in self.methods:
                    raise _Unsupported("bound method value")
                raise _Raised("AttributeError")
            raise _Raised("AttributeError")
        if isinstance(n, ast.Tuple):
            return tuple(self._expr(e, env) for e in n.elts)
        if isinstance(n, ast.UnaryOp):
            v = self._expr(n.operand, env)
            if isinstance(n.op, ast.Not):
                return not self._truth(v)
            if not isinstance(v, (int, float)):
                raise _Raised("TypeError")
            if isinstance(n.op, ast.USub):
                return -v
            if isinstance(n.op, ast.UAdd):
                return +v
            if isinstance(n.op, ast.Invert):
                return ~v
        if isinstance(n, ast.BoolOp):
            v = None
            for e in n.values:
                v = self._expr(e, env)
                t = self._truth(v)
                if isinstance(n.op, ast.And) and not t:
                    return v
                if isinstance(n.op, ast.Or) and t:
                    return v
            return v
        if isinstance(n, ast.IfExp):
            return self._expr(n.body if self._truth(self._expr(n.test, env)) else n.orelse, env)
        if isinstance(n, ast.BinOp):
            return self._arith(n.op, self._expr(n.left, env), self._expr(n.right, env))
        if isinstance(n, ast.Compare):
            left = self._expr(n.left, env)
            res = True
            for op, rn in zip(n.ops, n.comparators):
                right = self._expr(rn, env)
                res = self._cmp(type(op), left, right)
                if not self._truth(res):
                    return res
                left = right
            return res
        if isinstance(n, ast.Call):
            return self._call(n, env)
        raise _Unsupported("expression " + type(n).__name__)

    def _arith(self, op, a, b):
        if isinstance(a, _Obj) or isinstance(b, _Obj):
            if isinstance(op, ast.Add) and isinstance(a, _Obj):
                r = self._dunder(a, "__add__", b)
                if r is not NOTIMPL:
                    return r
            raise _Raised("TypeError")
        if not (isinstance(a, (int, float)) and isinstance(b, (int, float))):
            raise _Raised("TypeError")
        try:
            if isinstance(op, ast.Div):
                return a / b
            if isinstance(a, float) or isinstance(b, float):
                # float arithmetic (a value that went through true division): Python semantics, including rounding
                fops = {ast.Add: lambda: a + b, ast.Sub: lambda: a - b, ast.Mult: lambda: a * b, ast.Mod: lambda: a % b, ast.FloorDiv: lambda: a // b,
                        ast.Pow: lambda: a ** b if abs(b) <= 4096 else (_ for _ in ()).throw(_Unsupported("pow range"))}
                if type(op) in fops:
                    return fops[type(op)]()
                raise _Raised("TypeError")      # shifts / bit operations on floats
            if isinstance(op, ast.Add):
                return a + b
            if isinstance(op, ast.Sub):
                return a - b
            if isinstance(op, ast.Mult):
                return a * b
            if isinstance(op, ast.Mod):
                return a % b
            if isinstance(op, ast.FloorDiv):
                return a // b
            if isinstance(op, ast.Pow):
                if b < 0 or b > 4096:
                    raise _Unsupported("pow range")
                return a ** b
            if isinstance(op, ast.LShift):
                if b < 0 or b > 4096:
                    raise _Unsupported("shift range")
                return a << b
            if isinstance(op, ast.RShift):
                return a >> b
            if isinstance(op, ast.BitAnd):
                return a & b
            if isinstance(op, ast.BitOr):
                return a | b
            if isinstance(op, ast.BitXor):
                return a ^ b
        except ZeroDivisionError:
            raise _Raised("ZeroDivisionError")
        except OverflowError:
            raise _Raised("OverflowError")
        except ValueError:
            raise _Raised("ValueError")
        raise _Unsupported("operator " + type(op).__name__)

    def _cmp(self, op, a, b):
        if op in (ast.Is, ast.IsNot):
            same = a is b or (a is None and b is None)
            return same if op is ast.Is else not same
        if op not in _CMP_METHOD:
            raise _Unsupported("comparison " + op.__name__)
        if isinstance(a, _Obj) or isinstance(b, _Obj):
            return self.compare(op, a, b)
        if a is NOTIMPL or b is NOTIMPL:
            raise _Unsupported("comparison with NotImplemented")
        try:
            return {ast.Eq: lambda: a == b, ast.NotEq: lambda: a != b, ast.Lt: lambda: a < b, ast.Gt: lambda: a > b,
                    ast.LtE: lambda: a <= b, ast.GtE: lambda: a >= b}[op]()
        except TypeError:
            raise _Raised("TypeError")

    def _call(self, n: ast.Call, env):
        f = n.func
        if any(isinstance(a, ast.Starred) for a in n.args) or any(k.arg is None for k in n.keywords):
            raise _Unsupported("star arguments")
        fname = dotted(f)
        # builtins
        if fname == "isinstance" and len(n.args) == 2 and not n.keywords:
            v = self._expr(n.args[0], env)
            spec = n.args[1]
            for t in (spec.elts if isinstance(spec, ast.Tuple) else [spec]):
                tn = dotted(t) or ""
                if tn in _BUILTIN_TYPES and tn not in env:
                    if not isinstance(v, (_Obj, _Fn, _Op, _ClassRef, _NotImpl)) and isinstance(v, _BUILTIN_TYPES[tn]):
                        return True
                    continue
                c = self._expr(t, env)
                if c is not self.classref:
                    raise _Unsupported("isinstance against " + src(t))
                if isinstance(v, _Obj):
                    return True
            return False
        args = [self._expr(a, env) for a in n.args]
        kw = {k.arg: self._expr(k.value, env) for k in n.keywords}
        if fname == "int" and len(args) == 1 and not kw:
            v = args[0]
            if isinstance(v, _Obj):
                return self.call(v, "__int__", [])
            if isinstance(v, (int, float)):
                try:
                    return int(v)
                except (OverflowError, ValueError) as e:
                    raise _Raised(type(e).__name__)
            raise _Raised("TypeError")
        if fname == "type" and len(args) == 1 and isinstance(args[0], _Obj):
            return self.classref
        if fname == "hash" and len(args) == 1 and not kw and "hash" not in env:
            return self._hash(args[0])
        if fname in ("abs", "min", "max") and args and all(isinstance(a, (int, float)) for a in args) and not kw:
            return {"abs": abs, "min": min, "max": max}[fname](*args)
        if isinstance(f, ast.Attribute) and not (isinstance(f.value, ast.Name) and f.value.id == "operator" and "operator" not in env):
            recv = self._expr(f.value, env)
            if isinstance(recv, _Obj) and f.attr in self.methods:
                return self.call(recv, f.attr, args, kw)
            if recv is self.classref and f.attr in self.methods and args and isinstance(args[0], _Obj):
                return self.call(args[0], f.attr, args[1:], kw)  # SerialNumber.__lt__(self, other)
            raise _Unsupported("call " + src(f))
        # a function value: a local bound to a def / closure / operator function, a (private) module-level function, the class itself
        return self._apply(self._expr(f, env), args, kw)


# --------------------------------------------------------------------------------------------------
# Oracle: RFC 1982 section 3.2 written on d = (b - a) mod 2^bits.

def _oracle(a: int, b: int, bits: int) -> Dict[str, bool]:
    m = 1 << bits
    h = m >> 1
    d = (b - a) % m
    eq = d == 0
    lt = 0 < d < h
    gt = d > h
    return {"__eq__": eq, "__lt__": lt, "__gt__": gt, "__le__": eq or lt, "__ge__": eq or gt}


_OPS = {"__eq__": ast.Eq, "__lt__": ast.Lt, "__gt__": ast.Gt, "__le__": ast.LtE, "__ge__": ast.GtE}
_SYM = {"__eq__": "==", "__lt__": "<", "__gt__": ">", "__le__": "<=", "__ge__": ">="}


def _cell(a: int, b: int, bits: int) -> str:
    h = 1 << (bits - 1)
    s = "a=b" if a == b else ("a<b" if a < b else "a>b")
    if a == b:
        return "a=b"
    d = abs(a - b)
    return f"{s}, |a-b|{'<' if d < h else ('=' if d == h else '>')}halfRing"


EXHAUSTIVE_QUICK = (1, 2, 3, 4, 5)
EXHAUSTIVE_THOROUGH = (1, 2, 3, 4, 5, 6, 7)
BOUNDARY_WIDTHS = (6, 7, 8, 16, 32, 53, 54, 55, 56, 64, 96, 128)   # >= 55 bits: 2**(bits-1) - 1 is no longer a float


def _pairs(bits: int, exhaustive: bool):
    m = 1 << bits
    if exhaustive:
        for a in range(m):
            for b in range(m):
                yield a, b
        return
    h = m >> 1
    avals = sorted({0, 1, 2, h - 1, h, h + 1, m - 2, m - 1, m // 3})
    dvals = {0, 1, 2, h - 2, h - 1, h, h + 1, h + 2, m - 2, m - 1}
    # distances that vanish under the reductions a Python runtime applies to large integers elsewhere (hash moduli, the float mantissa):
    # distinct serials at such a distance must still compare unequal
    for red in (_HASH_MODULUS, (1 << 31) - 1, 1 << 53):
        dvals |= {k * red for k in (1, 2, 3) if k * red < m}
        dvals |= {m - k * red for k in (1, 2) if 0 < m - k * red < m}
    dvals = sorted(dvals)
    for a in avals:
        for d in dvals:
            yield a, (a + d) % m


def _run(fn):
    """-> ("value", v) | ("raised", name) ; unsupported constructs are analysis errors."""
    try:
        return "value", fn()
    except _Raised as ex:
        return "raised", ex.name
    except _Unsupported as ex:
        raise AnalysisError(f"C34: SerialNumber uses a construct outside the interpreted subset: {ex}")
    except RecursionError:
        raise AnalysisError("C34: unbounded recursion while interpreting SerialNumber")


def width_uniform(ctx, mod, cls) -> Tuple[bool, str]:
    """Structural argument that the small widths represent all widths: the width enters only as the exponent of a power of two, and
    the comparison / addition methods (with the module-level helpers they call) combine the numbers only with +, -, % and order/equality
    comparisons against 0/1, in integer arithmetic.  Every comparison is then a Boolean combination of atoms (+-(a-b) [mod M]) ~ (0 | H | M)
    up to +-1, whose truth is constant on the cells sign(a-b) x cmp(|a-b|, H) (resp. cmp(d, 0), cmp(d, H) for d = (b-a) mod M); all those
    cells are inhabited from width 3 on, so evaluating every pair of widths 1..5 decides every width.  -> (holds, why not)."""
    ms = methods(cls)
    init = ms.get("__init__")
    if init is None or len(init.args.args) < 3:
        return False, "__init__(self, number, serialBits) not found"
    wname = init.args.args[2].arg
    for n in ast.walk(init):
        if isinstance(n, ast.Name) and n.id == wname and isinstance(n.ctx, ast.Load):
            ok = False
            cur, par = n, getattr(n, "_parent", None)
            while par is not None and not isinstance(par, ast.stmt):
                if isinstance(par, ast.BinOp) and isinstance(par.op, (ast.Pow, ast.LShift)) and par.right is cur and isinstance(par.left, ast.Constant) and par.left.value in (1, 2):
                    ok = True
                    break
                if isinstance(par, ast.BinOp) and isinstance(par.op, (ast.Add, ast.Sub)) and isinstance(par.left if par.right is cur else par.right, ast.Constant):
                    cur, par = par, getattr(par, "_parent", None)
                    continue
                break
            if not ok and isinstance(par, (ast.Assign, ast.AnnAssign)) and par.value is n:
                ok = True          # stored as it is (self._serialBits = serialBits)
            if not ok:
                return False, f"__init__ uses the width `{wname}` outside an exponent of 2: {src(getattr(n, '_parent', n))}"
    # closure of the comparison / addition code
    todo = [ms[m] for m in ("__init__", "_convertOther", "__eq__", "__lt__", "__gt__", "__le__", "__ge__", "__add__") if m in ms]
    seen: List[ast.AST] = []
    while todo:
        f = todo.pop()
        if any(f is x for x in seen):
            continue
        seen.append(f)
        for d in getattr(f, "decorator_list", []):       # a private decorator wraps the method: its code runs on every comparison
            dn = d.func if isinstance(d, ast.Call) else d
            if isinstance(dn, ast.Name) and isinstance(mod.find(dn.id), ast.FunctionDef):
                todo.append(mod.find(dn.id))
        for c in ast.walk(f):
            if isinstance(c, ast.Call) and isinstance(c.func, ast.Name):
                d = mod.find(c.func.id)
                if isinstance(d, ast.FunctionDef):
                    todo.append(d)
            if isinstance(c, ast.Call) and isinstance(c.func, ast.Attribute) and isinstance(c.func.value, ast.Name) and c.func.value.id in ("self", cls.name) and c.func.attr in ms:
                todo.append(ms[c.func.attr])
    # a function received as an argument and called on the numbers must be an order/equality comparison of the operator module at every call site
    # (a decorator calling the method it wraps is the method itself: already in the closure)
    decorators = {(d.func if isinstance(d, ast.Call) else d).id for f in seen for d in getattr(f, "decorator_list", []) if isinstance((d.func if isinstance(d, ast.Call) else d), ast.Name)}
    for f in seen:
        params = [a.arg for a in f.args.args]
        for c in ast.walk(f):
            if not (isinstance(c, ast.Call) and isinstance(c.func, ast.Name) and c.func.id in params):
                continue
            if f.name in decorators:
                continue
            pos = params.index(c.func.id)
            sites = [x for g in seen for x in ast.walk(g) if isinstance(x, ast.Call) and ((isinstance(x.func, ast.Attribute) and x.func.attr == f.name) or (isinstance(x.func, ast.Name) and x.func.id == f.name))]
            if not sites:
                return False, f"{f.name} calls its parameter `{c.func.id}` and no call site of {f.name} is visible"
            for x in sites:
                off = 1 if (isinstance(x.func, ast.Attribute) and params and params[0] in ("self", "cls")) else 0
                a = x.args[pos - off] if 0 <= pos - off < len(x.args) else next((k.value for k in x.keywords if k.arg == c.func.id), None)
                if not (isinstance(a, ast.Attribute) and isinstance(a.value, ast.Name) and a.value.id == "operator" and a.attr in ("lt", "le", "gt", "ge", "eq", "ne")):
                    return False, f"{f.name} applies the function it is given as `{c.func.id}` to the numbers; at `{src(x)}` that is not an order comparison of the operator module"
    for f in seen:
        for n in ast.walk(f):
            if isinstance(n, ast.Raise) or (isinstance(n, ast.JoinedStr)):
                continue
            inside_msg = any(isinstance(p, (ast.Raise, ast.JoinedStr)) for p in _parents(n))
            if inside_msg:
                continue
            if isinstance(n, ast.BinOp):
                if isinstance(n.op, (ast.Pow, ast.LShift)) and f is init:
                    continue
                if isinstance(n.op, ast.Mod) and isinstance(n.left, ast.Constant) and isinstance(n.left.value, (str, bytes)):
                    continue
                if not isinstance(n.op, (ast.Add, ast.Sub, ast.Mod, ast.FloorDiv if f is init else ast.Add)):
                    return False, f"{f.name} combines numbers with `{src(n)}` (only +, - and % keep the comparison a function of the order type; true division leaves the integers)"
                if isinstance(n.op, ast.FloorDiv) and not (isinstance(n.right, ast.Constant) and n.right.value == 2):
                    return False, f"{f.name}: `{src(n)}`"
            if isinstance(n, ast.Compare) and not all(isinstance(o, (ast.Lt, ast.LtE, ast.Gt, ast.GtE, ast.Eq, ast.NotEq, ast.Is, ast.IsNot)) for o in n.ops):
                return False, f"{f.name} uses the comparison `{src(n)}`"
            if isinstance(n, ast.Constant) and isinstance(n.value, (int, float)) and not isinstance(n.value, bool) and n.value not in (0, 1, 2, 32) and f is not init:
                return False, f"{f.name} compares with the literal {n.value!r}"
            if isinstance(n, ast.Constant) and isinstance(n.value, float):
                return False, f"{f.name} uses the float literal {n.value!r}"
            if isinstance(n, ast.Call) and isinstance(n.func, ast.Name) and n.func.id in _NOT_RING_ARITHMETIC:
                return False, (f"{f.name} calls {n.func.id}(): its result is not a function of the order type of the numbers "
                               "(hash() reduces integers modulo 2**61 - 1, float() rounds from 2**53 on)")
    return True, ""


# builtins whose value on an integer is not determined by +, -, % and comparisons in the integers
_NOT_RING_ARITHMETIC = ("float", "round", "divmod", "pow", "hash", "id", "str", "repr", "bytes", "bool", "bin", "hex", "oct", "complex", "len", "sum", "format")


def eq_derivation(cls) -> Tuple[str, str]:
    """How __eq__ obtains the two values it compares.  -> ("number", detail) when every decisive return compares the ring value `_number` of
    both operands itself (through locals, int(x) when __int__ returns self._number, tuples containing it); ("through", why) when a side is
    positively the image of the value under a function that is not injective on the integers; ("unknown", why) for any other shape."""
    ms = methods(cls)
    f = ms.get("__eq__")
    if f is None:
        return "unknown", "__eq__ not defined"
    int_is_number = False
    if "__int__" in ms:
        rs = [r.value for r in ast.walk(ms["__int__"]) if isinstance(r, ast.Return)]
        int_is_number = bool(rs) and all(isinstance(v, ast.Attribute) and v.attr == "_number" and isinstance(v.value, ast.Name) and v.value.id == "self" for v in rs)
    hash_is_through = "__hash__" in ms
    params = {a.arg for a in f.args.args}

    def local_values(name: str) -> Optional[List[ast.expr]]:
        vals = []
        for st in ast.walk(f):
            if isinstance(st, ast.Assign) and any(isinstance(t, ast.Name) and t.id == name for t in st.targets):
                vals.append(st.value)
            elif isinstance(st, (ast.AugAssign, ast.AnnAssign, ast.For, ast.NamedExpr, ast.With)) and any(isinstance(x, ast.Name) and x.id == name and isinstance(x.ctx, ast.Store) for x in ast.walk(st)):
                return None
        return vals

    def is_operand(e, depth=0) -> bool:
        """e denotes one of the two serial numbers (a parameter, or a local holding the converted operand)."""
        if isinstance(e, ast.Name):
            if e.id in params:
                return True
            vals = local_values(e.id)
            return bool(vals) and depth < 4 and all(isinstance(v, ast.Call) and isinstance(v.func, ast.Attribute) and v.func.attr == "_convertOther" for v in vals)
        return False

    def derive(e, depth=0) -> Tuple[str, str]:
        if depth > 6:
            return "unknown", src(e)
        if isinstance(e, ast.Attribute) and e.attr == "_number" and is_operand(e.value):
            return "number", src(e)
        if isinstance(e, ast.Name) and e.id not in params:
            vals = local_values(e.id)
            if vals:
                ds = [derive(v, depth + 1) for v in vals]
                for k in ("through", "unknown", "number"):
                    for d in ds:
                        if d[0] == k:
                            return d
            return "unknown", src(e)
        if isinstance(e, (ast.Tuple, ast.List)) and e.elts:
            ds = [derive(x, depth + 1) for x in e.elts]
            if any(d[0] == "through" for d in ds):
                return [d for d in ds if d[0] == "through"][0]
            if any(d[0] == "number" for d in ds):
                return "number", src(e)
            return "unknown", src(e)
        if isinstance(e, ast.Call) and not e.keywords:
            fn = dotted(e.func) or ""
            if fn == "int" and len(e.args) == 1:
                if is_operand(e.args[0]):
                    return ("number", src(e)) if int_is_number else ("unknown", src(e))
                return derive(e.args[0], depth + 1)
            inner = None
            if fn in _NOT_RING_ARITHMETIC and len(e.args) == 1:
                inner, how = e.args[0], fn + "()"
            elif isinstance(e.func, ast.Attribute) and e.func.attr in ("__hash__", "__str__", "__repr__", "__float__", "__bool__") and not e.args:
                inner, how = e.func.value, "." + e.func.attr + "()"
            if inner is not None and (is_operand(inner) or derive(inner, depth + 1)[0] in ("number", "through")):
                return "through", f"`{src(e)}` ({how} is not injective on the ring values)"
        return "unknown", src(e)

    verdicts = []
    for r in ast.walk(f):
        if not isinstance(r, ast.Return) or r.value is None:
            continue
        v = r.value
        if isinstance(v, ast.Name) and v.id == "NotImplemented":
            continue
        neg = False
        while isinstance(v, ast.UnaryOp) and isinstance(v.op, ast.Not):
            v, neg = v.operand, not neg
        if not (isinstance(v, ast.Compare) and len(v.ops) == 1 and isinstance(v.ops[0], (ast.NotEq, ast.IsNot) if neg else (ast.Eq, ast.Is))):
            verdicts.append(("unknown", f"`return {src(r.value)}` is not a single equality"))
            continue
        a, b = derive(v.left), derive(v.comparators[0])
        for d in (a, b):
            if d[0] == "through":
                verdicts.append(d)
        if a[0] == b[0] == "number":
            verdicts.append(("number", src(v)))
        elif "through" not in (a[0], b[0]):
            verdicts.append(("unknown", f"`{src(v)}`: the compared values are not recognised as derived from _number"))
    if not verdicts:
        return "unknown", "__eq__ has no decisive return"
    for k in ("through", "unknown", "number"):
        for d in verdicts:
            if d[0] == k:
                return d
    return "unknown", ""


def _parents(n):
    p = getattr(n, "_parent", None)
    while p is not None:
        yield p
        p = getattr(p, "_parent", None)


def check(ctx):
    mod = ctx.mod(RFC)
    cls = ctx.cls(RFC, "SerialNumber")
    ms = methods(cls)
    for name in ("__init__", "_convertOther", "__eq__", "__lt__", "__gt__", "__le__", "__ge__", "__add__"):
        ctx.func(RFC, f"SerialNumber.{name}")
    ip = Interp(cls, mod)
    with ctx.section("width uniformity"):
        uniform, why = width_uniform(ctx, mod, cls)
    try:
        uniform
    except NameError:
        uniform, why = False, "not analysable"
    if uniform:
        ctx.ok("rfc1982/width-uniform", Q + " | <the width enters only through powers of two; numbers are combined only by +, -, %, comparisons>",
               "every comparison atom is then constant on the cells sign(a-b) x cmp(|a-b|, halfRing) (or cmp((b-a) mod M, 0 / halfRing)); all cells are inhabited from width 3 on, "
               "so the exhaustive evaluation of widths 1..5 below decides every width")
    else:
        ctx.note(f"rfc1982/width-uniform: shape argument not established ({why}); the comparison/addition tables count as bounded evidence (widths 1..5 exhaustively, boundary "
                 "representatives up to 128 bits)")
    sfx = "" if uniform else "-sampled"
    exhaustive = EXHAUSTIVE_THOROUGH if ctx.tier == "thorough" else EXHAUSTIVE_QUICK
    widths = tuple(sorted(set(exhaustive) | set(BOUNDARY_WIDTHS)))
    ctx.extra["widths_exhaustive"] = list(exhaustive)
    ctx.extra["widths_boundary_representatives"] = [w for w in widths if w not in exhaustive]

    # ---- base class brings no comparison / arithmetic behaviour -----------------------------------------------
    with ctx.section("base class"):
        bases = base_names(cls)
        inert = True
        detail = []
        for b in bases:
            if b == "object":
                continue
            if b != "FancyStrMixin":
                inert = False
                detail.append(f"unexpected base {b}")
                continue
            util = ctx.mod("python/util.py")
            bc = util.find("FancyStrMixin")
            if not isinstance(bc, ast.ClassDef):
                raise AnalysisError("C34: anchor vanished: twisted.python.util.FancyStrMixin")
            bad = [m for m in methods(bc) if m in ("__eq__", "__ne__", "__lt__", "__gt__", "__le__", "__ge__", "__add__", "__radd__", "__getattr__",
                                                    "__getattribute__", "__setattr__")]
            if bad or base_names(bc):
                inert = False
                detail.append(f"FancyStrMixin defines {bad} / has bases {base_names(bc)}")
        ctx.check(inert, "rfc1982/base-is-inert", Q + " | bases", "a base class of SerialNumber contributes comparison/arithmetic behaviour "
                  "that the evaluation does not model: " + "; ".join(detail))

    # ---- fields are written only by __init__ -------------------------------------------------------------------
    with ctx.section("field writes"):
        fields = {"_number", "_serialBits", "_modulo", "_halfRing", "_maxAdd"}
        acc = class_accesses(mod, cls, fields, receivers=None)
        for a in acc:
            ctx.check(a.func == "SerialNumber.__init__" and a.recv == "self", "rfc1982/fields-immutable", ctx.construct(Q.rsplit(".", 1)[0] + "." + a.func, a.node),
                      f"{a.recv}.{a.attr} is modified outside __init__: a serial number's value/ring would change under comparisons")
        ctx.floor("rfc1982/fields-immutable", len([a for a in acc if a.func == "SerialNumber.__init__"]), 5, "field initialisations")
        # module-level code must not patch the class either
        patched = [st for st in mod.tree.body if isinstance(st, (ast.Assign, ast.AugAssign, ast.Delete))
                   and any((dotted(t) or "").startswith("SerialNumber.") for t in (st.targets if not isinstance(st, ast.AugAssign) else [st.target]))]
        ctx.check(not patched, "rfc1982/fields-immutable", Q + " | <module-level patching>", "SerialNumber is patched at module level: " +
                  "; ".join(src(p) for p in patched))

    # ---- __eq__ compares the ring value itself -----------------------------------------------------------------
    with ctx.section("equality derivation"):
        kind, why = eq_derivation(cls)
        if kind == "unknown":
            ctx.note(f"rfc1982/eq-on-ring-value: shape of __eq__ not recognised ({why}); equality is decided by the comparison table only")
        else:
            ctx.check(kind == "number", "rfc1982/eq-on-ring-value", f"{Q}.__eq__ | <compared values>",
                      f"__eq__ compares {why} instead of the ring values: distinct serial numbers whose images coincide compare equal (for hash(): numbers "
                      "differing by a multiple of 2**61 - 1, i.e. every ring of 62 bits or more) while < or > also holds for them",
                      detail=why)

    # ---- ring constants for widths 1..64 -------------------------------------------------------------------------
    with ctx.section("ring constants"):
        bad_const: Dict[str, str] = {}
        n_const = 0
        for bits in range(1, 65):
            m = 1 << bits
            for number in (0, 1, m - 1, m, m + 1, -1, 3 * m + 5, m // 2):
                kind, o = _run(lambda: ip.construct(number, bits))
                n_const += 1
                if kind != "value":
                    bad_const.setdefault("__init__", f"SerialNumber({number}, {bits}) raises {o}")
                    continue
                want = {"_serialBits": bits, "_modulo": m, "_halfRing": m >> 1, "_maxAdd": (m >> 1) - 1, "_number": number % m}
                for k, v in want.items():
                    got = o.fields.get(k, "<unset>")
                    if got != v or isinstance(got, bool):
                        bad_const.setdefault(k, f"SerialNumber({number}, serialBits={bits}).{k} = {got!r}, RFC 1982 requires {v}")
        for k in ("_serialBits", "_modulo", "_halfRing", "_maxAdd", "_number"):
            ctx.check(k not in bad_const and "__init__" not in bad_const, "rfc1982/ring-constants", f"{Q}.__init__ | self.{k}",
                      bad_const.get(k) or bad_const.get("__init__", ""), detail=f"{n_const} (number, width) pairs, widths 1..64, 96, 128")
        # default width is 32 (DNS serials)
        kind, o = _run(lambda: ip.construct(5))
        ctx.check(kind == "value" and o.fields.get("_serialBits") == 32, "rfc1982/ring-constants", f"{Q}.__init__ | default serialBits",
                  f"SerialNumber(5) has serialBits {getattr(o, 'fields', {}).get('_serialBits') if kind == 'value' else o}, DNS serial numbers are 32 bits wide")
        if bad_const:
            # comparisons on a broken ring would only repeat the same defect with less precise messages
            ctx.note("ring constants wrong: comparison/addition tables evaluated on the ring as constructed")

    # ---- comparison table -------------------------------------------------------------------------------------
    with ctx.section("comparison table"):
        results: Dict[Tuple[str, str], List[Optional[str]]] = {}
        evaluated = 0
        for bits in widths:
            for a, b in _pairs(bits, bits in exhaustive):
                kind, objs = _run(lambda: (ip.construct(a, bits), ip.construct(b, bits)))
                if kind != "value":
                    continue  # already reported by ring-constants
                x, y = objs
                want = _oracle(a, b, bits)
                cell = _cell(a, b, bits)
                for meth, op in _OPS.items():
                    kind, got = _run(lambda: ip.compare(op, x, y))
                    evaluated += 1
                    slot = results.setdefault((meth, cell), [])
                    if kind == "raised":
                        slot.append(f"bits={bits} a={a} b={b}: a {_SYM[meth]} b raises {got}")
                    elif got is NOTIMPL or not isinstance(got, bool) or got != want[meth]:
                        slot.append(f"bits={bits} a={a} b={b}: a {_SYM[meth]} b is {got!r}, RFC 1982 3.2 requires {want[meth]}")
                    else:
                        slot.append(None)
        cells_seen = {c for (_, c) in results}
        ctx.floor("rfc1982/compare-table", len(cells_seen), 7, "cells of sign(a-b) x cmp(|a-b|, halfRing)")
        order = list(_OPS)
        for (meth, cell), outcomes in sorted(results.items(), key=lambda kv: (order.index(kv[0][0]), kv[0][1])):
            bad = [o for o in outcomes if o]
            ctx.check(not bad, "rfc1982/compare-table" + sfx, f"{Q}.{meth} | {cell}", (bad[0] + f" ({len(bad)} of {len(outcomes)} evaluated pairs of this cell disagree)") if bad else "",
                      detail=f"{len(outcomes)} pairs evaluated")
        ctx.extra["pairs_evaluated"] = evaluated

    # ---- addition ---------------------------------------------------------------------------------------------------
    with ctx.section("addition"):
        add_res: Dict[Tuple[str, str], List[Optional[str]]] = {}
        for bits in widths:
            m = 1 << bits
            h = m >> 1
            if bits in EXHAUSTIVE_QUICK:
                sv, nv = range(m), range(m)
            else:
                sv = sorted({0, 1, h - 1, h, h + 1, m - 1})
                nv = sorted({0, 1, 2, h - 2, h - 1, h, h + 1, m - 1})
            for s in sv:
                for n in nv:
                    kind, objs = _run(lambda: (ip.construct(s, bits), ip.construct(n, bits)))
                    if kind != "value":
                        continue
                    x, y = objs
                    region = "n=maxAdd" if n == h - 1 else ("n=0" if n == 0 else ("0<n<maxAdd" if n < h - 1 else ("n=maxAdd+1" if n == h else "n>maxAdd+1")))
                    kind, got = _run(lambda: ip._dunder(x, "__add__", y))
                    if n <= h - 1:
                        slot = add_res.setdefault(("rfc1982/add-value" + sfx, region), [])
                        if n > 0:
                            add_res.setdefault(("rfc1982/add-greater" + sfx, region), [])
                        if kind == "raised":
                            slot.append(f"bits={bits}: SerialNumber({s}) + SerialNumber({n}) raises {got} although n <= 2^(bits-1)-1 = {h - 1}")
                            continue
                        if not isinstance(got, _Obj):
                            slot.append(f"bits={bits}: SerialNumber({s}) + SerialNumber({n}) returns {got!r}")
                            continue
                        if got.fields.get("_number") != (s + n) % m or got.fields.get("_serialBits") != bits or got.fields.get("_modulo") != m:
                            slot.append(f"bits={bits}: SerialNumber({s}) + SerialNumber({n}) = {got!r}, RFC 1982 3.1 requires ({s}+{n}) mod 2^{bits} = {(s + n) % m} in the same width")
                        else:
                            slot.append(None)
                        if n > 0:
                            slot = add_res.setdefault(("rfc1982/add-greater" + sfx, region), [])
                            k2, g2 = _run(lambda: ip.compare(ast.Gt, got, x))
                            k3, g3 = _run(lambda: ip.compare(ast.Lt, x, got))
                            ok = k2 == "value" and g2 is True and k3 == "value" and g3 is True
                            slot.append(None if ok else f"bits={bits}: s={s}, n={n}: (s+n) > s is {g2!r} and s < (s+n) is {g3!r}; both must be True")
                    else:
                        slot = add_res.setdefault(("rfc1982/add-refuses-large" + sfx, region), [])
                        if kind == "raised" and got == "ArithmeticError":
                            slot.append(None)
                        elif kind == "raised":
                            slot.append(f"bits={bits}: SerialNumber({s}) + SerialNumber({n}) raises {got}, not ArithmeticError")
                        else:
                            slot.append(f"bits={bits}: SerialNumber({s}) + SerialNumber({n}) is accepted ({got!r}) although n > 2^(bits-1)-1 = {h - 1} (undefined by RFC 1982 3.1)")
        ctx.floor("rfc1982/add", len(add_res), 7, "addition regions")
        for (rule, region), outcomes in sorted(add_res.items()):
            bad = [o for o in outcomes if o]
            ctx.check(not bad, rule, f"{Q}.__add__ | {region}", (bad[0] + f" ({len(bad)} of {len(outcomes)} evaluated cases disagree)") if bad else "",
                      detail=f"{len(outcomes)} cases evaluated")

    # ---- the addend reaches the range check unreduced ---------------------------------------------------------------------------------------------
    with ctx.section("operand conversion"):
        # __add__ compares the addend's _number with _maxAdd; the constructor reduces modulo 2^bits.  A conversion step (any method __add__ hands its
        # operand to, e.g. _convertOther) that BUILDS a SerialNumber from the raw operand therefore hides out-of-range addends from the check.
        addm = ms.get("__add__")
        funnel = []          # (method, name of the parameter that receives the raw operand)
        if addm is not None and len(addm.args.args) > 1:
            todo_f, seen_f = [(addm, addm.args.args[1].arg)], []
            for d in addm.decorator_list:      # a private decorator's wrapper receives the raw operand first
                dn = d.func if isinstance(d, ast.Call) else d
                dec = mod.find(dn.id) if isinstance(dn, ast.Name) else None
                if isinstance(dec, ast.FunctionDef):
                    for w_ in ast.walk(dec):
                        if isinstance(w_, ast.FunctionDef) and w_ is not dec and len(w_.args.args) > 1:
                            todo_f.append((w_, w_.args.args[1].arg))
            while todo_f:
                fn, raw = todo_f.pop()
                if any(fn is x and raw == r for x, r in seen_f):
                    continue
                seen_f.append((fn, raw))
                for c in ast.walk(fn):
                    if isinstance(c, ast.Call) and isinstance(c.func, ast.Attribute) and isinstance(c.func.value, ast.Name) and c.func.value.id in ("self", cls.name) and c.func.attr in ms \
                            and c.func.attr not in _OPS and c.func.attr not in ("__add__", "__init__"):
                        callee = ms[c.func.attr]
                        cargs = c.args[1:] if c.func.value.id == cls.name else c.args
                        for pos, a_ in enumerate(cargs):
                            if isinstance(a_, ast.Name) and a_.id == raw and pos + 1 < len(callee.args.args):
                                funnel.append((callee, callee.args.args[pos + 1].arg))
                                todo_f.append((callee, callee.args.args[pos + 1].arg))
        judged_conv = False
        for fn, raw in funnel:
            builds = [c for c in ast.walk(fn) if isinstance(c, ast.Call) and (src(c.func) in (cls.name, "type(self)", "self.__class__", "cls")) and c.args
                      and any(isinstance(x, ast.Name) and x.id == raw for x in ast.walk(c.args[0]))]
            judged_conv = True
            ctx.check(not builds, "rfc1982/addend-unreduced-at-range-check", f"{Q}.{fn.name} | <operand conversion>",
                      (f"`{src(builds[0])}` builds a SerialNumber from the raw operand: the constructor keeps only the residue modulo 2^bits, so __add__'s comparison with _maxAdd "
                       "accepts addends such as 2^bits + 1 or negative ones (RFC 1982 3.1 defines addition only for 0 <= n <= 2^(bits-1)-1)") if builds else "")
        if not judged_conv:
            ctx.note("rfc1982/addend-unreduced-at-range-check: __add__ hands its operand to no conversion method; clause left to rfc1982/add-plain-int (bounded)")

    # ---- plain-integer addends: refused, or - where an implementation accepts them - only inside 0 .. 2^(bits-1)-1 and with the right sum ---------
    with ctx.section("plain integer addends"):
        bad_int: List[str] = []
        n_int = 0
        for bits in (3, 8, 32, 64):
            m = 1 << bits
            h = m >> 1
            for s_ in (0, 5 % m, m - 1):
                kind, x = _run(lambda: ip.construct(s_, bits))
                if kind != "value":
                    continue
                for n in (-m + 1, -1, 0, 1, h - 1, h, m - 1, m, m + 1, 2 * m + 1, 3 * m + h - 1):
                    n_int += 1
                    kind, got = _run(lambda: ip._arith(ast.Add(), x, n))
                    refused = kind == "raised" or got is NOTIMPL
                    if refused:
                        continue
                    if not (0 <= n <= h - 1):
                        bad_int.append(f"SerialNumber({s_}, {bits}) + {n} is accepted ({got!r}) although the addend is outside 0 .. 2^(bits-1)-1 = {h - 1}: the range check sees only "
                                       "its residue modulo 2^bits")
                    elif not (isinstance(got, _Obj) and got.fields.get("_number") == (s_ + n) % m and got.fields.get("_serialBits") == bits):
                        bad_int.append(f"SerialNumber({s_}, {bits}) + {n} = {got!r}, expected ({s_}+{n}) mod 2^{bits} in the same width")
        ctx.check(not bad_int, "rfc1982/add-plain-int", f"{Q}.__add__ | <plain integer addends>", (bad_int[0] + f" ({len(bad_int)} of {n_int} cases)") if bad_int else "",
                  detail=f"{n_int} (serial, addend) pairs: every addend is either refused or lies in the defined range and gives the right sum")

    # ---- operands of another width / type are refused ------------------------------------------------------------------------
    with ctx.section("refusal of other widths/types"):
        for wa, wb in ((8, 16), (16, 8), (32, 31), (1, 2)):
            x = _run(lambda: ip.construct(1, wa))[1]
            y = _run(lambda: ip.construct(1, wb))[1]
            if not (isinstance(x, _Obj) and isinstance(y, _Obj)):
                continue
            for meth, op in _OPS.items():
                kind, got = _run(lambda: ip.compare(op, x, y))
                if meth == "__eq__":
                    ok = kind == "value" and got is False
                    msg = f"SerialNumber(1, {wa}) == SerialNumber(1, {wb}) is {got!r}: numbers of different rings compare equal"
                else:
                    ok = kind == "raised" and got == "TypeError"
                    msg = f"SerialNumber(1, {wa}) {_SYM[meth]} SerialNumber(1, {wb}) gives {got!r} instead of TypeError: serial numbers of different widths are compared"
                ctx.check(ok, "rfc1982/refuses-other-width", f"{Q}.{meth} | serialBits {wa} vs {wb}", msg)
            kind, got = _run(lambda: ip._dunder(x, "__add__", y))
            ctx.check((kind == "value" and got is NOTIMPL) or (kind == "raised" and got == "TypeError"), "rfc1982/refuses-other-width", f"{Q}.__add__ | serialBits {wa} vs {wb}",
                      f"SerialNumber(1, {wa}) + SerialNumber(1, {wb}) gives {got!r} instead of NotImplemented/TypeError")
        x = _run(lambda: ip.construct(1, 8))[1]
        if isinstance(x, _Obj):
            for meth, op in _OPS.items():
                kind, got = _run(lambda: ip.compare(op, x, 1))
                ok = (kind == "value" and got is False) if meth == "__eq__" else (kind == "raised" and got == "TypeError")
                ctx.check(ok, "rfc1982/refuses-other-width", f"{Q}.{meth} | plain int operand",
                          f"SerialNumber(1, 8) {_SYM[meth]} 1 gives {got!r}: a plain integer is accepted as a serial number of unknown width")


# --------------------------------------------------------------------------------------------------

MUTANTS = [
    Mutant("convert-other-wraps-anything-with-an-int-value", RFC, "        if not isinstance(other, SerialNumber):\n            raise TypeError(f\"cannot compare or combine {self!r} and {other!r}\")\n",
           "        if not isinstance(other, SerialNumber):\n            other = SerialNumber(int(other), self._serialBits)\n", expect_rule="rfc1982/add-plain-int"),
    Mutant("convert-other-builds-from-integers-by-type", RFC, "        if not isinstance(other, SerialNumber):\n", "        if isinstance(other, (bool, int)):\n            other = type(self)(other, serialBits=self._serialBits)\n        if not isinstance(other, SerialNumber):\n",
           expect_rule="rfc1982/addend-unreduced-at-range-check"),
    Mutant("eq-decorator-lets-incompatible-operands-through", RFC, "    def __eq__(self, other: object) -> bool:\n        \"\"\"\n        Allow rich equality comparison with another L{SerialNumber} instance.\n        \"\"\"\n        try:\n            other = self._convertOther(other)\n        except TypeError:\n            return NotImplemented\n        return other._number == self._number\n", "    @_checked\n    def __eq__(self, other):\n        return other._number == self._number\n", more=[(RFC, "class SerialNumber(FancyStrMixin):\n", "def _checked(method):\n    def wrapper(self, other):\n        try:\n            peer = self._convertOther(other)\n        except TypeError:\n            peer = other\n        return method(self, peer)\n\n    return wrapper\n\n\nclass SerialNumber(FancyStrMixin):\n")], expect_rule="rfc1982/refuses-other-width"),
    Mutant("lt-operator-functions-swapped", RFC, "        return (\n            self._number < other._number\n            and (other._number - self._number) < self._halfRing\n        ) or (\n            self._number > other._number\n            and (self._number - other._number) > self._halfRing\n        )\n", "        return self._ordered(other, operator.gt, operator.lt)\n",
           more=[(RFC, "import calendar\n", "import calendar\nimport operator\n"),
                 (RFC, "    def __eq__(self, other: object) -> bool:\n", "    def _ordered(self, other, ahead, behind):\n        mine, theirs = self._number, other._number\n        if mine < theirs:\n            return ahead(theirs - mine, self._halfRing)\n"
                  "        if mine > theirs:\n            return behind(mine - theirs, self._halfRing)\n        return False\n\n    def __eq__(self, other: object) -> bool:\n")], expect_rule="rfc1982/compare-table"),
    Mutant("eq-through-hash-of-the-numbers", RFC, "        return other._number == self._number\n", "        return hash(other._number) == hash(self._number)\n", expect_rule="rfc1982/eq-on-ring-value"),
    Mutant("eq-through-float-locals", RFC, "        return other._number == self._number\n", "        mine = float(self._number)\n        theirs = float(other._number)\n        return mine == theirs\n",
           expect_rule="rfc1982/eq-on-ring-value"),
    Mutant("eq-through-dunder-hash-delegation", RFC, "        return other._number == self._number\n", "        return (other.__hash__(), other._serialBits) == (self.__hash__(), self._serialBits)\n",
           expect_rule="rfc1982/compare-table-sampled"),
    Mutant("lt-half-ring-inclusive", RFC,
           "            and (other._number - self._number) < self._halfRing\n",
           "            and (other._number - self._number) <= self._halfRing\n", expect_rule="rfc1982/compare-table"),
    Mutant("gt-half-ring-inclusive", RFC,
           "            and (self._number - other_sn._number) < self._halfRing\n",
           "            and (self._number - other_sn._number) <= self._halfRing\n", expect_rule="rfc1982/compare-table"),
    Mutant("le-as-not-gt", RFC, "        return self == other or self < other\n", "        return not self > other\n",
           expect_rule="rfc1982/compare-table"),
    Mutant("ge-copy-paste-lt", RFC, "        return self == other or self > other\n", "        return self == other or self < other\n",
           expect_rule="rfc1982/compare-table"),
    Mutant("add-guard-strict", RFC, "        if other._number <= self._maxAdd:\n", "        if other._number < self._maxAdd:\n",
           expect_rule="rfc1982/add-value"),
    Mutant("max-add-off-by-one", RFC, "        self._maxAdd = 2 ** (serialBits - 1) - 1\n", "        self._maxAdd = 2 ** (serialBits - 1)\n",
           expect_rule="rfc1982/add-refuses-large"),
    Mutant("add-forgets-width", RFC, "                (self._number + other._number) % self._modulo,\n                serialBits=self._serialBits,\n",
           "                (self._number + other._number) % self._modulo,\n", expect_rule="rfc1982/add-value"),
    Mutant("convert-other-width-check-one-sided", RFC, "        if self._serialBits != other._serialBits:\n",
           "        if self._serialBits < other._serialBits:\n", expect_rule="rfc1982/refuses-other-width"),
    Mutant("half-ring-precedence", RFC, "        self._halfRing: int = 2 ** (serialBits - 1)\n", "        self._halfRing: int = 2**serialBits - 1\n",
           expect_rule="rfc1982/ring-constants"),
    Mutant("gt-wrong-branch-operand", RFC,
           "            and (other_sn._number - self._number) > self._halfRing\n",
           "            and (other_sn._number - self._number) >= self._halfRing\n", expect_rule="rfc1982/compare-table"),
    Mutant("ring-constants-through-true-division", RFC, "        self._halfRing: int = 2 ** (serialBits - 1)\n        self._maxAdd = 2 ** (serialBits - 1) - 1\n",
           "        self._halfRing: int = self._modulo / 2\n        self._maxAdd = self._halfRing - 1\n", expect_rule="rfc1982/add-refuses-large"),
    Mutant("max-add-rounded-through-float", RFC, "        self._maxAdd = 2 ** (serialBits - 1) - 1\n", "        self._maxAdd = int(self._modulo / 2 - 1)\n", expect_rule="rfc1982/ring-constants"),
    Mutant("number-not-reduced", RFC, "        self._number: int = int(number) % self._modulo\n", "        self._number: int = int(number)\n",
           expect_rule="rfc1982/ring-constants"),
]

SILENT = [
    Silent("convert-other-type-test-on-builtins-first", RFC, "        if not isinstance(other, SerialNumber):\n", "        if isinstance(other, (int, float, str)) or not isinstance(other, SerialNumber):\n"),
    # the operand check in a private decorator; the half-ring test through comparison functions handed over as values
    Silent("eq-operand-check-in-a-private-decorator", RFC, "    def __eq__(self, other: object) -> bool:\n        \"\"\"\n        Allow rich equality comparison with another L{SerialNumber} instance.\n        \"\"\"\n        try:\n            other = self._convertOther(other)\n        except TypeError:\n            return NotImplemented\n        return other._number == self._number\n", "    @_checked\n    def __eq__(self, other):\n        return other._number == self._number\n", more=[(RFC, "class SerialNumber(FancyStrMixin):\n", "def _checked(method):\n    def wrapper(self, other):\n        try:\n            peer = self._convertOther(other)\n        except TypeError:\n            return NotImplemented\n        return method(self, peer)\n\n    return wrapper\n\n\nclass SerialNumber(FancyStrMixin):\n")]),
    Silent("lt-through-operator-functions", RFC, "        return (\n            self._number < other._number\n            and (other._number - self._number) < self._halfRing\n        ) or (\n            self._number > other._number\n            and (self._number - other._number) > self._halfRing\n        )\n", "        return self._ordered(other, operator.lt, operator.gt)\n",
           more=[(RFC, "import calendar\n", "import calendar\nimport operator\n"),
                 (RFC, "    def __eq__(self, other: object) -> bool:\n", "    def _ordered(self, other, ahead, behind):\n        mine, theirs = self._number, other._number\n        if mine < theirs:\n            return ahead(theirs - mine, self._halfRing)\n"
                  "        if mine > theirs:\n            return behind(mine - theirs, self._halfRing)\n        return False\n\n    def __eq__(self, other: object) -> bool:\n")]),
    Silent("eq-through-int-and-locals", RFC, "        return other._number == self._number\n", "        mine = int(self)\n        theirs = int(other)\n        return not mine != theirs\n"),
    Silent("eq-on-number-and-width-tuples", RFC, "        return other._number == self._number\n", "        return (other._number, other._serialBits) == (self._number, self._serialBits)\n"),
    Silent("hash-of-number-and-width", RFC, "        return hash(self._number)\n", "        return hash((self._number, self._serialBits))\n"),
    Silent("lt-as-modular-distance", RFC,
           "        return (\n            self._number < other._number\n            and (other._number - self._number) < self._halfRing\n        ) or (\n"
           "            self._number > other._number\n            and (self._number - other._number) > self._halfRing\n        )\n",
           "        return 0 < (other._number - self._number) % self._modulo < self._halfRing\n"),
    Silent("add-relies-on-init-reduction", RFC, "                (self._number + other._number) % self._modulo,\n",
           "                self._number + other._number,\n"),
    Silent("half-ring-as-modulo-halved", RFC, "        self._halfRing: int = 2 ** (serialBits - 1)\n", "        self._halfRing: int = self._modulo // 2\n"),
    Silent("half-ring-exact-float-division", RFC, "        self._halfRing: int = 2 ** (serialBits - 1)\n", "        self._halfRing: int = int(self._modulo / 2)\n"),
    Silent("ordering-test-in-module-helper", RFC,
           "        return (\n            self._number < other._number\n            and (other._number - self._number) < self._halfRing\n        ) or (\n"
           "            self._number > other._number\n            and (self._number - other._number) > self._halfRing\n        )\n",
           "        return _before(self._number, other._number, self._halfRing)\n",
           more=[(RFC, "class SerialNumber(FancyStrMixin):\n", "def _before(a, b, half):\n    if a < b:\n        return (b - a) < half\n    return a > b and (a - b) > half\n\n\nclass SerialNumber(FancyStrMixin):\n")]),
    Silent("le-reordered", RFC, "        return self == other or self < other\n", "        return self < other or other == self\n"),
    Silent("gt-via-swapped-lt", RFC,
           "        return (\n            self._number < other_sn._number\n            and (other_sn._number - self._number) > self._halfRing\n        ) or (\n"
           "            self._number > other_sn._number\n            and (self._number - other_sn._number) < self._halfRing\n        )\n",
           "        return SerialNumber.__lt__(other_sn, self)\n"),
]
