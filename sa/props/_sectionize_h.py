"""throw-away: wrap '#@ name [-> flag] [<- flag]' delimited chunks of check(ctx) in `with ctx.section(name):`"""
import re, sys
p = sys.argv[1]
init = sys.argv[2] if len(sys.argv) > 2 else ""
lines = open(p).read().split("\n")
start = next(i for i, l in enumerate(lines) if l.startswith("def check(ctx):"))
end = next(i for i in range(start + 1, len(lines)) if lines[i] and not lines[i].startswith((" ", "\t")))
body = lines[start + 1:end]
out = []
flags = []
cur = None
pend_flag = None
i = -1
while i + 1 < len(body):
    i += 1
    l = body[i]
    me = re.match(r"^    #@each (\S+)(?: <- (\w+))?\s*$", l)
    if me:
        if pend_flag:
            out.append(f"        _ok_{pend_flag} = True")
            pend_flag = None
        cur = None
        name, req = me.groups()
        hdr = body[i + 1]
        mv = re.match(r"^    for \(?(\w+)", hdr)
        assert mv, hdr
        out.append(hdr)
        out.append(f"        with ctx.section(f\"{name}/{{{mv.group(1)}}}\"):")
        if req:
            out.append(f"            ctx.need(_ok_{req}, {('anchors of ' + name.split('/')[0] + ' (section skipped)')!r})")
        i += 1
        while i + 1 < len(body) and (not body[i + 1].strip() or body[i + 1].startswith("        ")):
            i += 1
            out.append(("    " + body[i]) if body[i].strip() else body[i])
        continue
    m = re.match(r"^    #@ (\S+)(?: -> (\w+))?(?: <- (\w+))?\s*$", l)
    if m:
        if pend_flag:
            out.append(f"        _ok_{pend_flag} = True")
        name, prov, req = m.groups()
        out.append(f"    with ctx.section({name!r}):")
        if req:
            out.append(f"        ctx.need(_ok_{req}, {('anchors of ' + name.split('/')[0] + ' (section skipped)')!r})")
        if prov:
            flags.append(prov)
        pend_flag = prov
        cur = name
        continue
    if cur is None:
        out.append(l)
    else:
        out.append(("    " + l) if l.strip() else l)
if pend_flag:
    out.append(f"        _ok_{pend_flag} = True")
# strip trailing blank lines inside last section
head = [lines[start]]
if flags or init:
    head.append("    " + "; ".join([f"_ok_{f} = False" for f in flags] + ([init] if init else [])))
new = lines[:start] + head + out + lines[end:]
open(p, "w").write("\n".join(new))
print("sections:", sum(1 for l in out if l.startswith("    with ctx.section(")))
