"""C39 - Telnet option negotiation always converges (structural clauses, RFC 1143 discipline)."""
from __future__ import annotations

import ast

from sa.astx import call_attr, call_name, dotted, src, statements
from sa.selftest import Mutant, Silent
from sa.source import class_assigns, methods
from sa.props._lib_h import (Normaliser, assigned_pairs, call_nodes, calls_at, const_is, edge_path, is_attr, need, reaching_defs, stmts,
                              succ_on, tests)

PROPERTY = "C39"
TELNET = "conch/telnet.py"
Q = "twisted.conch.telnet.Telnet."
TECHNIQUE = ("structural: dispatch-table exhaustiveness and table agreement, per-row CFG path obligations (detach-then-fire, reply discipline, must-precede), "
             "who-may-write closed over the call graph, on the normalised view of Telnet; framing clauses included from C38 (finite-exhaustive transition table + structural "
             "rules + bounded corpus, kinds as declared there)")
RULE_KINDS = {      # decided on the shape of the normalised code, except the history/ witnesses; included "C38:..." rules carry C38's kinds
    "*": "structural",
    "history/": "bounded",
}
EXPLANATION = (
    "Reads the four negotiation tables (willMap/wontMap/doMap/dontMap) of Telnet from the AST and decides: (a) each table has "
    "exactly the four (state, negotiating) keys, every value is a method, and each telnet_* dispatcher indexes its own table with "
    "the right perspective (him for WILL/WONT, us for DO/DONT); (b) every acknowledgement row clears `negotiating`, detaches "
    "`onResult` and only then fires it exactly once on every path, with the state value RFC 1143 prescribes, and connectionLost "
    "drains both perspectives detach-then-fire; (c) loop freedom: no-op and acknowledgement rows send nothing, unsolicited "
    "state-changing rows send exactly one reply of the prescribed polarity on every path, coupled with the state write; (d) the "
    "requesters will/wont/do/dont send only when neither perspective is negotiating and the state differs, after arming "
    "`negotiating`/`onResult`, and return the armed Deferred; nobody else writes the negotiation fields or fires the Deferreds; (e) entries of "
    "self.options and their perspectives are removed / replaced only under 'neither perspective negotiating' (or after connectionLost drained them); "
    "(f) the framing clauses of C38's receive automaton are included: a WILL/WONT/DO/DONT or sub-negotiation cut by a delivery boundary is still dispatched "
    "(C38:reader/transition-table is finite-exhaustive over all (state, byte) pairs, C38:reader/state-on-instance, who-writes-state, state-has-branch are structural, "
    "C38:reader/round-trip, flush-at-chunk-end, delivery-unchanged, unknown-state-raises are bounded witnesses). All rules (a)-(e) are STRUCTURAL: tables are read from "
    "the AST, path obligations are CFG dominance / must-precede / exactly-once counts on the normalised view (private helpers inlined, named temporaries substituted), "
    "writers are closed over the call graph; nothing is evaluated, no clause of this property rests on bounded evidence only. "
    "send/unconditional: each of _will/_wont/_do/_dont writes its command on every path (a send that depends on other state leaves an armed request without its "
    "command or the peer without its answer) - structural. Bounded witnesses history/...: the negotiation methods interpreted on refuse-then-retry, "
    "re-offer-after-refusal and enable-then-disable histories (each request written, each Deferred fired once, each offer answered). "
    "Not decided: convergence over message interleavings of two endpoints (needs state exploration), user policy hooks."
)
ASSUMPTIONS = [
    "option state is reached only through Telnet.getOptionState / the `state` parameter of the table handlers",
    "enableLocal/enableRemote/disableLocal/disableRemote are opaque policy call-outs that do not touch negotiation fields",
]

SENDS = ("_will", "_wont", "_do", "_dont")
FIELDS = ("state", "negotiating", "onResult")
# map -> (dispatcher, perspective, command constant)
MAPS = {"willMap": ("telnet_WILL", "him", "WILL"), "wontMap": ("telnet_WONT", "him", "WONT"),
        "doMap": ("telnet_DO", "us", "DO"), "dontMap": ("telnet_DONT", "us", "DONT")}
# RFC 1143 reduced to twisted's (state, negotiating) encoding.  kind: noop / bogus / ack / reply
# ack: (new state or None, fire method) ; reply: (positive reply + state, negative reply or None)
ROWS = {
    "willMap": {("no", False): ("reply", "yes", "_do", "_dont"), ("no", True): ("ack", "yes", "callback"),
                ("yes", False): ("noop",), ("yes", True): ("bogus",)},
    "wontMap": {("no", False): ("noop",), ("no", True): ("ack", None, "errback"),
                ("yes", False): ("reply", "no", "_dont", None), ("yes", True): ("ack", "no", "callback")},
    "doMap": {("no", False): ("reply", "yes", "_will", "_wont"), ("no", True): ("ack", "yes", "callback"),
              ("yes", False): ("noop",), ("yes", True): ("bogus",)},
    "dontMap": {("no", False): ("noop",), ("no", True): ("ack", None, "errback"),
                ("yes", False): ("reply", "no", "_wont", None), ("yes", True): ("ack", "no", "callback")},
}
# requester -> (perspective, state that makes the request pointless, send, exception for that case)
REQUESTERS = {"will": ("us", "yes", "_will", "AlreadyEnabled"), "wont": ("us", "no", "_wont", "AlreadyDisabled"),
              "do": ("him", "yes", "_do", "AlreadyEnabled"), "dont": ("him", "no", "_dont", "AlreadyDisabled")}


def _field_write(st, var=None):
    """[(perspective, field, value)] written by a statement through <var>.<us|him>.<field>."""
    out = []
    pairs = assigned_pairs(st) if isinstance(st, (ast.Assign, ast.AnnAssign)) else []
    if isinstance(st, ast.AugAssign):
        pairs = [(st.target, None)]
    if isinstance(st, ast.Delete):
        pairs = [(t, None) for t in st.targets]
    for t, v in pairs:
        if isinstance(t, ast.Attribute) and t.attr in FIELDS and isinstance(t.value, ast.Attribute) and t.value.attr in ("us", "him"):
            base = dotted(t.value.value)
            if var is None or base == var:
                out.append((t.value.attr, t.attr, v))
    return out


def _is_send(call, names=SENDS):
    return isinstance(call, ast.Call) and isinstance(call.func, ast.Attribute) and call.func.attr in names and dotted(call.func.value) == "self"


def _raw_write(call):
    d = call_name(call)
    return d in ("self._write", "self.transport.write", "self.transport.writeSequence")


def check(ctx):
    mod = ctx.mod(TELNET)
    cls = ctx.cls(TELNET, "Telnet")
    meths = methods(cls)
    # rules read a normalised view of each method: private helpers a refactor may introduce (_takeResult, _failPending,
    # _sendCommand ...) expanded at their call sites, named temporaries (ours = optionState.us, handler = self.willMap[k]) substituted
    KNOWN = set(SENDS) | {"_write", "getOptionState", "enableLocal", "enableRemote", "disableLocal", "disableRemote", "applicationDataReceived",
                          "commandReceived", "negotiate", "unhandledCommand", "unhandledSubnegotiation", "requestNegotiation", "connectionLost",
                          "dataReceived"} | set(REQUESTERS) | {d for d, _, _ in MAPS.values()}
    norm = Normaliser(mod, ["Telnet", "TelnetTransport"], KNOWN, const_dispatch=True)
    V = norm.view
    cassign = class_assigns(cls)
    handler_fns = {}        # function name -> (map, key)

    # ---- (a) tables -----------------------------------------------------------------------
    want_keys = {(s, n) for s in ("no", "yes") for n in (False, True)}
    for mname, (disp, persp, cmd) in MAPS.items():
        with ctx.section(f"tables/{mname}"):
            d = cassign.get(mname)
            ctx.need(isinstance(d, ast.Dict), f"class-level dict Telnet.{mname}")
            keys = {}
            for k, v in zip(d.keys, d.values):
                ok = isinstance(k, ast.Tuple) and len(k.elts) == 2 and all(isinstance(e, ast.Constant) for e in k.elts)
                need(ctx, ok, f"{mname} key {src(k)}")
                keys[(k.elts[0].value, k.elts[1].value)] = v
            for key in sorted(want_keys, key=str):
                c = f"{Q}{mname} | {key!r}"
                v = keys.get(key)
                if not ctx.check(v is not None, "table/exhaustive", c,
                                 f"{mname} has no entry for (state, negotiating) = {key!r}: telnet_{cmd} raises KeyError in that state and the "
                                 "negotiation never completes"):
                    continue
                fn = meths.get(v.id) if isinstance(v, ast.Name) else None
                if ctx.check(fn is not None, "table/handler-exists", c, f"{mname}[{key!r}] = {src(v)} is not a method of Telnet"):
                    if fn.name in handler_fns and handler_fns[fn.name] != (mname, key):
                        ctx.violation("table/handler-unique", c, f"{fn.name} serves two different rows: {handler_fns[fn.name]} and {(mname, key)}; "
                                      "the rows have different obligations")
                    else:
                        ctx.ok("table/handler-unique", c)
                        handler_fns[fn.name] = (mname, key)
            extra = set(keys) - want_keys
            ctx.check(not extra, "table/exhaustive", f"{Q}{mname} | extra keys", f"{mname} has keys outside {{no,yes}}x{{False,True}}: {sorted(extra, key=str)}")

            # dispatcher
            f = V(ctx.func(TELNET, f"Telnet.{disp}"))
            qd = Q + disp
            subs = [n for n in ast.walk(f) if isinstance(n, ast.Subscript) and isinstance(n.value, ast.Attribute) and n.value.attr.endswith("Map")
                    and dotted(n.value.value) == "self"]
            if not ctx.check(len(subs) == 1, "dispatch/indexes-own-table", qd, f"{disp} does not index exactly one negotiation table"):
                continue
            sub = subs[0]
            ctx.check(sub.value.attr == mname, "dispatch/indexes-own-table", ctx.construct(qd, sub),
                      f"{disp} dispatches through {sub.value.attr} instead of {mname}")
            opt = f.args.args[1].arg if len(f.args.args) > 1 else "option"
            svars = [t.id for st in statements(f) if isinstance(st, ast.Assign) and isinstance(st.value, ast.Call)
                     and call_name(st.value) == "self.getOptionState" and len(st.value.args) == 1 and src(st.value.args[0]) == opt
                     for t in st.targets if isinstance(t, ast.Name)]
            ctx.need(svars, f"{disp}: s = self.getOptionState({opt})")
            s = svars[0]
            idx = sub.slice
            good = (isinstance(idx, ast.Tuple) and len(idx.elts) == 2 and is_attr(idx.elts[0], f"{s}.{persp}", "state")
                    and is_attr(idx.elts[1], f"{s}.{persp}", "negotiating"))
            ctx.check(good, "dispatch/perspective", ctx.construct(qd, sub),
                      f"{disp} must index {mname} with ({s}.{persp}.state, {s}.{persp}.negotiating): a {cmd} from the peer is about the option on "
                      f"{'his' if persp == 'him' else 'our'} side")
            call = getattr(sub, "_parent", None)
            okc = isinstance(call, ast.Call) and call.func is sub and [src(a) for a in call.args] == ["self", s, opt]
            ctx.check(okc, "dispatch/handler-args", ctx.construct(qd, sub), f"the table handler is not called with (self, {s}, {opt})")

    with ctx.section('dispatch/command-map'):
        init = ctx.func(TELNET, "Telnet.__init__")
        cmaps = [st.value for st in statements(init) if isinstance(st, ast.Assign) and any(is_attr(t, "self", "commandMap") for t in st.targets)
                 and isinstance(st.value, ast.Dict)]
        ctx.need(cmaps, "Telnet.__init__: self.commandMap = {...}")
        got = {src(k): src(v) for k, v in zip(cmaps[0].keys, cmaps[0].values)}
        for mname, (disp, persp, cmd) in MAPS.items():
            ctx.check(got.get(cmd) == f"self.{disp}", "dispatch/command-map", f"{Q}__init__ | commandMap[{cmd}]",
                      f"commandMap[{cmd}] is {got.get(cmd)!r}, not self.{disp}: received {cmd} commands reach the wrong table (or none)")
    for snd in SENDS:
        with ctx.section(f"senders/{snd}"):
            f = V(ctx.func(TELNET, f"Telnet.{snd}"))
            ws = [c for c in ast.walk(f) if isinstance(c, ast.Call) and _raw_write(c)]
            good = len(ws) == 1 and len(ws[0].args) == 1 and src(ws[0].args[0]) == f"IAC + {snd[1:].upper()} + {f.args.args[1].arg}"
            ctx.check(good, "send/command-byte", Q + snd, f"{snd} does not write exactly IAC + {snd[1:].upper()} + option")
            # ... and writes it on every path: the requesters arm `negotiating` / the Deferred and the refusing rows owe the peer an answer on the strength
            # of this call; a send that depends on other state (e.g. "not the same command as last time") leaves a request without its command
            if good:
                gs = ctx.cfg(f)
                wn = [n_ for w_ in ws for n_ in gs.ids_of(w_)]
                from sa.props._lib_h import edge_path as _ep
                wpath = _ep(gs, [gs.entry], [gs.exit], avoid_nodes=wn)
                ctx.check(bool(wn) and wpath is None, "send/unconditional", Q + snd,
                          f"{snd} can return without having written IAC {snd[1:].upper()} <option>: the send is conditional, so a request armed by "
                          f"{snd[1:]}() (negotiating set, Deferred handed out) or an answer owed to the peer may never be transmitted - the Deferred never fires / the "
                          "peer waits for a reply", witness=gs.describe(wpath))
    with ctx.section('command-bytes'):
        consts = {}
        for st in mod.tree.body:
            if isinstance(st, ast.Assign) and len(st.targets) == 1 and isinstance(st.targets[0], ast.Name) and isinstance(st.value, ast.Call) \
                    and call_name(st.value) == "_chr" and len(st.value.args) == 1 and isinstance(st.value.args[0], ast.Constant):
                consts[st.targets[0].id] = st.value.args[0].value
        cmdvals = [consts.get(c) for c in ("WILL", "WONT", "DO", "DONT")]
        ctx.check(None not in cmdvals and len(set(cmdvals)) == 4, "send/command-byte", "twisted.conch.telnet | WILL/WONT/DO/DONT",
                  f"the four negotiation command bytes are not pairwise distinct: {cmdvals}")

        # ---- (b)+(c) rows --------------------------------------------------------------------
        nrows = 0
    for fname, (mname, key) in sorted(handler_fns.items()):
        with ctx.section(f"rows/{fname}"):
            row = ROWS[mname][key]
            persp = MAPS[mname][1]
            other = "us" if persp == "him" else "him"
            f = V(meths[fname])
            ctx.functions.add(f"{TELNET}:Telnet.{fname}")
            g = ctx.cfg(f)
            q = Q + fname
            sv = f.args.args[1].arg if len(f.args.args) > 1 else "state"
            nrows += 1
            send_nodes = call_nodes(g, lambda c: _is_send(c) or _raw_write(c))
            send_calls = {n: calls_at(g, n, lambda c: _is_send(c) or _raw_write(c)) for n in send_nodes}
            writes = [(n, w) for n in stmts(g, lambda st: bool(_field_write(st, sv))) for w in _field_write(g.node(n).ast, sv)]
            # nothing in a table handler may touch the other perspective
            for n, (p, fld, v) in writes:
                ctx.check(p == persp, "row/perspective", ctx.construct(q, g.node(n).ast),
                          f"handler of {mname}{key!r} writes {sv}.{p}.{fld}; a {MAPS[mname][2]} is about the '{persp}' side only")
            mine = [(n, fld, v) for n, (p, fld, v) in writes if p == persp]
            kind = row[0]
            if kind in ("noop", "bogus", "ack"):
                for n in send_nodes:
                    ctx.check(False, "loop-freedom/no-reply", ctx.construct(q, g.node(n).ast),
                              f"row {mname}{key!r} ({'already in the requested state' if kind == 'noop' else 'acknowledgement of our own request' if kind == 'ack' else 'unreachable'}) "
                              "answers the peer: two such endpoints bounce messages forever (RFC 1143)")
                if not send_nodes:
                    ctx.ok("loop-freedom/no-reply", q)
            if kind == "noop":
                for n, fld, v in mine:
                    ctx.check(False, "row/noop-keeps-state", ctx.construct(q, g.node(n).ast),
                              f"row {mname}{key!r} must not change {sv}.{persp}.{fld}")
                if not mine:
                    ctx.ok("row/noop-keeps-state", q)
            elif kind == "ack":
                newstate, fire = row[1], row[2]
                clears = [n for n, fld, v in mine if fld == "negotiating" and const_is(v, False)]
                detach = [n for n, fld, v in mine if fld == "onResult" and const_is(v, None)]
                swrites = [(n, v) for n, fld, v in mine if fld == "state"]
                # local(s) holding the detached Deferred
                dvars = {t.id for st in statements(f) if isinstance(st, ast.Assign) for t, v in assigned_pairs(st)
                         if isinstance(t, ast.Name) and v is not None and is_attr(v, f"{sv}.{persp}", "onResult")}
                for _ in range(3):      # names that only rename the detached Deferred
                    dvars |= {t.id for st in statements(f) if isinstance(st, ast.Assign) for t, v in assigned_pairs(st)
                              if isinstance(t, ast.Name) and isinstance(v, ast.Name) and v.id in dvars}
                def is_fire(c, any_kind=True):
                    if not (isinstance(c.func, ast.Attribute) and c.func.attr in ("callback", "errback")):
                        return False
                    r = c.func.value
                    return (isinstance(r, ast.Name) and r.id in dvars) or is_attr(r, f"{sv}.{persp}", "onResult")
                fires = call_nodes(g, is_fire)
                ctx.check(len(fires) == 1, "ack/fires-once", q,
                          f"row {mname}{key!r} must fire the request Deferred at exactly one site (found {len(fires)})")
                for n, fld, v in mine:
                    if fld == "negotiating" and not const_is(v, False):
                        ctx.check(False, "ack/clears-negotiating", ctx.construct(q, g.node(n).ast), "an acknowledgement row sets negotiating to something other than False")
                    if fld == "onResult" and not const_is(v, None):
                        ctx.check(False, "ack/detaches", ctx.construct(q, g.node(n).ast), "an acknowledgement row stores a new onResult")
                w = edge_path(g, [g.entry], [g.exit], avoid_nodes=clears)
                ctx.check(bool(clears) and w is None, "ack/clears-negotiating", q,
                          f"{sv}.{persp}.negotiating stays True after the peer answered: every later request fails with AlreadyNegotiating and "
                          "the next answer is routed to the *_true row again", witness=g.describe(w))
                w = edge_path(g, [g.entry], [g.exit], avoid_nodes=detach)
                ctx.check(bool(detach) and w is None, "ack/detaches", q,
                          f"{sv}.{persp}.onResult is not reset to None: connectionLost (or the next answer) fires the same Deferred again",
                          witness=g.describe(w))
                w = edge_path(g, [g.entry], [g.exit], avoid_nodes=fires)
                ctx.check(bool(fires) and w is None, "ack/fires-once", q + " | every path",
                          "the handler can return without firing the request Deferred: the caller waits forever", witness=g.describe(w))
                for fn_ in fires:
                    c = calls_at(g, fn_, is_fire)[0]
                    isname = isinstance(c.func.value, ast.Name)
                    ctx.check(isname, "ack/detaches", ctx.construct(q, c), "the Deferred is fired through the attribute, not through a detached local")
                    ctx.check(c.func.attr == fire, "ack/result-kind", ctx.construct(q, c),
                              f"row {mname}{key!r} must {fire} (the peer {'refused' if fire == 'errback' else 'agreed'})")
                    if fire == "callback":
                        ctx.check(len(c.args) == 1 and const_is(c.args[0], True), "ack/result-kind", ctx.construct(q, c) + " | value",
                                  "a successful negotiation fires with True")
                    else:
                        ctx.check(len(c.args) == 1 and "OptionRefused" in src(c.args[0]), "ack/result-kind", ctx.construct(q, c) + " | value",
                                  "a refused negotiation fails with OptionRefused")
                    for what, nodes, why in (("negotiating cleared", clears, "a callback that issues a new request sees AlreadyNegotiating"),
                                             ("onResult detached", detach, "a re-entrant answer or connectionLost fires it a second time"),
                                             ("state updated", [n for n, v in swrites], "a callback observes the stale option state")):
                        if not nodes:
                            continue
                        w = g.must_precede(nodes, [fn_], exc=False)
                        ctx.check(w is None, "ack/fire-last", ctx.construct(q, c) + f" | {what}",
                                  f"the Deferred is fired before {what}: {why}", witness=g.describe(w))
                    w = edge_path(g, [fn_], [fn_], strict=True)
                    ctx.check(w is None, "ack/fires-once", ctx.construct(q, c) + " | loop", "the fire site can execute twice")
                if newstate is None:
                    for n, v in swrites:
                        ctx.check(False, "ack/state", ctx.construct(q, g.node(n).ast), f"a refusal must leave {sv}.{persp}.state unchanged")
                    if not swrites:
                        ctx.ok("ack/state", q)
                else:
                    good = [n for n, v in swrites if const_is(v, newstate)]
                    for n, v in swrites:
                        ctx.check(const_is(v, newstate), "ack/state", ctx.construct(q, g.node(n).ast),
                                  f"row {mname}{key!r} must set {sv}.{persp}.state = {newstate!r}")
                    w = edge_path(g, [g.entry], [g.exit], avoid_nodes=good)
                    ctx.check(bool(good) and w is None, "ack/state", q,
                              f"{sv}.{persp}.state is not set to {newstate!r} although the peer acknowledged: the two sides disagree about the option",
                              witness=g.describe(w))
            elif kind == "reply":
                newstate, pos, neg = row[1], row[2], row[3]
                allowed = {pos} | ({neg} if neg else set())
                for n, fld, v in mine:
                    if fld != "state":
                        ctx.check(False, "reply/fields", ctx.construct(q, g.node(n).ast),
                                  f"an unsolicited {MAPS[mname][2]} is not an answer to our request; {sv}.{persp}.{fld} must not be touched")
                for n in send_nodes:
                    for c in send_calls[n]:
                        ctx.check(_is_send(c) and c.func.attr in allowed, "reply/polarity", ctx.construct(q, c),
                                  f"row {mname}{key!r} may only answer with {sorted(allowed)}")
                w = edge_path(g, [g.entry], [g.exit], avoid_nodes=send_nodes)
                ctx.check(bool(send_nodes) and w is None, "reply/exactly-one", q,
                          f"a state-changing {MAPS[mname][2]} can go unanswered: the peer's request Deferred never fires", witness=g.describe(w))
                for a in send_nodes:
                    w = edge_path(g, [a], send_nodes, strict=True)
                    ctx.check(w is None and len(send_calls[a]) == 1, "reply/exactly-one", ctx.construct(q, g.node(a).ast),
                              "two replies can be sent for one received command", witness=g.describe(w))
                pos_nodes = [n for n in send_nodes if any(_is_send(c) and c.func.attr == pos for c in send_calls[n])]
                neg_nodes = [n for n in send_nodes if n not in pos_nodes]
                sw_good = [n for n, fld, v in mine if fld == "state" and const_is(v, newstate)]
                for n, fld, v in mine:
                    if fld == "state":
                        ctx.check(const_is(v, newstate), "reply/state-coupled", ctx.construct(q, g.node(n).ast),
                                  f"row {mname}{key!r} may only set {sv}.{persp}.state = {newstate!r}")
                ctx.check(bool(pos_nodes), "reply/polarity", q + f" | {pos}", f"row {mname}{key!r} never answers {pos}: the option can never change state")
                for p in pos_nodes:
                    # every path entry -> p passes a state write, or every path p -> exit does
                    before = edge_path(g, [g.entry], [p], avoid_nodes=sw_good)
                    after = edge_path(g, [p], [g.exit], avoid_nodes=sw_good, strict=True)
                    ctx.check(bool(sw_good) and (before is None or after is None), "reply/state-coupled", ctx.construct(q, g.node(p).ast),
                              f"{pos} is sent without recording {sv}.{persp}.state = {newstate!r}: we told the peer the option changed but "
                              "believe it did not", witness=g.describe(before))
                for nn in neg_nodes:
                    w1 = edge_path(g, sw_good, [nn]) if sw_good else None
                    w2 = edge_path(g, [nn], sw_good, strict=True) if sw_good else None
                    ctx.check(w1 is None and w2 is None, "reply/state-coupled", ctx.construct(q, g.node(nn).ast),
                              f"the refusal is sent on a path that also records {sv}.{persp}.state = {newstate!r}", witness=g.describe(w1 or w2))
    with ctx.section('rows-floor'):
        ctx.floor("rows", nrows, 12, "table handlers")

    for name, (persp, pointless, snd, exc_name) in REQUESTERS.items():
        with ctx.section(f"requesters/{name}"):
            f = V(ctx.func(TELNET, f"Telnet.{name}"))
            g = ctx.cfg(f)
            q = Q + name
            opt = f.args.args[1].arg
            svars = [t.id for st in statements(f) if isinstance(st, ast.Assign) and isinstance(st.value, ast.Call)
                     and call_name(st.value) == "self.getOptionState" for t in st.targets if isinstance(t, ast.Name)]
            ctx.need(svars, f"{name}: s = self.getOptionState(option)")
            s = svars[0]
            sends = call_nodes(g, lambda c: _is_send(c) or _raw_write(c))
            mine = [n for n in sends if any(_is_send(c) and c.func.attr == snd and [src(a) for a in c.args] == [opt] for c in calls_at(g, n, lambda c: True))]
            for n in sends:
                if n not in mine:
                    ctx.check(False, "request/sends-own-command", ctx.construct(q, g.node(n).ast), f"{name}() must send {snd}({opt}) and nothing else")
            if not ctx.check(len(mine) == 1, "request/sends-own-command", q, f"{name}() has {len(mine)} self.{snd}({opt}) sites (exactly one expected)"):
                continue
            send = mine[0]
            writes = [(n, w) for n in stmts(g, lambda st: bool(_field_write(st, s))) for w in _field_write(g.node(n).ast, s)]
            for n, (p, fld, v) in writes:
                ctx.check(p == persp and fld in ("negotiating", "onResult"), "request/fields", ctx.construct(q, g.node(n).ast),
                          f"{name}() may only arm {s}.{persp}.negotiating / onResult (the state changes when the peer answers)")
            arm = [n for n, (p, fld, v) in writes if p == persp and fld == "negotiating" and const_is(v, True)]
            def fresh_deferred(n, v):
                if isinstance(v, ast.Call) and call_attr(v) == "Deferred":
                    return True
                if isinstance(v, ast.Name):
                    ds = reaching_defs(g, v.id, n)
                    vals = [x for dn in ds for t, x in assigned_pairs(g.node(dn).ast) if isinstance(t, ast.Name) and t.id == v.id]
                    return bool(vals) and all(isinstance(x, ast.Call) and call_attr(x) == "Deferred" for x in vals)
                return False
            store = [n for n, (p, fld, v) in writes if p == persp and fld == "onResult" and fresh_deferred(n, v)]
            # guards of the send and of the arming writes
            neg_tests = {pp: tests(g, lambda e, pp=pp: is_attr(e, f"{s}.{pp}", "negotiating")) for pp in ("us", "him")}

            def state_edges():
                out = []
                for t in g.ids(lambda n: n.kind == "test"):
                    e = g.node(t).ast
                    if isinstance(e, ast.Compare) and len(e.ops) == 1 and is_attr(e.left, f"{s}.{persp}", "state") and isinstance(e.comparators[0], ast.Constant):
                        val = e.comparators[0].value
                        if val not in ("yes", "no"):
                            continue
                        eq = isinstance(e.ops[0], ast.Eq)
                        if not eq and not isinstance(e.ops[0], ast.NotEq):
                            continue
                        # edge on which state != pointless
                        differs_on_true = (eq and val != pointless) or (not eq and val == pointless)
                        out.append((t, "T" if differs_on_true else "F"))
                return out
            sedges = state_edges()
            for site, label in [(send, "send")] + [(n, "arm") for n in arm + store]:
                c = ctx.construct(q, g.node(site).ast)
                for pp in ("us", "him"):
                    ok = bool(neg_tests[pp]) and edge_path(g, [g.entry], [site], avoid_edges=[(t, "F") for t in neg_tests[pp]]) is None
                    ctx.check(ok, "request/not-while-negotiating", c + f" | {pp}",
                              f"{name}() proceeds although {s}.{pp}.negotiating may be True: two overlapping negotiations about one option make the "
                              "answers ambiguous (first Deferred is overwritten and never fires)")
                ok = bool(sedges) and edge_path(g, [g.entry], [site], avoid_edges=sedges) is None
                ctx.check(ok, "request/only-if-state-differs", c,
                          f"{name}() asks for a state the option is already in: the peer (RFC 1143) does not answer and the Deferred never fires")
            for what, nodes, why in ((f"{s}.{persp}.negotiating = True", arm, "a synchronous answer is dispatched to the *_false row and the request is lost"),
                                     (f"{s}.{persp}.onResult = Deferred()", store, "a synchronous answer finds no Deferred to fire")):
                w = g.must_precede(nodes, [send], exc=False)
                ctx.check(bool(nodes) and w is None, "request/arm-before-send", ctx.construct(q, g.node(send).ast) + f" | {what}",
                          f"{snd} is sent before {what}: {why}", witness=g.describe(w))
            # the Deferred returned after the send is the armed one
            co = set()
            for n in store:
                st = g.node(n).ast
                co |= {t.id for t in getattr(st, "targets", []) if isinstance(t, ast.Name)}
                co |= {v.id for p, fld, v in _field_write(st, s) if fld == "onResult" and isinstance(v, ast.Name)}
            rets = [n for n in stmts(g, lambda st: isinstance(st, ast.Return)) if edge_path(g, [send], [n]) is not None]
            for r in rets:
                v = g.node(r).ast.value
                ok = (isinstance(v, ast.Name) and v.id in co) or is_attr(v, f"{s}.{persp}", "onResult")
                ctx.check(ok, "request/returns-armed-deferred", ctx.construct(q, g.node(r).ast),
                          f"{name}() returns something other than the Deferred stored in {s}.{persp}.onResult: the caller never learns the outcome")
            w = edge_path(g, [send], [g.exit], avoid_nodes=rets)
            ctx.check(bool(rets) and w is None, "request/returns-armed-deferred", q, f"{name}() can fall off its end after sending", witness=g.describe(w))
            # failure answers
            for pp in ("us", "him"):
                for t in neg_tests[pp]:
                    for d in succ_on(g, t, "T"):
                        bad = edge_path(g, [d], [g.exit], avoid_nodes=stmts(g, lambda st: isinstance(st, ast.Return) and "AlreadyNegotiating" in src(st)))
                        ctx.check(bad is None, "request/fails-fast", ctx.construct(q, g.node(t).ast),
                                  "a request made while a negotiation is in flight does not fail with AlreadyNegotiating", witness=g.describe(bad))
            for t, lab in sedges:
                for d in succ_on(g, t, "F" if lab == "T" else "T"):
                    bad = edge_path(g, [d], [g.exit], avoid_nodes=stmts(g, lambda st: isinstance(st, ast.Return) and exc_name in src(st)))
                    ctx.check(bad is None, "request/fails-fast", ctx.construct(q, g.node(t).ast),
                              f"a pointless request does not fail with {exc_name}", witness=g.describe(bad))

    with ctx.section('drain/connectionLost'):
        f = V(ctx.func(TELNET, "Telnet.connectionLost"))
        g = ctx.cfg(f)
        q = Q + "connectionLost"
        loops = [n for n in g.ids(lambda n: n.kind == "for") if src(g.node(n).ast.iter) in ("self.options.values()", "list(self.options.values())")
                 and isinstance(g.node(n).ast.target, ast.Name)]
        ctx.need(loops, "connectionLost: for state in self.options.values()")
        lv = g.node(loops[0]).ast.target.id
        drained = set()
        fires = call_nodes(g, lambda c: isinstance(c.func, ast.Attribute) and c.func.attr in ("errback", "callback"))
        for fn_ in fires:
            call = calls_at(g, fn_, lambda c: isinstance(c.func, ast.Attribute) and c.func.attr in ("errback", "callback"))[0]
            recv = call.func.value
            if isinstance(recv, ast.Attribute) and recv.attr == "onResult":
                ctx.check(False, "drain/detach-then-fire", ctx.construct(q, call), "fired through the attribute, not a detached local")
                continue
            if not isinstance(recv, ast.Name):
                continue
            defs = reaching_defs(g, recv.id, fn_)
            pps = set()
            for dn in defs:
                vals = [v for t, v in assigned_pairs(g.node(dn).ast) if isinstance(t, ast.Name) and t.id == recv.id]
                for v in vals:
                    for pp in ("us", "him"):
                        if v is not None and is_attr(v, f"{lv}.{pp}", "onResult"):
                            pps.add((pp, dn))
            if not pps:
                continue
            for pp, dn in sorted(pps):
                drained.add(pp)
                c = ctx.construct(q, call) + f" | {pp}"
                ctx.check(call.func.attr == "errback", "drain/detach-then-fire", c + " | kind", "a lost connection must fail the pending request")
                resets = stmts(g, lambda st: any(p == pp and fld == "onResult" and const_is(v, None) for p, fld, v in _field_write(st, lv)))
                w = edge_path(g, [dn], [fn_], avoid_nodes=resets, strict=True)
                ctx.check(bool(resets) and w is None, "drain/detach-then-fire", c,
                          f"{lv}.{pp}.onResult is still set when its Deferred is errbacked: an errback that re-enters (or a second connectionLost) "
                          "fires it again (AlreadyCalledError)", witness=g.describe(w))
                def pending_edges():
                    out = []
                    for t in g.ids(lambda n: n.kind == "test"):
                        e = g.node(t).ast
                        if isinstance(e, ast.Compare) and len(e.ops) == 1 and const_is(e.comparators[0], None) and isinstance(e.ops[0], (ast.Is, ast.IsNot)) \
                                and (is_attr(e.left, f"{lv}.{pp}", "onResult") or (isinstance(e.left, ast.Name) and e.left.id == recv.id)):
                            out.append((t, "T" if isinstance(e.ops[0], ast.IsNot) else "F"))
                    return out
                pe = pending_edges()
                ok = bool(pe) and edge_path(g, loops, [fn_], avoid_edges=pe, strict=True) is None
                ctx.check(ok, "drain/only-pending", c, f"errback is attempted although {lv}.{pp}.onResult may be None")
        for pp in ("us", "him"):
            ctx.check(pp in drained, "drain/both-perspectives", q + f" | {pp}",
                      f"connectionLost does not fail the pending '{pp}' request Deferreds: they never fire")
    with ctx.section('drain/transport'):
        f2 = ctx.func(TELNET, "TelnetTransport.connectionLost")
        g2 = ctx.cfg(f2)
        up = call_nodes(g2, lambda c: call_name(c) == "Telnet.connectionLost" or (isinstance(c.func, ast.Attribute) and c.func.attr == "connectionLost"
                                                                                    and isinstance(c.func.value, ast.Call) and call_name(c.func.value) == "super"))
        w = edge_path(g2, [g2.entry], [g2.exit, g2.raise_exit], avoid_nodes=up, exc=True)
        ctx.check(bool(up) and w is None, "drain/reached-from-transport", "twisted.conch.telnet.TelnetTransport.connectionLost",
                  "TelnetTransport.connectionLost can finish without Telnet.connectionLost: pending negotiation Deferreds never fire",
                  witness=g2.describe(w))

    with ctx.section('who-may-write'):
        allowed = set(handler_fns) | set(REQUESTERS) | {"connectionLost"}
        n_w = 0
        # methods of the private nested state records (followed by the normaliser at their call sites) that write the negotiation fields of the record
        # they are called on: such a write is made on behalf of the caller, and it is the caller that needs the permission
        record_writers = {}
        for mname, mf in norm.finl.table.items():
            me = mf.args.args[0].arg
            k = sum(1 for st in statements(mf) if isinstance(st, (ast.Assign, ast.AugAssign))
                    for t in (st.targets if isinstance(st, ast.Assign) else [st.target]) for t2 in (t.elts if isinstance(t, (ast.Tuple, ast.List)) else [t])
                    if isinstance(t2, ast.Attribute) and t2.attr in ("negotiating", "onResult") and isinstance(t2.value, ast.Name) and t2.value.id == me)
            k += sum(1 for c in ast.walk(mf) if isinstance(c, ast.Call) and isinstance(c.func, ast.Attribute) and c.func.attr in ("callback", "errback"))
            if k:
                record_writers[mname] = k
        record_fns = {id(f_) for f_ in norm.finl.table.values()}
        for qual, fn in mod.functions():
            parts = qual.split(".")
            in_allowed = len(parts) == 2 and parts[0] == "Telnet" and norm.permitted(parts[1], allowed)
            if id(fn) in record_fns:
                continue        # accounted for at the call sites below
            for c in ast.walk(fn):
                if isinstance(c, ast.Call) and isinstance(c.func, ast.Attribute) and c.func.attr in record_writers and norm.finl.helper_of(c) is not None:
                    n_w += record_writers[c.func.attr]
                    if not in_allowed:
                        ctx.check(False, "who-may-write/negotiation-fields", ctx.construct("twisted.conch.telnet." + qual, c),
                                  f"{qual} changes the negotiation fields of an option through {src(c.func)[:40]}(); only the requesters, the table handlers and connectionLost may")
            for st in statements(fn):
                direct = _field_write(st)
                via_param = [("?", t.attr, None) for t in (st.targets if isinstance(st, ast.Assign) else [getattr(st, "target", None)])
                             for t in (t.elts if isinstance(t, (ast.Tuple, ast.List)) else [t])
                             if isinstance(t, ast.Attribute) and t.attr in ("negotiating", "onResult") and isinstance(t.value, ast.Name) and t.value.id != "self"] \
                    if isinstance(st, (ast.Assign, ast.AugAssign)) else []
                for p, fld, v in direct + via_param:
                    n_w += 1
                    if not in_allowed:
                        ctx.check(False, "who-may-write/negotiation-fields", ctx.construct("twisted.conch.telnet." + qual, st),
                                  f"{qual} writes <option>.{p}.{fld}; only the requesters, the table handlers and connectionLost may")
            if not in_allowed:
                for c in ast.walk(fn):
                    if isinstance(c, ast.Call) and isinstance(c.func, ast.Attribute) and c.func.attr in ("callback", "errback") \
                            and isinstance(c.func.value, ast.Attribute) and c.func.value.attr == "onResult":
                        ctx.check(False, "who-may-write/negotiation-fields", ctx.construct("twisted.conch.telnet." + qual, c),
                                  f"{qual} fires a negotiation Deferred outside the table handlers")
        ctx.ok("who-may-write/negotiation-fields", "twisted.conch.telnet", f"{n_w} writes, all in requesters/handlers/connectionLost")
        ctx.floor("who-may-write/negotiation-fields", n_w, 20, "field writes")

    with ctx.section('option-state/who-may-remove'):
        _option_state_lifetime(ctx, mod)
    # a negotiation command that is cut by a delivery boundary must still reach telnet_WILL/WONT/DO/DONT: the framing clauses of
    # C38's receive automaton (every two-way split of IAC WILL/WONT/DO/DONT x and IAC SB .. IAC SE, state kept on the instance)
    # are necessary clauses here too - a lost command leaves the request Deferred unfired
    ctx.include("C38", rule_filter=lambda r: r.startswith("reader/"), why="negotiation commands must survive segmentation to be dispatched")
    with ctx.section('history/negotiations'):
        _histories(ctx, mod)


def _histories(ctx, mod):
    """Bounded second layer: Telnet's negotiation methods interpreted (whitelisted interpreter, stand-in Deferreds, recording _write) on short histories of
    requests and peer answers, including refuse-then-retry and re-offer-after-refusal: every request writes its command and its Deferred fires exactly once
    when the peer answers; every unsolicited request from the peer is answered exactly once."""
    from sa.props._lib_h import xvm
    from sa.props._lib_h_d import VMError, VMStub
    from sa.source import AnalysisError
    C = {}
    for st in mod.tree.body:
        if isinstance(st, ast.Assign) and len(st.targets) == 1 and isinstance(st.targets[0], ast.Name) and isinstance(st.value, ast.Call) \
                and call_name(st.value) == "_chr" and len(st.value.args) == 1 and isinstance(st.value.args[0], ast.Constant):
            C[st.targets[0].id] = bytes((st.value.args[0].value,))
    need = ("IAC", "WILL", "WONT", "DO", "DONT")
    if any(k not in C for k in need):
        raise AnalysisError("C39: telnet command constants")
    IAC, WILL, WONT, DO, DONT = (C[k] for k in need)
    OPT = b"\x2a"

    class Deferred(VMStub):
        def __init__(self):
            self.fired = []

        def callback(self, v):
            self.fired.append(("ok", v))

        def errback(self, v):
            self.fired.append(("fail", v))

        def addCallback(self, *a, **k):
            return self

        addErrback = addBoth = addCallback

    _Deferred = Deferred

    class DeferMod(VMStub):
        Deferred = _Deferred

        @staticmethod
        def fail(v):
            d = _Deferred()
            d.fired.append(("fail", v))
            return d

    def run(steps, accept):
        wire = []
        vm = xvm(mod, hooks={"_write": lambda vm_, o, data: wire.append(bytes(data)),
                             "enableRemote": lambda vm_, o, opt: accept, "enableLocal": lambda vm_, o, opt: accept,
                             "disableRemote": lambda vm_, o, opt: None, "disableLocal": lambda vm_, o, opt: None}, budget=2 * 10 ** 6)
        vm.mod._g["defer"] = DeferMod()
        tel = vm.new(vm.cls("Telnet"))
        log = []
        for kind, name in steps:
            n0 = len(wire)
            try:
                if kind == "request":
                    d = vm.call_method(tel, name, OPT)
                    log.append(("request", name, d, wire[n0:]))
                else:
                    vm.call_method(tel, "telnet_" + name, OPT)
                    log.append(("peer", name, None, wire[n0:]))
            except VMError as e:
                raise AnalysisError(f"C39: negotiation history outside the interpreter's subset: {e}")
            except Exception as e:
                log.append(("raises", name, f"{type(e).__name__}: {e}", wire[n0:]))
        return log
    q = Q[:-1] + " | <negotiation histories>"
    REQ = {"do": (DO, "WILL", "WONT"), "dont": (DONT, "WONT", None), "will": (WILL, "DO", "DONT"), "wont": (WONT, "DONT", None)}
    n = 0
    bad = None
    # refuse-then-retry: request, peer refuses, same request again, peer refuses again / agrees
    for req in ("do", "will"):
        cmd, yes, no = REQ[req]
        for second in (no, yes):
            n += 1
            log = run([("request", req), ("peer", no), ("request", req), ("peer", second)], True)
            probs = []
            for i in (0, 2):
                k, nm, d, w = log[i]
                if k != "request" or w != [IAC + cmd + OPT]:
                    probs.append(f"{'first' if i == 0 else 'second'} {req}() wrote {w!r} instead of IAC {req.upper()} <option>")
                ans = log[i + 1]
                fired = getattr(d, "fired", None)
                if fired is None or len(fired) != 1:
                    probs.append(f"the Deferred of the {'first' if i == 0 else 'second'} {req}() fired {0 if not fired else len(fired)} times after the peer's {ans[1]}")
            if probs and bad is None:
                bad = (f"{req}(), peer {no}, {req}() again, peer {second}", probs)
    ctx.check(bad is None, "history/request-written-and-answered", q + " | refuse then retry",
              f"{bad[0] if bad else ''}: {'; '.join(bad[1]) if bad else ''} - the request stays 'negotiating' for ever and every later request fails with AlreadyNegotiating",
              detail=f"{n} histories")
    # the peer re-offers an option we refuse: every offer gets its refusal
    bad = None
    for offer, refusal in (("WILL", DONT), ("DO", WONT)):
        n += 1
        log = run([("peer", offer), ("peer", offer), ("peer", offer)], False)
        ws = [w for _, _, _, w in log]
        if any(w != [IAC + refusal + OPT] for w in ws) and bad is None:
            bad = (offer, ws)
    ctx.check(bad is None, "history/every-offer-answered", q + " | re-offer after refusal",
              f"the peer sends {bad[0] if bad else ''} for a refused option three times; the answers written are {bad[1] if bad else []!r} (each offer must be refused again: "
              "a peer waiting for the reply hangs)", detail="2 histories of three offers")
    # agree then disable: the plain path still works
    n += 1
    log = run([("request", "do"), ("peer", "WILL"), ("request", "dont"), ("peer", "WONT")], True)
    okp = [e[3] for e in log] == [[IAC + DO + OPT], [], [IAC + DONT + OPT], []] and all(len(getattr(e[2], "fired", [])) == 1 for e in log if e[0] == "request")
    ctx.check(okp, "history/request-written-and-answered", q + " | enable then disable", f"do / WILL / dont / WONT: {[(e[0], e[1], e[3]) for e in log]!r}")
    ctx.extra["negotiation_histories"] = n


def _option_state_lifetime(ctx, mod):
    """Entries of self.options (and their us/him perspectives) may be removed / replaced only when both perspectives are idle."""
    from sa.effects import class_accesses
    from sa.props._lib_h import guarded_by_edges, truth_edges
    REMOVERS = {"pop_key", "pop_last", "pop_first", "popitem", "delitem", "clear", "delete", "del-prefix", "del-slice", "rebind-empty", "assign", "setitem", "update", "remove"}
    n_sites = 0
    for cname in ("Telnet", "TelnetTransport"):
        cls = ctx.cls(TELNET, cname)
        for a in class_accesses(mod, cls, {"options"}, receivers={"self"}):
            n_sites += 1
            fq = f"twisted.conch.telnet.{a.func}"
            c = ctx.construct(fq, a.node)
            if a.kind == "setdefault":
                ctx.ok("option-state/who-may-remove", c, "creates an entry only when none exists")
                continue
            if a.kind not in REMOVERS:
                ctx.check(False, "option-state/who-may-remove", c, f"unclassified mutation of self.options ({a.kind})")
                continue
            if a.func.endswith(".__init__") and a.kind in ("rebind-empty", "assign"):
                ctx.ok("option-state/who-may-remove", c, "initialisation")
                continue
            fn = mod.find(a.func)
            g = ctx.cfg(fn)
            sites = g.ids_of(a.node)
            idle = {}
            for pp in ("us", "him"):
                e1 = truth_edges(g, lambda e, pp=pp: isinstance(e, ast.Attribute) and e.attr == "negotiating" and isinstance(e.value, ast.Attribute) and e.value.attr == pp, False)
                idle[pp] = bool(e1) and bool(sites) and all(guarded_by_edges(g, s_, e1) for s_ in sites)
            drained = False
            if a.func.endswith(".connectionLost"):
                fires = g.find(lambda x: isinstance(x, ast.Call) and isinstance(x.func, ast.Attribute) and x.func.attr == "errback")
                loops = g.ids(lambda n: n.kind == "for")
                # after the drain loop has completed (its 'done' edge), every pending Deferred has been failed
                drained = bool(fires) and bool(loops) and bool(sites) and all(
                    edge_path(g, [g.entry], [s_], avoid_edges=[(l, "done") for l in loops]) is None for s_ in sites)
            ctx.check((idle["us"] and idle["him"]) or drained, "option-state/who-may-remove", c,
                      f"{a.func} drops / replaces option state ({a.kind}) without knowing that neither perspective has a negotiation in flight: a pending "
                      "request (negotiating=True, onResult set) for the other direction is discarded - its Deferred never fires and the peer's answer is "
                      "dispatched to the unsolicited row (e.g. do(X) done, will(X) in flight, WONT X arrives)")
    # the perspectives themselves are created once per _OptionState
    for qual, fn in mod.functions():
        for st in statements(fn):
            for t, v in assigned_pairs(st) if isinstance(st, (ast.Assign, ast.AnnAssign)) else []:
                if isinstance(t, ast.Attribute) and t.attr in ("us", "him") and not (isinstance(t.value, ast.Name) and t.value.id == "self" and qual.endswith("_OptionState.__init__")):
                    n_sites += 1
                    ctx.check(False, "option-state/who-may-remove", ctx.construct("twisted.conch.telnet." + qual, st),
                              f"{qual} replaces the '{t.attr}' perspective of an option: its negotiating flag and pending Deferred are lost")
    ctx.floor("option-state/who-may-remove", n_sites, 2, "mutations of self.options")


T = TELNET
MUTANTS = [
    Mutant("forget-disabled-option", T, "        d.callback(True)\n        self.disableLocal(option)\n\n    dontMap = {", "        d.callback(True)\n        self.disableLocal(option)\n        if state.him.state == \"no\":\n            del self.options[option]\n\n    dontMap = {",
           expect_rule="option-state/who-may-remove"),
    Mutant("option-table-reset-on-refusal", T, "        d = state.him.onResult\n        state.him.onResult = None\n        d.errback(OptionRefused(option))\n", "        d = state.him.onResult\n        state.him.onResult = None\n        self.options.pop(option)\n        d.errback(OptionRefused(option))\n",
           expect_rule="option-state/who-may-remove"),
    Mutant("pending-command-byte-in-a-local", T, "                    self.state = \"command\"\n                    self.command = b\n", "                    self.state = \"command\"\n                    pending = b\n",
           more=[(T, "                command = self.command\n                del self.command\n", "                command = pending\n")], expect_rule="C38:reader/"),
    Mutant("delete-map-entry", T, '        ("yes", True): wont_yes_true,\n', ""),
    Mutant("answer-in-noop-row", T, "        # He is unilaterally offering to enable an already-enabled option.\n        # Ignore this.\n        pass\n",
           "        self._do(option)\n"),
    Mutant("fire-without-clearing", T, "        # Peer agreed to allow us to enable an option at our request.\n        state.us.state = \"yes\"\n        state.us.negotiating = False\n",
           "        # Peer agreed to allow us to enable an option at our request.\n        state.us.state = \"yes\"\n"),
    Mutant("fire-before-detach", T, "        d = state.him.onResult\n        state.him.onResult = None\n        d.errback(OptionRefused(option))\n",
           "        d = state.him.onResult\n        d.errback(OptionRefused(option))\n        state.him.onResult = None\n"),
    Mutant("dispatcher-wrong-perspective", T, "        self.doMap[s.us.state, s.us.negotiating](self, s, option)", "        self.doMap[s.him.state, s.us.negotiating](self, s, option)"),
    Mutant("request-while-peer-negotiating", T, "    def dont(self, option):\n        s = self.getOptionState(option)\n        if s.us.negotiating or s.him.negotiating:",
           "    def dont(self, option):\n        s = self.getOptionState(option)\n        if s.him.negotiating:"),
    Mutant("send-before-arming", T, "            s.us.negotiating = True\n            s.us.onResult = d = defer.Deferred()\n            self._wont(option)\n",
           "            s.us.onResult = d = defer.Deferred()\n            self._wont(option)\n            s.us.negotiating = True\n"),
    Mutant("refusal-records-state", T, "            state.us.state = \"yes\"\n            self._will(option)\n        else:\n            self._wont(option)\n",
           "            self._will(option)\n        else:\n            self._wont(option)\n        state.us.state = \"yes\"\n"),
    Mutant("ack-does-not-record-state", T, "        # Peer agreed to disable an option at our request.\n        state.him.state = \"no\"\n", "        # Peer agreed to disable an option at our request.\n"),
    Mutant("drain-one-perspective", T, "            if state.him.onResult is not None:\n                d = state.him.onResult\n                state.him.onResult = None\n                d.errback(reason)\n", ""),
    Mutant("unsolicited-disable-unanswered", T, "        state.us.state = \"no\"\n        self.disableLocal(option)\n        self._wont(option)\n",
           "        state.us.state = \"no\"\n        self.disableLocal(option)\n"),
    Mutant("transport-skips-drain", T, "        Telnet.connectionLost(self, reason)\n        if self.protocol is not None:", "        if self.protocol is not None:"),
    Mutant("will-sender-picked-by-wrong-name", T, "            s.us.onResult = d = defer.Deferred()\n            self._will(option)\n", "            s.us.onResult = d = defer.Deferred()\n            getattr(self, \"_do\")(option)\n",
           expect_rule="request/sends-own-command"),
    Mutant("table-key-method-swaps-the-pair", T, '        self.willMap[s.him.state, s.him.negotiating](self, s, option)', '        self.willMap[s.him.key()](self, s, option)', expect_rule="dispatch/",
           more=[(T, '            onResult = None\n\n            def __str__(self) -> str:', '            onResult = None\n\n            def key(self):\n                return self.negotiating, self.state\n\n            def __str__(self) -> str:')]),
    # a sender that suppresses what it takes for a repetition: the second refusal of a re-offered option is never written
    Mutant("refusal-not-repeated-for-the-same-option", T, '    def _dont(self, option):\n        self._write(IAC + DONT + option)\n',
           '    def _dont(self, option):\n        if getattr(self, "_lastRefused", None) == option:\n            return\n        self._lastRefused = option\n        self._write(IAC + DONT + option)\n', expect_rule="send/unconditional"),
    Mutant("refusal-not-repeated-for-the-same-option-history", T, '    def _dont(self, option):\n        self._write(IAC + DONT + option)\n',
           '    def _dont(self, option):\n        if getattr(self, "_lastRefused", None) == option:\n            return\n        self._lastRefused = option\n        self._write(IAC + DONT + option)\n', expect_rule="history/every-offer-answered"),
]
SILENT = [
    Silent("requester-named-perspective-and-split-assignment", T, "    def dont(self, option):\n        s = self.getOptionState(option)\n        if s.us.negotiating or s.him.negotiating:\n            return defer.fail(AlreadyNegotiating(option))\n        elif s.him.state == \"no\":\n            return defer.fail(AlreadyDisabled(option))\n        else:\n            s.him.negotiating = True\n            s.him.onResult = d = defer.Deferred()\n            self._dont(option)\n            return d\n",
           "    def dont(self, option):\n        entry = self.getOptionState(option)\n        peer = entry.him\n        if entry.us.negotiating or peer.negotiating:\n            return defer.fail(AlreadyNegotiating(option))\n        if peer.state == \"no\":\n            return defer.fail(AlreadyDisabled(option))\n        peer.negotiating = True\n        waiting = defer.Deferred()\n        peer.onResult = waiting\n        self._dont(option)\n        return waiting\n"),
    Silent("detach-triple-in-private-helper", T, "        state.us.state = \"yes\"\n        state.us.negotiating = False\n        d = state.us.onResult\n        state.us.onResult = None\n        d.callback(True)\n        self.enableLocal(option)\n",
           "        state.us.state = \"yes\"\n        self._finished(state.us).callback(True)\n        self.enableLocal(option)\n",
           more=[(T, "    def telnet_WILL(self, option):\n", "    def _finished(self, side):\n        side.negotiating = False\n        waiting = side.onResult\n        side.onResult = None\n        return waiting\n\n    def telnet_WILL(self, option):\n")]),
    Silent("dispatcher-named-handler", T, "        s = self.getOptionState(option)\n        self.dontMap[s.us.state, s.us.negotiating](self, s, option)", "        entry = self.getOptionState(option)\n        mine = entry.us\n        row = self.dontMap[mine.state, mine.negotiating]\n        row(self, entry, option)"),
    Silent("senders-through-one-helper", T, "    def _do(self, option):\n        self._write(IAC + DO + option)\n", "    def _do(self, option):\n        self._three(DO, option)\n\n    def _three(self, verb, option):\n        wire = IAC + verb + option\n        self._write(wire)\n"),
    Silent("drain-through-private-helper", T, "            if state.him.onResult is not None:\n                d = state.him.onResult\n                state.him.onResult = None\n                d.errback(reason)\n",
           "            self._abandon(state.him, reason)\n", more=[(T, "    def applicationDataReceived(self, data):\n        \"\"\"\n        Called with application-level data.", "    def _abandon(self, side, reason):\n        waiting = side.onResult\n        if waiting is None:\n            return\n        side.onResult = None\n        waiting.errback(reason)\n\n    def applicationDataReceived(self, data):\n        \"\"\"\n        Called with application-level data.")]),
    Silent("forget-option-when-fully-idle", T, "        d.callback(True)\n        self.disableLocal(option)\n\n    dontMap = {",
           "        d.callback(True)\n        self.disableLocal(option)\n        if not state.us.negotiating and not state.him.negotiating and state.him.state == \"no\":\n            self.options.pop(option, None)\n\n    dontMap = {"),
    Silent("options-cleared-after-drain", T, "                d = state.him.onResult\n                state.him.onResult = None\n                d.errback(reason)\n\n    def applicationDataReceived",
           "                d = state.him.onResult\n                state.him.onResult = None\n                d.errback(reason)\n        self.options.clear()\n\n    def applicationDataReceived"),
    Silent("rename-handler-param", T, "    def wont_no_true(self, state, option):\n        # Peer refused to enable an option in response to our request.\n        state.him.negotiating = False\n        d = state.him.onResult\n        state.him.onResult = None\n        d.errback(OptionRefused(option))\n",
           "    def wont_no_true(self, st, option):\n        pending = st.him.onResult\n        st.him.onResult = None\n        st.him.negotiating = False\n        pending.errback(OptionRefused(option))\n"),
    Silent("requester-early-returns", T, "        s = self.getOptionState(option)\n        if s.us.negotiating or s.him.negotiating:\n            return defer.fail(AlreadyNegotiating(option))\n        elif s.us.state == \"yes\":\n            return defer.fail(AlreadyEnabled(option))\n        else:\n            s.us.negotiating = True\n            s.us.onResult = d = defer.Deferred()\n            self._will(option)\n            return d\n",
           "        s = self.getOptionState(option)\n        if s.him.negotiating:\n            return defer.fail(AlreadyNegotiating(option))\n        if s.us.negotiating:\n            return defer.fail(AlreadyNegotiating(option))\n        if s.us.state != \"no\":\n            return defer.fail(AlreadyEnabled(option))\n        d = defer.Deferred()\n        s.us.onResult = d\n        s.us.negotiating = True\n        self._will(option)\n        return d\n"),
    Silent("reply-row-inverted-branches", T, "        if self.enableRemote(option):\n            state.him.state = \"yes\"\n            self._do(option)\n        else:\n            self._dont(option)\n",
           "        if not self.enableRemote(option):\n            self._dont(option)\n            return\n        state.him.state = \"yes\"\n        self._do(option)\n"),
    Silent("will-sender-picked-by-name", T, "            s.us.onResult = d = defer.Deferred()\n            self._will(option)\n", "            s.us.onResult = d = defer.Deferred()\n            getattr(self, \"_will\")(option)\n"),
    Silent("table-key-from-a-method-of-the-perspective", T, '        self.willMap[s.him.state, s.him.negotiating](self, s, option)', '        self.willMap[s.him.key()](self, s, option)',
           more=[(T, '            onResult = None\n\n            def __str__(self) -> str:', '            onResult = None\n\n            def key(self):\n                return self.state, self.negotiating\n\n            def __str__(self) -> str:')]),
    Silent("sender-names-the-command-first", T, '    def _do(self, option):\n        self._write(IAC + DO + option)\n',
           '    def _do(self, option):\n        command = IAC + DO + option\n        self._write(command)\n'),
]
