"""C58 - ClientService keeps one connection and resolves every waiter."""
from __future__ import annotations

import ast
from collections import deque

from sa.astx import call_attr, call_name, src, walk_local
from sa.effects import accesses
from sa.selftest import Mutant, Silent
from sa.props._lib_k import no_crash
from sa.source import AnalysisError, methods
from sa.props._lib_k import Func, Interp, Mock, Nonterminating

PROPERTY = "C58"
CS = "application/_client_service.py"
INET = "application/internet.py"
TECHNIQUE = "complete state x input table + exhaustive typestate exploration; effects, def-use, CFG"
EXPLANATION = (
    "Finite-exhaustive: the automat declaration is obtained by interpreting makeMachine against a recording model of the builder (loops "
    "over constant tables, decorators, plain registrar calls all read alike); that yields the COMPLETE finite table (7 states x 7 "
    "inputs). Resource roles come from where each state factory hands out c.<input> (addCallback/addErrback = attempt, constructor "
    "argument = spawned connection, callLater = timer); the effect of every factory / body on the two waiter lists (set / clear / "
    "keep), and whether it cancels its state's resource, is tabulated by interpreting it once with empty and once with pending waiter "
    "lists (local helpers and bound methods passed as values are followed; the static source-order extraction is kept as a cross-check). Every configuration of the abstract domain (state x {0,1,2+} attempts / "
    "connections / timers x pending connect / stop waiters x last public request) is explored under automat's semantics, so the "
    "verdicts are for-all over that domain: every input a resource can still produce and every public input has a transition; no "
    "attempt starts while one is open, no second timer; after a stop no attempt / retry starts, an idle stopped service rests in a state "
    "answering stop immediately with no connect waiter pending, an idle started service does not exist; connect waiters are resolved on "
    "entering a state that answers whenConnected immediately; stop waiters pend only in states whose events resolve them and are never "
    "stranded. The failure-limit partition is evaluated on every class of its domain {None, <= 1, > 1} (the limit is only compared with "
    "constants / decremented - checked structurally). Structural: stop cancels the attempt / timer and closes the connection; the "
    "attempt's outcomes are all delivered, the errback closes the chain, the endpoint is connected through the disconnect proxy, "
    "connectionLost notifies on every path (exception edges included); every waiter list read by unawait / finishStopping / the "
    "failed-attempt body is replaced on every path before the loop that fires the Deferreds (must-precede); callLater receives the "
    "policy's delay and the reconnect input and its result is the state's data (def-use); ClientService forwards to the machine. "
    "Bounded: the retry policy is asked for exactly the number of consecutive failures (ghost counter explored up to 3 failures, "
    "failedAttempts effects tabulated by interpreting each function for 0..5); concrete runs of unawait / finishStopping / queueing on "
    "small waiter lists. Not decided: clock arithmetic of backoffPolicy, cancellers that fire a success."
)
RULE_KINDS = {
    # finite-exhaustive: the transition table obtained by interpreting makeMachine's builder calls is the complete finite automaton
    # (7 states x 7 inputs); the exploration visits EVERY configuration of the abstract domain state x {0,1,2+} attempts / connections /
    # timers x waiter flags x last public request - counts saturate at 2 because the property only distinguishes "none / one / more than one"
    "matrix/": "finite-exhaustive", "one-connection/": "finite-exhaustive", "stopped/": "finite-exhaustive", "running/": "finite-exhaustive",
    "waiters/resolved-on-entry": "finite-exhaustive", "stop-waiters/": "finite-exhaustive",
    "waiters/failure-limit": "finite-exhaustive",          # limit classes {None, <=1, >1}: see waiters/failure-limit-domain
    # structural: effects / def-use / CFG on the (normalised) source
    "attempt/": "structural", "service/": "structural", "waiters/list-swapped-before-firing": "structural",
    "waiters/failure-limit-domain": "structural", "retry/schedules-policy-delay": "structural",
    # bounded: concrete runs on sample values / the ghost counter explored up to 3 consecutive failures
    "retry/delay-counts-consecutive-failures": "bounded", "retry/factory-run": "bounded", "waiters/each-fired-once": "bounded",
    "waiters/swap-order-run": "bounded", "waiters/queued-with-limit": "bounded",
    "stop/": "bounded",   # observed in one interpreted run of the stop transition's body (cancel / loseConnection call-outs)
}
ASSUMPTIONS = [
    "automat: first declared state is initial; a data-state factory runs before the transition body and only when the target differs "
    "from the source; inputs sent re-entrantly are postponed until the running transition finished (read from automat/_typed.py)",
    "Deferred.cancel() of the attempt synchronously errbacks (the registered errback input is delivered right after the transition)",
    "a connection can be established any time while its attempt is outstanding and lost any time after",
]
QM = "twisted.application._client_service.makeMachine"
QC = "twisted.application._client_service._Core."
CAP = 2


# ---- extraction -------------------------------------------------------------------------------------------
def _chain(expr):
    """S.upon(...).to(T).returns(x) -> (root expr, [(method, call), ...]) innermost first."""
    steps = []
    e = expr
    while isinstance(e, ast.Call) and isinstance(e.func, ast.Attribute):
        steps.append((e.func.attr, e))
        e = e.func.value
    steps.reverse()
    return e, steps


class Machine:
    pass


class _StateModel:
    def __init__(self, rec, name, factory):
        self.rec, self.name, self.factory = rec, name, factory

    def upon(self, inp, nodata=False):
        return _UponModel(self.rec, self, inp, nodata)


class _UponModel:
    def __init__(self, rec, old, inp, nodata):
        self.rec, self.old, self.inp, self.nodata = rec, old, inp, nodata

    def to(self, state):
        if not isinstance(state, _StateModel):
            raise AnalysisError("C58: .to() target is not a declared state")
        return _RegistrarModel(self.rec, self.old, self.inp, state, self.nodata)

    def loop(self):
        return _RegistrarModel(self.rec, self.old, self.inp, self.old, self.nodata)


class _RegistrarModel:
    def __init__(self, rec, old, inp, new, nodata):
        self.rec, self.old, self.inp, self.new, self.nodata, self.done = rec, old, inp, new, nodata, False
        rec.registrars.append(self)

    def _finish(self, impl):
        if self.done:
            raise AnalysisError("C58: transition registered twice")
        self.done = True
        name = getattr(getattr(self.inp, "node", None), "name", None)
        if name is None:
            raise AnalysisError("C58: upon() argument is not a method of the input protocol")
        self.rec.transitions.append((self.old, name, self.new, bool(self.nodata), impl))

    def __call__(self, impl):
        self._finish(impl)
        return impl

    def returns(self, value):
        self._finish(None)


class _BuilderModel:
    """Records what makeMachine declares on automat's TypeMachineBuilder."""

    def __init__(self, *args):
        self.states, self.transitions, self.registrars = [], [], []

    def state(self, name, factory=None):
        st = _StateModel(self, name, factory)
        self.states.append(st)
        return st

    def build(self):
        return "<machine>"


def extract(ctx):
    """The declaration is obtained by *interpreting* makeMachine against a recording model of the builder, so loops over
    constant tables, helper functions and decorators are all read the same way."""
    mk = ctx.func(CS, "makeMachine")
    proto = ctx.cls(CS, "_Client")
    mod = ctx.mod(CS)
    inputs = list(methods(proto).keys())
    ctx.need(inputs, "_Client input protocol methods")
    made = []

    def builder(*a):
        b = _BuilderModel()
        made.append(b)
        return b
    it = Interp({}, budget=100000)
    it.load(mod)
    it.globals.update({"TypeMachineBuilder": builder, "pep614": lambda x: x})
    try:
        it.globals["makeMachine"]()
    except AnalysisError:
        raise
    except Exception as e:
        raise AnalysisError(f"C58: makeMachine cannot be interpreted: {type(e).__name__}: {e}")
    ctx.need(len(made) == 1, "exactly one TypeMachineBuilder(...) in makeMachine")
    rec = made[0]
    for r in rec.registrars:
        if not r.done:
            raise AnalysisError(f"C58: incomplete transition from {r.old.name}")
    m = Machine()
    m.func = mk
    m.inputs = inputs
    m.public = [i for i in inputs if not i.startswith("_")]
    m.order = []
    m.trans = {}
    m.factory = {}
    m.funcs = {n.name: n for n in mod.tree.body if isinstance(n, ast.FunctionDef)}
    m.funcs.update({n.name: n for n in ast.walk(mk) if isinstance(n, ast.FunctionDef) and n is not mk})
    used = {id(t[0]) for t in rec.transitions} | {id(t[2]) for t in rec.transitions}
    for st in rec.states:
        if st.name in m.factory and id(st) not in used:
            continue   # a state object declared again and never used (rebound variable)
        if st.name in m.factory and any(id(x) in used for x in rec.states if x.name == st.name and x is not st):
            raise AnalysisError(f"C58: two live state objects named {st.name}")
        fac = None
        if st.factory is not None:
            node = getattr(st.factory, "node", None)
            if not isinstance(node, ast.FunctionDef):
                raise AnalysisError(f"C58: factory of state {st.name} is not a function")
            fac = node.name
            m.funcs.setdefault(fac, node)
        m.factory[st.name] = fac
        if st.name not in m.order:
            m.order.append(st.name)
    for old, inp, new, nodata, impl in rec.transitions:
        if inp not in inputs:
            raise AnalysisError(f"C58: unknown input {inp}")
        key = (old.name, inp)
        if key in m.trans:
            raise AnalysisError(f"C58: transition {key} declared twice")
        body = None
        if impl is not None:
            body = getattr(impl, "node", None)
            if not isinstance(body, ast.FunctionDef):
                raise AnalysisError(f"C58: transition body of {key} is not a function")
            m.funcs.setdefault(body.name, body)
        m.trans[key] = {"src": old.name, "inp": inp, "dst": new.name, "nodata": nodata, "body": body, "node": None}
    ctx.need(m.order, "declared states")
    m.initial = m.order[0]
    return m


def core_semantics(ctx):
    """What each _Core method does to the waiter lists: {'method': [effects]} with effects in
    {'SW+','SW-','W+','W-'}; derived from the list operations, transitively through self.<method>() calls."""
    cls = ctx.cls(CS, "_Core")
    ms = methods(cls)
    attr_of = {"stopWaiters": "SW", "awaitingConnected": "W"}
    direct = {}
    for name, f in ms.items():
        eff = []
        for a in accesses(f, name, set(attr_of), receivers={"self"}):
            tag = attr_of[a.attr]
            if a.kind in ("append", "extend", "insert", "insert0"):
                eff.append(tag + "+")
            elif a.kind in ("rebind-empty", "clear"):
                eff.append(tag + "-")
            elif a.kind == "assign":
                # tuple swap `self.x, waiting = [], self.x`
                v = a.node.value
                tg = a.node.targets[0]
                if isinstance(tg, ast.Tuple) and isinstance(v, ast.Tuple) and len(tg.elts) == len(v.elts):
                    for t, x in zip(tg.elts, v.elts):
                        if src(t) == "self." + a.attr and isinstance(x, (ast.List, ast.Tuple)) and not x.elts:
                            eff.append(tag + "-")
        direct[name] = eff
    out = {}

    def resolve(name, seen=()):
        if name in out:
            return out[name]
        eff = list(direct.get(name, []))
        for c in walk_local(ms[name]):
            if isinstance(c, ast.Call) and isinstance(c.func, ast.Attribute) and src(c.func.value) == "self" and c.func.attr in ms and c.func.attr not in seen:
                eff += resolve(c.func.attr, seen + (name,))
        out[name] = eff
        return eff
    for n in ms:
        resolve(n)
    return out


def effects_of(func, core_sem, nodata, has_data):
    """Ordered abstract effects of a factory / transition body.  Clears count only when unconditional
    (top-level statement of the function)."""
    if func is None:
        return []
    params = [a.arg for a in func.args.posonlyargs + func.args.args]
    core = params[1] if len(params) > 1 else None
    data = params[2] if (len(params) > 2 and has_data and not nodata) else None
    out = []
    top = set(id(s) for s in func.body)

    def stmt_of(n):
        while n is not None and not isinstance(n, ast.stmt):
            n = getattr(n, "_parent", None)
        return n
    for n in walk_local(func):
        if n is func or not isinstance(n, ast.Call) or not isinstance(n.func, ast.Attribute):
            continue
        definite = id(stmt_of(n)) in top
        recv = src(n.func.value)
        if core and recv == core and n.func.attr in core_sem:
            for e in core_sem[n.func.attr]:
                if e.endswith("+") or definite:
                    out.append(e)
        elif core and recv == core + ".awaitingConnected" and n.func.attr == "append":
            out.append("W+")
        elif core and recv == core + ".stopWaiters" and n.func.attr == "append":
            out.append("SW+")
        elif data and recv == data and n.func.attr == "cancel" and definite:
            out.append("cancel")
    return out


def resources_of(func, inputs):
    """How a state factory hands out c.<input>: {'cb': set, 'eb': set, 'spawn': set, 'timer': set}."""
    res = {"cb": set(), "eb": set(), "spawn": set(), "timer": set()}
    if func is None:
        return res
    c = func.args.args[0].arg
    for n in ast.walk(func):
        if isinstance(n, ast.Attribute) and isinstance(n.value, ast.Name) and n.value.id == c and n.attr in inputs:
            par = getattr(n, "_parent", None)
            if not isinstance(par, ast.Call) or n is par.func:
                raise AnalysisError(f"C58: {func.name}: c.{n.attr} is used in a way the resource model does not read: {src(par)[:70]}")
            m = call_attr(par)
            if m in ("addCallback",):
                res["cb"].add(n.attr)
            elif m in ("addErrback",):
                res["eb"].add(n.attr)
            elif m == "addBoth":
                res["cb"].add(n.attr)
                res["eb"].add(n.attr)
            elif m == "addCallbacks":
                (res["cb"] if par.args and par.args[0] is n else res["eb"]).add(n.attr)
            elif m == "callLater":
                res["timer"].add(n.attr)
            else:
                res["spawn"].add(n.attr)
    return res


# ---- concrete runs of factories / transition bodies (failure counter, retry scheduling) -------------------------------
FCAP = 5   # failedAttempts values 0..FCAP are tabulated
GCAP = 3   # consecutive failures explored


class CancelledErrorModel(Exception):
    pass


def _mentions_counter(func, m, core_cls, seen=None):
    seen = seen if seen is not None else set()
    if id(func) in seen:
        return False
    seen.add(id(func))
    cm = methods(core_cls)
    for n in ast.walk(func):
        if isinstance(n, ast.Attribute) and n.attr == "failedAttempts":
            return True
        if isinstance(n, ast.Call):
            if isinstance(n.func, ast.Name) and n.func.id in m.funcs and _mentions_counter(m.funcs[n.func.id], m, core_cls, seen):
                return True
            if isinstance(n.func, ast.Attribute) and n.func.attr in cm and _mentions_counter(cm[n.func.attr], m, core_cls, seen):
                return True
    return False


class _DeferredFactory:
    """Model of `Deferred()`: every call makes a distinguishable mock D1, D2, ... (call-outs on them are logged)."""

    def __init__(self, log):
        self.log, self.n = log, 0

    def __call__(self, *args, **kwargs):
        self.n += 1
        return Mock(f"D{self.n}", self.log)

    def __getitem__(self, item):    # Deferred[T] in annotations evaluated at run time
        return self


def _guarded(what, fn):
    """Run a piece of the harness; anything it raises that is not ours is an unreadable shape, never a checker crash."""
    try:
        return fn()
    except (AnalysisError, Nonterminating):
        raise
    except Exception as e:
        raise AnalysisError(f"C58: the harness could not {what}: {type(e).__name__}: {e}")


def call_body(closure, fn_node, core, log, data=None, inputs=()):
    """Call a transition body / factory the way automat does: (client, core[, state data], *input arguments)."""
    pos = fn_node.args.posonlyargs + fn_node.args.args
    need = len(pos) - len(fn_node.args.defaults)
    args = [Mock("c", log), core]
    if data is not None:
        args.append(data)
    args += list(inputs)
    while len(args) < need:
        args.append(Mock(pos[len(args)].arg, log))
    return closure[fn_node.name](*args)


def waiter_makers(mod, m, data_states):
    """How the code under analysis itself creates a connect waiter / a stop waiter (never a frozen representation of ours):
    -> (transition that queues a whenConnected Deferred, name of the zero-argument _Core method that queues a stop Deferred)."""
    queue = None
    for k, t in m.trans.items():
        if t["inp"] == "whenConnected" and t["body"] is not None:
            it, core, closure, log = model_core(mod, m.funcs)
            has_data = t["src"] in data_states and not t["nodata"]
            try:
                call_body(closure, t["body"], core, log, Mock("data", log) if has_data else None, [7])
            except Exception:
                continue
            if core.attrs.get("awaitingConnected"):
                queue = (t, has_data)
                break
    stop = None
    it, core, closure, log = model_core(mod, m.funcs)
    for name, fn in it.globals["_Core"].methods.items():
        if len(fn.args.args) == 1 and not name.startswith("__"):
            it2, core2, _, _ = model_core(mod, m.funcs)
            try:
                it2.getattr_(core2, name)()
            except Exception:
                continue
            if core2.attrs.get("stopWaiters"):
                stop = name
                break
    return queue, stop


def add_connect_waiter(maker, closure, core, log, limit):
    t, has_data = maker
    return call_body(closure, t["body"], core, log, Mock("data", log) if has_data else None, [limit])


def model_core(mod, funcs, policy=None):
    """(interpreter, model _Core instance, makeMachine's local functions as interpreted closures, shared event log)."""
    it = Interp({}, budget=20000)
    log = it.log
    it.globals.update({"Deferred": _DeferredFactory(log), "succeed": Mock("succeed", log), "fail": Mock("fail", log), "maybeDeferred": Mock("maybeDeferred", log),
                       "CancelledError": CancelledErrorModel, "Failure": Mock("Failure", log), "_DisconnectFactory": Mock("_DisconnectFactory", log),
                       "Logger": Mock("Logger", log), "_goodEnoughRandom": lambda: 0.0})
    mocks = dict(it.globals)
    it.load(mod)
    it.globals.update({k: v for k, v in mocks.items() if isinstance(v, (Mock, _DeferredFactory)) or k in ("CancelledError", "_goodEnoughRandom")})
    if "_Core" not in it.globals:
        raise AnalysisError("C58: class _Core not found")
    core = it.globals["_Core"](Mock("endpoint", log), Mock("factory", log), policy or (lambda n: ("DELAY", n)), Mock("clock", log), None)
    closure = {}
    for nm, node in (funcs or {}).items():
        closure[nm] = Func(it, node, [closure], nm)
    return it, core, closure, log


class Concrete:
    """Every state factory and transition body interpreted on a model _Core, for each value of failedAttempts."""

    def __init__(self, ctx, m):
        self.ctx, self.m = ctx, m
        self.mod = ctx.mod(CS)
        self.core_cls = ctx.cls(CS, "_Core")
        self.table = {}     # func name -> {fa: fa'}
        self.policy = {}    # func name -> {fa: [policy arguments]}
        self.later = {}     # func name -> {fa: [(delay, callable)]}
        self.returned = {}  # func name -> {fa: return value}
        self.makers = None
        names = {f for f in m.factory.values() if f} | {t["body"].name for t in m.trans.values() if t["body"] is not None}
        for name in sorted(names):
            self._tabulate(name)

    def effects(self, name, has_data):
        """Abstract effects of one factory / body, tabulated by interpreting it with empty and with pending waiter lists:
        ['W+'|'W-'] ['SW+'|'SW-'] ['cancel'] ['lose'] (same vocabulary as the static extraction)."""
        out = []
        res = {}
        for pending in (0, 1):
            try:
                res[pending] = self._run(name, 0, pending=pending, want_state=True)
            except (AnalysisError, Nonterminating, Exception) as e:  # noqa: B902
                raise AnalysisError(f"C58: {name} cannot be interpreted to tabulate its effects: {type(e).__name__}: {e}")
        for tag, idx in (("W", 0), ("SW", 1)):
            a, b = res[0][4][idx], res[1][4][idx]     # list non-empty afterwards, starting empty / starting with one pending entry
            if a and b:
                out.append(tag + "+")
            elif not a and not b:
                out.append(tag + "-")
            elif a and not b:
                raise AnalysisError(f"C58: {name} toggles the {tag} waiter list; not a set / clear / keep effect")
        log = res[1][5]
        f = self.m.funcs[name]
        pos = f.args.posonlyargs + f.args.args
        if has_data and len(pos) > 2 and any(x[0] == f"{pos[2].arg}.cancel" for x in log):
            out.append("cancel")
        if any(x[0].split(".")[-1] in ("loseConnection", "abortConnection") for x in log if x[0] != "setattr"):
            out.append("lose")
        return out

    def _run(self, name, fa, pending=0, want_state=False):
        calls = []

        def policy(*a, **k):
            calls.append(a + tuple(k.values()))
            return ("DELAY",) + a
        it, core, closure, log = model_core(self.mod, self.m.funcs, policy)
        core.attrs["failedAttempts"] = fa
        if pending:
            if self.makers is None:
                data_states = {n for n, fac in self.m.factory.items() if fac}
                self.makers = waiter_makers(self.mod, self.m, data_states)
            queue, stop = self.makers
            if queue is None or stop is None:
                raise AnalysisError("C58: could not find how the code queues a whenConnected / a stop Deferred")
            add_connect_waiter(queue, closure, core, log, None)
            it.getattr_(core, stop)()
            del log[:]
        f = closure[name]
        a = f.node.args
        pos = a.posonlyargs + a.args
        need = len(pos) - len(a.defaults)
        args = [Mock("c", log), core] + [Mock(p.arg, log) for p in pos[2:need]]
        ret = f(*args)
        later = [x[1] for x in log if x[0] == "clock.callLater"]
        if want_state:
            state = (bool(core.attrs.get("awaitingConnected")), bool(core.attrs.get("stopWaiters")))
            return core.attrs.get("failedAttempts"), calls, later, ret, state, [x for x in log if x[0] != "setattr"]
        return core.attrs.get("failedAttempts"), calls, later, ret

    def _tabulate(self, name):
        node = self.m.funcs[name]
        self.table[name], self.policy[name], self.later[name], self.returned[name] = {}, {}, {}, {}
        for fa in range(0, FCAP + 1):
            try:
                fa2, calls, later, ret = self._run(name, fa)
            except (AnalysisError, Nonterminating, Exception) as e:  # noqa: B902
                if _mentions_counter(node, self.m, self.core_cls):
                    raise AnalysisError(f"C58: {name} touches failedAttempts and cannot be interpreted: {type(e).__name__}: {e}")
                fa2, calls, later, ret = fa, [], [], None
            if not isinstance(fa2, int):
                raise AnalysisError(f"C58: failedAttempts becomes {fa2!r} in {name}")
            self.table[name][fa] = max(0, min(FCAP, fa2))
            self.policy[name][fa] = calls
            self.later[name][fa] = later
            self.returned[name][fa] = ret


# ---- the may-analysis ---------------------------------------------------------------------------------------
class Explorer:
    def __init__(self, ctx, m, core_sem, conc):
        self.ctx, self.m, self.conc = ctx, m, conc
        self.data_states = {n for n, f in m.factory.items() if f}
        self.res = {n: resources_of(m.funcs.get(f), m.inputs) for n, f in m.factory.items() if f}
        att = [n for n, r in self.res.items() if r["cb"] or r["eb"]]
        ret = [n for n, r in self.res.items() if r["timer"]]
        if len(att) > 1 or len(ret) > 1:
            raise AnalysisError("C58: more than one attempt / timer creating state; resource model does not cover this")
        self.att_state = att[0] if att else None
        self.ret_state = ret[0] if ret else None
        ra = self.res.get(self.att_state, {"cb": set(), "eb": set(), "spawn": set(), "timer": set()})
        self.cb, self.eb, self.spawn = sorted(ra["cb"]), sorted(ra["eb"]), sorted(ra["spawn"])
        self.timer = sorted(self.res[self.ret_state]["timer"]) if self.ret_state else []
        static_factory = {n: effects_of(m.funcs.get(f), core_sem, True, False) for n, f in m.factory.items()}
        static_body = {k: effects_of(t["body"], core_sem, t["nodata"], t["src"] in self.data_states) for k, t in m.trans.items()}
        self.fx_factory = {n: ([e for e in conc.effects(f, False) if e != "lose"] if f else []) for n, f in m.factory.items()}
        self.fx_body, self.loses = {}, {}
        for k, t in m.trans.items():
            if t["body"] is None:
                self.fx_body[k] = []
                continue
            fx = conc.effects(t["body"].name, t["src"] in self.data_states and not t["nodata"])
            self.loses[k] = "lose" in fx
            self.fx_body[k] = [e for e in fx if e != "lose"]
        # the static (source-order) extraction is kept as a cross-check: where it differs it did not fully understand the body
        def net(fx):
            out = {}
            for e in fx:
                out[e.rstrip("+-")] = e
            return sorted(out.values())
        for k, fx in self.fx_body.items():
            if net(static_body[k]) != net(fx):
                ctx.note(f"effects of {m.trans[k]['body'].name} ({k[0]} x {k[1]}): static extraction {static_body[k]} differs from the interpreted table {fx} "
                         "(helper / bound method passed as a value); the interpreted table is used")
        for n, fx in self.fx_factory.items():
            if net(static_factory[n]) != net(fx):
                ctx.note(f"effects of the factory of {n}: static extraction {static_factory[n]} differs from the interpreted table {fx}; the interpreted table is used")
        self.immediate_when = set()   # states answering whenConnected without queueing a waiter
        self.immediate_stop = set()   # states answering stop without creating a stop waiter
        for (s, i), t in m.trans.items():
            if i == "whenConnected" and "W+" not in self.fx_body[(s, i)]:
                self.immediate_when.add(s)
            if i == "stop" and "SW+" not in self.fx_body[(s, i)]:
                self.immediate_stop.add(s)
        # states in which a pending stop waiter is legitimate: every event a resource can still deliver there resolves it
        # (least fixpoint: directly, or by leading to such a state)
        self.stopping = set()
        changed = True
        while changed:
            changed = False
            for st_ in m.order:
                if st_ in self.stopping:
                    continue
                outs = [(k, t) for k, t in m.trans.items() if t["src"] == st_ and t["inp"] not in m.public]
                if outs and all(("SW-" in self.fx_body[k] or "SW-" in (self.fx_factory.get(t["dst"]) or []) and t["dst"] != st_) or t["dst"] in self.stopping for k, t in outs):
                    self.stopping.add(st_)
                    changed = True
        self.holes = {}        # (state, input) -> history
        self.delivered = {}    # (state, input) -> history (has a transition)
        self.problems = {}     # (rule, construct) -> (fails, history)
        self.parent = {}
        self.tainted = False

    def history(self, cfg):
        out = []
        while cfg in self.parent and self.parent[cfg] is not None:
            cfg, label = self.parent[cfg]
            out.append(label)
        return list(reversed(out))

    def problem(self, rule, construct, fails, hist):
        self.problems.setdefault((rule, construct), (fails, hist))
        self.tainted = True   # the exploration reports the first violation of a history and does not continue past it

    def deliver(self, cfg, inp, hist):
        """Returns the configuration after input ``inp`` (with postponed cancel deliveries)."""
        s, a0, a1, c, r, w, sw, run, g, fa = cfg
        t = self.m.trans.get((s, inp))
        if t is None:
            self.holes.setdefault((s, inp), hist + [inp])
            if inp not in self.m.public:
                self.tainted = True
            return cfg
        self.delivered.setdefault((s, inp), hist + [inp])
        d = t["dst"]
        edge = f"{s} x {inp} -> {d}"
        fx = []
        if inp in self.cb:
            g = 0   # a connection was established: the count of consecutive failures starts again
        if d != s and self.m.factory.get(d):
            fname = self.m.factory[d]
            if d in (self.att_state, self.ret_state) and run == 0:
                self.problem("stopped/no-new-work", f"{QM} | {edge}",
                             f"the last request was stopService, yet this transition {'starts a connection attempt' if d == self.att_state else 'schedules a retry'}: "
                             "a stopped service reconnects", hist + [inp])
            if d == self.att_state:
                if a0 + c >= 1:
                    self.problem("one-connection/new-attempt-while-open", f"{QM} | {edge}",
                                 f"a new connection attempt starts while {'an attempt' if a0 else 'a connection'} is still open (two connections / attempts at once)", hist + [inp])
                a0 = min(CAP, a0 + 1)
            if d == self.ret_state:
                if r >= 1:
                    self.problem("one-connection/second-retry-timer", f"{QM} | {edge}", "a second retry timer is scheduled while one is pending", hist + [inp])
                r = min(CAP, r + 1)
                if g >= GCAP:
                    self.tainted = True   # bound of the exploration, not a verdict
                    return cfg
                g += 1
                args = self.conc.policy[fname][fa]
                if not (len(args) == 1 and args[0] == (g,)):
                    said = args[0][0] if args and len(args[0]) == 1 else args
                    self.problem("retry/delay-counts-consecutive-failures", f"{QM} | {edge}",
                                 f"this is consecutive failure number {g} since the last successful connection but the retry policy is asked for the delay of "
                                 f"attempt {said!r}: the retry does not wait the policy's delay for the current number of failures", hist + [inp])
            fa = self.conc.table[fname][fa]
            fx += self.fx_factory[d]
        if t["body"] is not None:
            fa = self.conc.table[t["body"].name][fa]
        fx += self.fx_body[(s, inp)]
        post = []
        for e in fx:
            if e == "W+":
                w = 1
            elif e == "W-":
                w = 0
            elif e == "SW+":
                sw = 1
            elif e == "SW-":
                sw = 0
            elif e == "cancel":
                if s == self.att_state:
                    if a1:
                        a1 -= 1
                        post += self.eb
                    elif a0:
                        a0 -= 1
                        post += self.eb
                elif s == self.ret_state and r:
                    r -= 1
        new = (d, a0, a1, c, r, w, sw, run, g, fa)
        if d in self.immediate_when and d != s and w:
            self.problem("waiters/resolved-on-entry", f"{QM} | {edge}",
                         f"whenConnected Deferreds are still pending after entering {d}, which answers whenConnected immediately: nothing will ever fire them", hist + [inp])
        if d not in self.stopping and sw:
            self.problem("stop-waiters/resolved-on-entry", f"{QM} | {edge}",
                         f"a stopService Deferred is still pending after this transition into {d}, a state whose events do not resolve stop waiters: "
                         "it does not fire although the connection is closed / the attempt over", hist + [inp])
        for p in post:
            new = self.deliver(new, p, hist + [inp, f"(cancel => {p})"])
        return new

    def run(self):
        init = (self.m.initial, 0, 0, 0, 0, 0, 0, None, 0, 0)
        self.parent[init] = None
        dq = deque([init])
        seen = {init}
        while dq:
            cfg = dq.popleft()
            s, a0, a1, c, r, w, sw, run, g, fa = cfg
            hist = self.history(cfg)
            idle = not (a0 or a1 or c or r)
            if sw and idle:
                self.problem("stop-waiters/never-stranded", f"{QM} | {s}",
                             f"in {s} a stopService Deferred is pending while no attempt, connection or timer is outstanding: it can never fire", hist)
            if idle and run == 0:
                if s not in self.immediate_stop:
                    self.problem("stopped/converges-to-stopped", f"{QM} | {s}",
                                 f"the service was stopped and nothing is outstanding any more, yet the machine rests in {s}, a state that does not answer stop immediately", hist)
                elif w:
                    self.problem("stopped/connect-waiters-resolved", f"{QM} | {s}",
                                 "the service is stopped and idle but whenConnected Deferreds obtained before the stop are still pending", hist)
            if idle and run == 1:
                self.problem("running/never-idle", f"{QM} | {s}",
                             f"the service was started and rests in {s} with no attempt, connection or retry outstanding: it will never connect", hist)
            steps = []
            for i in self.m.public:
                run2 = 1 if i == "start" else (0 if i == "stop" else run)
                steps.append((i, (s, a0, a1, c, r, w, sw, run2, g, fa), i))
            rest = (w, sw, run, g, fa)
            if a0:
                if self.spawn:
                    steps.append(("<connection established>", (s, a0 - 1, min(CAP, a1 + 1), min(CAP, c + 1), r) + rest, None))
                for i in self.eb + ([] if self.spawn else self.cb):
                    steps.append((i, (s, a0 - 1, a1, c, r) + rest, i))
            if a1:
                for i in sorted(set(self.cb + self.eb)):
                    steps.append((i, (s, a0, a1 - 1, c, r) + rest, i))
            if c:
                for i in self.spawn:
                    steps.append((i, (s, a0, a1, c - 1, r) + rest, i))
            if r:
                for i in self.timer:
                    steps.append((i, (s, a0, a1, c, r - 1) + rest, i))
            for label, pre, inp in steps:
                self.tainted = False
                new = self.deliver(pre, inp, hist) if inp is not None else pre
                if self.tainted:
                    continue
                if new not in seen:
                    seen.add(new)
                    self.parent[new] = (cfg, label)
                    dq.append(new)
        self.configs = seen
        return seen


def check_machine(ctx, m):
    ctx.floor("matrix/states", len(m.order), 3, "states")
    ctx.floor("matrix/transitions", len(m.trans), 10, "transitions")
    # O2: public inputs total on every declared state (does not need the exploration)
    for s in m.order:
        for i in m.public:
            ctx.check((s, i) in m.trans, "matrix/public-input-total", f"{QM} | {s} x {i}",
                      f"{i}() in state {s} has no transition: automat raises NoTransition to the caller", detail="declared")
    core_sem = core_semantics(ctx)
    conc = Concrete(ctx, m)
    ex = Explorer(ctx, m, core_sem, conc)
    ctx.need(ex.att_state, "a state whose factory registers the connection attempt callbacks")
    qa = QM + "." + (m.factory[ex.att_state] or "?")
    ok = True
    ok &= ctx.check(bool(ex.cb), "attempt/outcomes-delivered", qa + " | success", "a successful attempt is never reported to the machine (no addCallback(c.<input>))")
    ok &= ctx.check(bool(ex.eb), "attempt/outcomes-delivered", qa + " | failure", "a failed attempt is never reported to the machine (no addErrback(c.<input>)): the service stays in its connecting state forever")
    ok &= ctx.check(bool(ex.spawn), "attempt/outcomes-delivered", qa + " | disconnect", "the loss of an established connection is never reported to the machine")
    ok &= ctx.check(bool(ex.ret_state and ex.timer), "attempt/outcomes-delivered", QM + " | retry timer", "no state schedules the reconnect input with callLater")
    if not ok:
        return None
    configs = ex.run()
    ctx.extra["matrix"] = {s: {i: (m.trans[(s, i)]["dst"] if (s, i) in m.trans else "-") for i in sorted(m.inputs)} for s in m.order}
    ctx.extra["configurations_explored"] = len(configs)
    reach = {c[0] for c in configs}
    for s in m.order:
        if s not in reach:
            ctx.note(f"state {s} is not reachable in the abstract exploration")
    # O1: resource-produced inputs
    for (s, i), h in sorted(ex.delivered.items()):
        if i not in m.public:
            ctx.ok("matrix/no-rejected-event", f"{QM} | {s} x {i}", "deliverable and declared")
    for (s, i), h in sorted(ex.holes.items()):
        if i in m.public:
            continue
        ctx.violation("matrix/no-rejected-event", f"{QM} | {s} x {i}",
                      f"{i} can be delivered while the machine is in {s}, which declares no transition for it (automat raises NoTransition inside the reactor callback)",
                      witness=" ; ".join(h))
    for (rule, construct), (fails, h) in sorted(ex.problems.items()):
        ctx.violation(rule, construct, fails, witness=" ; ".join(h))

    def ok_unless(rule, construct):
        if (rule, construct) not in ex.problems:
            ctx.ok(rule, construct)
    for t in m.trans.values():
        edge = f"{QM} | {t['src']} x {t['inp']} -> {t['dst']}"
        if t["src"] not in reach:
            continue
        if t["dst"] == ex.att_state and t["dst"] != t["src"]:
            ok_unless("one-connection/new-attempt-while-open", edge)
        if t["dst"] == ex.ret_state and t["dst"] != t["src"]:
            ok_unless("one-connection/second-retry-timer", edge)
            ok_unless("retry/delay-counts-consecutive-failures", edge)
        if t["dst"] in (ex.att_state, ex.ret_state) and t["dst"] != t["src"]:
            ok_unless("stopped/no-new-work", edge)
        if t["dst"] in ex.immediate_when and t["dst"] != t["src"]:
            ok_unless("waiters/resolved-on-entry", edge)
        if t["dst"] not in ex.stopping:
            ok_unless("stop-waiters/resolved-on-entry", edge)
    for s in m.order:
        if s in reach:
            for rule in ("stop-waiters/never-stranded", "stopped/converges-to-stopped", "stopped/connect-waiters-resolved", "running/never-idle"):
                ok_unless(rule, f"{QM} | {s}")
    # cancelling transitions really cancel their state's resource
    for k, t in m.trans.items():
        if t["inp"] == "stop" and t["src"] in (ex.att_state, ex.ret_state) and t["dst"] != t["src"]:
            ctx.check("cancel" in ex.fx_body[k], "stop/cancels-outstanding-work", f"{QM} | {t['src']} x stop",
                      f"stop in {t['src']} leaves the state's {'connection attempt' if t['src'] == ex.att_state else 'retry timer'} running (not cancelled unconditionally)")
    return ex


def check(ctx):
    box = {}
    with ctx.section("makeMachine declaration"):
        box["m"] = no_crash('extract', extract, ctx)
    m = box.get("m")
    if m is not None:
        with ctx.section("state machine exploration"):
            box["ex"] = no_crash('check_machine', check_machine, ctx, m)
    ex = box.get("ex")
    if ex is not None:
        with ctx.section("connection attempt wiring"):
            no_crash('check_attempt', check_attempt, ctx, m, ex)
        with ctx.section("waiter lists: swap-before-fire (structural)"):
            no_crash('check_swap_structure', check_swap_structure, ctx, m, ex)
        with ctx.section("failure-limit domain"):
            no_crash('check_limit_domain', check_limit_domain, ctx, m, ex)
        with ctx.section("waiter lists"):
            no_crash('check_core', check_core, ctx, m, ex)
        with ctx.section("retry scheduling (structural)"):
            no_crash('check_retry_structure', check_retry_structure, ctx, m, ex)
        with ctx.section("retry scheduling"):
            no_crash('check_retry', check_retry, ctx, m, ex)
    else:
        with ctx.section("waiter lists: swap-before-fire (structural)"):
            no_crash('check_swap_structure', check_swap_structure, ctx, None, None)
        with ctx.section("waiter lists (_Core only)"):
            no_crash('check_core', check_core, ctx, None, None)
    with ctx.section("ClientService wrappers"):
        no_crash('check_service', check_service, ctx)


def check_attempt(ctx, m, ex):
    fac = m.funcs[m.factory[ex.att_state]]
    q = QM + "." + fac.name
    c, core = fac.args.args[0].arg, fac.args.args[1].arg
    # the errback registration closes the callback chain (failures of the prepare step are reported too)
    chains = []
    for st in ast.walk(fac):
        if isinstance(st, ast.Expr) and isinstance(st.value, ast.Call):
            root, steps = _chain(st.value)
            if any(name in ("addCallback", "addErrback", "addBoth", "addCallbacks") for name, _ in steps):
                chains.append(steps)
    regs = [(name, call) for steps in chains for name, call in steps if name in ("addCallback", "addErrback", "addBoth", "addCallbacks")]
    eb_idx = [i for i, (name, call) in enumerate(regs) if any(isinstance(a, ast.Attribute) and src(a.value) == c and a.attr in ex.eb for a in call.args)]
    ctx.check(bool(eb_idx) and eb_idx[-1] == len(regs) - 1, "attempt/errback-closes-chain", q + " | addErrback(c." + (ex.eb[0] if ex.eb else "?") + ")",
              "callbacks are added after the failure handler: an exception in them (e.g. a failing prepareConnection) is never delivered to the machine")
    # the factory handed to the endpoint is the disconnect-reporting proxy
    conn = [x for x in ast.walk(fac) if isinstance(x, ast.Call) and call_attr(x) == "connect"]
    proxies = {t.id for st in ast.walk(fac) if isinstance(st, ast.Assign) and isinstance(st.value, ast.Call) and
               any(isinstance(a, ast.Attribute) and src(a.value) == c and a.attr in ex.spawn for a in st.value.args) for t in st.targets if isinstance(t, ast.Name)}
    ok = len(conn) == 1 and len(conn[0].args) == 1 and (src(conn[0].args[0]) in proxies or
                                                     any(isinstance(a, ast.Attribute) and src(a.value) == c and a.attr in ex.spawn for a in ast.walk(conn[0].args[0])))
    ctx.check(ok, "attempt/connects-with-disconnect-proxy", q + " | endpoint.connect(...)",
              "the endpoint is not connected with the factory proxy that reports connectionLost to the machine")
    pr = ctx.func(CS, "_ReconnectingProtocolProxy.connectionLost")
    g = ctx.cfg(pr)
    noti = g.find(lambda x: isinstance(x, ast.Call) and call_name(x) == "self._lostNotification")
    w = g.must_pass([g.entry], noti, exc=True)
    ctx.check(bool(noti) and w is None, "attempt/disconnect-always-reported", "twisted.application._client_service._ReconnectingProtocolProxy.connectionLost",
              "connectionLost can finish (normally or with the protocol's exception) without notifying the service: it would wait for a connection that is gone",
              witness=g.describe(w))
    bp = ctx.func(CS, "_DisconnectFactory.buildProtocol")
    wraps = [x for x in ast.walk(bp) if isinstance(x, ast.Call) and call_name(x) == "_ReconnectingProtocolProxy"]
    ctx.check(len(wraps) == 1 and len(wraps[0].args) == 2 and src(wraps[0].args[1]) == "self._protocolDisconnected", "attempt/disconnect-always-reported",
              "twisted.application._client_service._DisconnectFactory.buildProtocol", "built protocols are not wrapped with the disconnect notification")
    # stop in the connected state asks the transport to close (observed in the interpreted run of the body)
    for k, t in m.trans.items():
        if t["inp"] == "stop" and t["src"] in ex.immediate_when and m.factory.get(t["src"]) and t["body"] is not None:
            ctx.check(ex.loses.get(k, False), "stop/closes-connection", QM + "." + t["body"].name,
                      "stop while connected no longer closes the connection: the stop Deferred waits forever")


# ---- structural: swap-before-fire ordering, retry scheduling def-use (normalised view) ----------------------------------------
def _norm_cs(ctx):
    from sa.props._lib_j import Normaliser
    try:
        return Normaliser(ctx.mod(CS), set()).run()
    except RecursionError:
        return ctx.mod(CS)


def _waiter_attrs(ctx):
    """The list-valued fields of _Core (dataclass fields built by default_factory=list)."""
    cls = ctx.cls(CS, "_Core")
    out = set()
    for n in cls.body:
        if isinstance(n, ast.AnnAssign) and isinstance(n.target, ast.Name) and isinstance(n.value, ast.Call):
            kw = {k.arg: k.value for k in n.value.keywords}
            if isinstance(kw.get("default_factory"), ast.Name) and kw["default_factory"].id == "list":
                out.add(n.target.id)
    return out or {"stopWaiters", "awaitingConnected"}


def _fire_loops(func):
    out = []
    for lp in ast.walk(func):
        if isinstance(lp, ast.For):
            tn = {x.id for x in ast.walk(lp.target) if isinstance(x, ast.Name)}
            fires = [c for c in ast.walk(lp) if isinstance(c, ast.Call) and isinstance(c.func, ast.Attribute) and c.func.attr in ("callback", "errback")
                     and isinstance(c.func.value, ast.Name) and c.func.value.id in tn]
            if fires:
                out.append(lp)
    return out


def _core_and_machine_functions(nm):
    """(label, function, name of the variable holding the core) for every _Core method and every function nested in makeMachine."""
    out = []
    core = nm.find("_Core")
    if isinstance(core, ast.ClassDef):
        for n in core.body:
            if isinstance(n, ast.FunctionDef) and n.args.args:
                out.append((f"_Core.{n.name}", n, n.args.args[0].arg))
    mk = nm.find("makeMachine")
    if isinstance(mk, ast.FunctionDef):
        for n in ast.walk(mk):
            if isinstance(n, ast.FunctionDef) and n is not mk and len(n.args.args) > 1:
                out.append((f"makeMachine.{n.name}", n, n.args.args[1].arg))
    return out


def check_swap_structure(ctx, m, ex):
    """In every function (of _Core or of makeMachine, private helpers inlined) that fires Deferreds, each waiter list of the core it
    reads is replaced on every path before the firing loop."""
    nm = _norm_cs(ctx)
    lists = _waiter_attrs(ctx)
    seen = 0
    for label, f, recv in _core_and_machine_functions(nm):
        loops = _fire_loops(f)
        if not loops:
            continue
        q = "twisted.application._client_service." + label
        g = ctx.cfg(f)

        def is_list(n, recv=recv):
            return isinstance(n, ast.Attribute) and n.attr in lists and isinstance(n.value, ast.Name) and n.value.id == recv
        read = {n.attr for n in ast.walk(f) if is_list(n) and isinstance(n.ctx, ast.Load)}
        if not read:
            continue   # fires Deferreds handed to it, owns no list
        seen += 1
        for lp in loops:
            head = g.ids_of(lp)[0]
            if is_list(lp.iter):
                ctx.violation("waiters/list-swapped-before-firing", q + f" | fires over self.{lp.iter.attr}",
                              "the Deferreds are fired while iterating the live waiter list: a callback that re-enters the service sees (and can re-fire) them")
                continue
            for attr in sorted(read):
                stores = g.ids(lambda n, attr=attr: n.kind == "stmt" and isinstance(n.ast, (ast.Assign, ast.AnnAssign)) and
                               any(is_list(x) and x.attr == attr and isinstance(x.ctx, ast.Store)
                                   for t_ in (n.ast.targets if isinstance(n.ast, ast.Assign) else [n.ast.target]) for x in ast.walk(t_)))
                w = g.must_precede(stores, [head]) if stores else g.path([g.entry], [head])
                ctx.check(bool(stores) and w is None, "waiters/list-swapped-before-firing", q + f" | {attr} detached before firing",
                          f"{attr} is not replaced before the first waiter is fired: it still holds the Deferreds being fired while their callbacks run "
                          "(a re-entrant call fires them twice)", witness=g.describe(w))
    if seen == 0:
        ctx.note("waiters/list-swapped-before-firing: no function that reads a waiter list and fires its Deferreds was recognised; clause left to waiters/swap-order-run")


def check_retry_structure(ctx, m, ex):
    from sa.props._lib_j import resolve
    nm = _norm_cs(ctx)
    fname = m.factory[ex.ret_state]
    mk = nm.find("makeMachine")
    f = next((n for n in ast.walk(mk) if isinstance(n, ast.FunctionDef) and n.name == fname), None) if mk is not None else None
    f = f or nm.find(fname)
    q = QM + "." + fname
    if not isinstance(f, ast.FunctionDef):
        ctx.note("retry/schedules-policy-delay: retry factory not found in the normalised module; clause left to retry/factory-run")
        return
    c, core = f.args.args[0].arg, f.args.args[1].arg
    later = [x for x in ast.walk(f) if isinstance(x, ast.Call) and call_attr(x) == "callLater"]
    if len(later) != 1 or len(later[0].args) < 2:
        if len(later) > 1:
            ctx.violation("retry/schedules-policy-delay", q + " | callLater", f"{len(later)} callLater calls: more than one retry timer is scheduled per failure")
        else:
            ctx.note("retry/schedules-policy-delay: callLater call not recognised; clause left to retry/factory-run")
        return
    lc = later[0]
    delay = resolve(lc.args[0], f)

    def from_policy(e, fn, recv, depth=0):
        """True: the value is the retry policy's answer; False: positively something else; None: not understood."""
        if isinstance(e, ast.Call) and call_name(e) == f"{recv}.timeoutForAttempt":
            return True
        if isinstance(e, ast.Call) and isinstance(e.func, ast.Attribute) and src(e.func.value) == recv and depth < 3:
            meth = nm.find(f"_Core.{e.func.attr}")
            if isinstance(meth, ast.FunctionDef):
                rets = [r for r in ast.walk(meth) if isinstance(r, ast.Return) and r.value is not None]
                res = [from_policy(resolve(r.value, meth), meth, meth.args.args[0].arg, depth + 1) for r in rets]
                if res and all(x is True for x in res):
                    return True
                return None
        if isinstance(e, (ast.Constant, ast.BinOp, ast.UnaryOp)) and not any(isinstance(x, ast.Call) for x in ast.walk(e)):
            return False
        return None
    verdict = from_policy(delay, f, core)
    if verdict is None:
        ctx.note(f"retry/schedules-policy-delay: the delay expression {src(delay)[:50]} is not understood (unknown callee); clause left to retry/factory-run")
    else:
        ctx.check(verdict, "retry/schedules-policy-delay", q + " | delay", f"the delay passed to callLater is {src(delay)[:60]}, not the retry policy's answer")
    ctx.check(src(lc.args[1]) == f"{c}.{ex.timer[0]}", "retry/schedules-policy-delay", q + " | callback", "the delayed call is not the reconnect input of the machine")
    rets = [r for r in ast.walk(f) if isinstance(r, ast.Return) and r.value is not None]
    if len(rets) == 1:
        rv = resolve(rets[0].value, f)
        ctx.check(rv is lc or src(rv) == src(resolve(lc, f)), "retry/schedules-policy-delay", q + " | returns the delayed call",
                  "the retry state's data is not the delayed call: stop could not cancel the timer")


def check_limit_domain(ctx, m, ex):
    """The failure limit is inspected only through `is None`, comparisons with constants and `- 1`: {None, <= 1, > 1} are all its classes."""
    nm = _norm_cs(ctx)
    ok, where = None, "?"
    for label, f, recv in _core_and_machine_functions(nm):
        for lp in ast.walk(f):
            if isinstance(lp, ast.For) and isinstance(lp.target, ast.Tuple) and len(lp.target.elts) == 2 and isinstance(lp.target.elts[1], ast.Name) \
                    and src(lp.iter) == f"{recv}.awaitingConnected" and any(isinstance(x, (ast.Compare, ast.BinOp)) for x in ast.walk(lp)):
                tainted = {lp.target.elts[1].id}
                for _ in range(4):   # scalars computed from the limit alone (renamed by inlining, conditional expressions, `- 1`)
                    for st in ast.walk(lp):
                        if isinstance(st, ast.Assign) and not any(isinstance(x, (ast.Call, ast.List, ast.Tuple)) and not (isinstance(x, ast.Tuple) and st.value is x)
                                                                    for x in ast.walk(st.value)):
                            names = {x.id for x in ast.walk(st.value) if isinstance(x, ast.Name)}
                            if names and names <= tainted | {"True", "False", "None"}:
                                for t_ in st.targets:
                                    for x in ast.walk(t_):
                                        if isinstance(x, ast.Name):
                                            tainted.add(x.id)
                where, ok = label, True
                for n in ast.walk(lp):
                    if isinstance(n, ast.Name) and n.id in tainted and isinstance(n.ctx, ast.Load):
                        par = getattr(n, "_parent", None)
                        if isinstance(par, ast.Compare):
                            others = [x for x in [par.left] + par.comparators if x is not n]
                            ok = ok and all(isinstance(x, ast.Constant) for x in others)
                        elif isinstance(par, ast.BinOp):
                            ok = ok and isinstance(par.op, ast.Sub) and isinstance(par.right, ast.Constant)
                        elif isinstance(par, (ast.Tuple, ast.Assign, ast.AnnAssign, ast.IfExp, ast.If, ast.UnaryOp, ast.BoolOp, ast.Return)):
                            pass
                        elif isinstance(par, ast.Call) and isinstance(par.func, ast.Attribute) and par.func.attr == "append":
                            pass
                        else:
                            ok = False
    q = "twisted.application._client_service." + where
    if ok:
        ctx.ok("waiters/failure-limit-domain", q, "the limit is only compared with constants / None and decremented: the classes {None, <= 1, > 1} (sampled as None, 0, 1, 2, 3) are its whole domain")
    else:
        ctx.note("waiters/failure-limit-domain: use of the failure limit not recognised as comparison-only; waiters/failure-limit is then evidence for the sampled limits only")


# ---- K6: waiter list handling, run concretely ------------------------------------------------------------------
def _fired(log):
    return [(x[0], x[1]) for x in log if x[0] != "setattr" and x[0].split(".")[-1] in ("callback", "errback")]


def _first_index(log, pred):
    return next((i for i, x in enumerate(log) if pred(x)), None)


def check_core(ctx, m, ex):
    """Waiter handling run concretely.  Waiters are created through the code's own whenConnected / stop paths, and judged by
    behaviour only (which Deferred fires when, with what), never by how the code represents a waiter."""
    mod = ctx.mod(CS)
    if m is None:
        ctx.note("waiters/*: machine declaration unreadable; the concrete waiter runs need its whenConnected path and are skipped")
        return
    data_states = {n for n, fac in m.factory.items() if fac}
    queue, stop = _guarded("find how waiters are created", lambda: waiter_makers(mod, m, data_states))
    ctx.need(queue is not None, "a whenConnected transition that queues its Deferred")
    ctx.need(stop is not None, "a _Core method that queues a stop Deferred")

    def fired_names(log):
        return [(x[0].rsplit(".", 1)[0], x[1]) for x in log if x[0] != "setattr" and x[0].split(".")[-1] in ("callback", "errback")]

    def first_fire(log):
        return _first_index(log, lambda x: x[0] != "setattr" and x[0].split(".")[-1] in ("callback", "errback"))
    # ---- unawait(value) / finishStopping(): every pending Deferred once, in order, list emptied before the first fires
    for meth, attr, has_val in (("unawait", "awaitingConnected", True), ("finishStopping", "stopWaiters", False)):
        ctx.func(CS, f"_Core.{meth}")
        q = QC + meth

        def scenario(meth=meth, attr=attr, has_val=has_val):
            it, core, closure, log = model_core(mod, m.funcs)
            if has_val:
                made = [add_connect_waiter(queue, closure, core, log, None), add_connect_waiter(queue, closure, core, log, 1)]
            else:
                made = [it.getattr_(core, stop)(), it.getattr_(core, stop)()]
            del log[:]
            it.getattr_(core, meth)(*(["VALUE"] if has_val else []))
            return core, log, [repr(d)[1:-1] for d in made]
        try:
            core, log, made = _guarded(f"run _Core.{meth}", scenario)
        except Nonterminating:
            ctx.violation("waiters/each-fired-once", q, "firing the waiters does not terminate")
            continue
        fired = fired_names(log)
        want = ("VALUE",) if has_val else (None,)
        ctx.check([f[0] for f in fired] == made, "waiters/each-fired-once", q,
                  f"the pending Deferreds {made} are not each fired exactly once, in order (fired: {[f[0] for f in fired]})")
        ctx.check(all(f[1] == want for f in fired), "waiters/each-fired-once", q + " | value", "the waiters are not fired with the given result")
        emptied = _first_index(log, lambda x: x[0] == "setattr" and x[1] is core and x[2] == attr and len(x[3]) == 0)
        first = first_fire(log)
        ctx.check(emptied is not None and (first is None or emptied < first) and not core.attrs.get(attr), "waiters/swap-order-run", q,
                  f"self.{attr} is not emptied before the first waiter is fired: a callback that re-enters the service sees (and can re-fire) Deferreds that are being fired")
    # ---- failure limits: a waiter with limit L fires at failure number max(L, 1), one without never; judged over four failures
    t = next((t for t in m.trans.values() if t["body"] is not None and t["inp"] in ex.eb and t["src"] == ex.att_state), None)
    ctx.need(t, "transition body for a failed attempt in the connecting state")
    f = t["body"]
    q = QM + "." + f.name
    limits = [None, 1, 2, 3, 0]

    def failures():
        it, core, closure, log = model_core(mod, m.funcs)
        made = [repr(add_connect_waiter(queue, closure, core, log, lim))[1:-1] for lim in limits]
        rounds, orders = {}, []
        has_data = t["src"] in data_states and not t["nodata"]
        for rnd in (1, 2, 3, 4):
            del log[:]
            call_body(closure, f, core, log, Mock("data", log) if has_data else None, [f"FAILURE{rnd}"])
            for name, args in fired_names(log):
                rounds.setdefault(name, []).append((rnd, args))
            detached = [i for i, x in enumerate(log) if x[0] == "setattr" and x[1] is core and x[2] == "awaitingConnected"]
            orders.append((detached, first_fire(log)))
        return made, rounds, orders, len(core.attrs.get("awaitingConnected") or [])
    made, rounds, orders, left = _guarded(f"run {f.name} on queued waiters", failures)
    want = {made[0]: None, made[1]: 1, made[2]: 2, made[3]: 3, made[4]: 1}
    got = {name: (rounds[name][0][0] if name in rounds else None) for name in made}
    ctx.check(got == want and all(len(v) == 1 and v[0][1] == (f"FAILURE{v[0][0]}",) for v in rounds.values()), "waiters/failure-limit", q + " | fired",
              f"with failure limits None, 1, 2, 3, 0 the waiters must fail at failure number -, 1, 2, 3, 1 (each once, with that failure); observed {[got[n] for n in made]}")
    ctx.check(left == 1, "waiters/failure-limit", q + " | kept", f"after four failures exactly the unlimited waiter must still be pending; {left} are")
    ok = all(d and (ff is None or d[-1] < ff) for d, ff in orders if ff is not None)
    ctx.check(ok, "waiters/swap-order-run", q,
              "awaitingConnected still contains the Deferreds being fired while their callbacks run (a re-entrant failure would fire them twice)")
    # ---- whenConnected returns the Deferred that is later fired
    def queued():
        it, core, closure, log = model_core(mod, m.funcs)
        ret = add_connect_waiter(queue, closure, core, log, None)
        del log[:]
        it.getattr_(core, "unawait")("VALUE")
        return repr(ret)[1:-1], fired_names(log)
    name, fired = _guarded("run the queueing transition", queued)
    ctx.check(fired == [(name, ("VALUE",))], "waiters/queued-with-limit", QM + "." + queue[0]["body"].name,
              "the Deferred whenConnected returns is not the one that is fired when the connection is made")


# ---- K7: retry scheduling (concrete runs of the retry factory) -----------------------------------------------------------
def check_retry(ctx, m, ex):
    fname = m.factory[ex.ret_state]
    q = QM + "." + fname
    conc = ex.conc
    for fa in (0, 1, 2):
        calls = conc.policy[fname][fa]
        later = conc.later[fname][fa]
        ctx.check(len(calls) == 1 and len(calls[0]) == 1, "retry/factory-run", f"{q} | policy consulted once (failedAttempts={fa})",
                  f"the retry factory asks the policy {len(calls)} times / with {calls} instead of once with the failure count")
        ok = len(later) == 1 and len(later[0]) >= 2 and calls and later[0][0] == ("DELAY",) + calls[0] and repr(later[0][1]) == f"<c.{ex.timer[0]}>"
        ctx.check(ok, "retry/factory-run", f"{q} | callLater(delay, c.{ex.timer[0]}) (failedAttempts={fa})",
                  f"the retry is not scheduled exactly once with the delay the policy returned and the reconnect input (callLater calls: {later})")
        ret = conc.returned[fname][fa]
        ctx.check(repr(ret) == "<clock.callLater()>", "retry/factory-run", f"{q} | returns the delayed call (failedAttempts={fa})",
                  "the retry state's data is not the delayed call: stop could not cancel the timer")


def check_service(ctx):
    q = "twisted.application._client_service.ClientService."
    for meth, inp, needs_return in (("whenConnected", "whenConnected", True), ("stopService", "stop", True), ("startService", "start", False)):
        f = ctx.func(CS, f"ClientService.{meth}")
        g = ctx.cfg(f)
        calls = g.find(lambda x: isinstance(x, ast.Call) and call_name(x) == f"self._machine.{inp}")
        ctx.check(len(calls) == 1, "service/forwards-to-machine", q + meth, f"{meth} does not send `{inp}` to the state machine exactly once")
        for n in calls:
            node = g.node(n).ast
            if needs_return:
                returned = isinstance(node, ast.Return)
                if isinstance(node, ast.Assign) and len(node.targets) == 1 and isinstance(node.targets[0], ast.Name):
                    rets = g.ids(lambda x: x.kind == "stmt" and isinstance(x.ast, ast.Return))
                    after = [r for r in rets if g.path([n], [r], strict=True)]
                    returned = bool(after) and all(isinstance(g.node(r).ast.value, ast.Name) and g.node(r).ast.value.id == node.targets[0].id for r in after)
                ctx.check(returned, "service/forwards-to-machine", ctx.construct(q + meth, node), "the machine's Deferred is not what the caller receives")
                w = g.must_pass([g.entry], [n], exc=False)
                ctx.check(w is None, "service/forwards-to-machine", q + meth + " | always", "the call can be skipped", witness=g.describe(w))
            else:
                ok = all(src(g.node(t).ast) == "self.running" and lab == "F" for t, lab in g.edge_guards(n))
                ctx.check(ok, "service/forwards-to-machine", ctx.construct(q + meth, node), "start is withheld under a condition other than 'already running'")
        if meth == "whenConnected" and calls:
            c = next(x for x in walk_local(g.node(calls[0]).ast) if isinstance(x, ast.Call) and call_name(x) == "self._machine.whenConnected")
            ctx.check(len(c.args) + len(c.keywords) == 1 and src((c.args + [k.value for k in c.keywords])[0]) == f.args.args[1].arg, "service/forwards-to-machine",
                      ctx.construct(q + meth, c), "failAfterFailures is not passed on")
    imp = [n for n in ctx.mod(INET).tree.body if isinstance(n, ast.ImportFrom) and n.module == "_client_service" and any(a.name == "ClientService" for a in n.names)]
    ctx.check(bool(imp), "service/forwards-to-machine", "twisted.application.internet | ClientService", "internet.ClientService is no longer the machine-backed service")


_T = "    {}.upon(_Client.{}).{}.returns(None)\n"
# round-3 shape: behaviour moved onto _Core methods (silent) / the same shape with the defect (mutant)
_MOVE_CALL = (CS, "        s.failedAttempts += 1\n        delay = s.timeoutForAttempt(s.failedAttempts)\n", "        delay = s.countFailureAndAskPolicy()\n")


def _move_method(body):
    return (CS, "    def cancelConnectWaiters(self) -> None:\n", "    def countFailureAndAskPolicy(self) -> float:\n" + body + "\n    def cancelConnectWaiters(self) -> None:\n")


_FIRE_HELPER = (CS, "def makeMachine() -> Callable[[_Core], _Client]:\n", "def _fireEach(deferreds, result):\n    for d in deferreds:\n        d.callback(result)\n\n\ndef makeMachine() -> Callable[[_Core], _Client]:\n")
_UNAWAIT_OLD = "        self.awaitingConnected, waiting = [], self.awaitingConnected\n        for w, remaining in waiting:\n            w.callback(value)\n"

# round-4 shape: waiters as small objects instead of (Deferred, limit) tuples
_OBJ_CLASS = (CS, "@dataclass\nclass _Core:\n", "class _Pending:\n    def __init__(self, deferred, left):\n        self.deferred = deferred\n        self.left = left\n\n\n@dataclass\nclass _Core:\n")
_OBJ_UNAWAIT = (CS, "        for w, remaining in waiting:\n            w.callback(value)\n", "        for pending in waiting:\n            pending.deferred.callback(value)\n")
_OBJ_QUEUE = (CS, "        s.awaitingConnected.append((result, failAfterFailures))\n", "        s.awaitingConnected.append(_Pending(result, failAfterFailures))\n")
_OBJ_LOOP_OLD = ("        for w, remaining in s.awaitingConnected:\n            if remaining is None:\n                notReady.append((w, remaining))\n            elif remaining <= 1:\n"
                 "                ready.append(w)\n            else:\n                notReady.append((w, remaining - 1))\n")


def _obj_loop(test):
    return ("        for pending in s.awaitingConnected:\n            if pending.left is None:\n                notReady.append(pending)\n"
            f"            elif {test}:\n                ready.append(pending.deferred)\n            else:\n                notReady.append(_Pending(pending.deferred, pending.left - 1))\n")


MUTANTS = [
    Mutant("row-removed-connected-disconnected", CS, "    Connected.upon(_Client._clientDisconnected).to(Waiting).returns(None)\n", "", expect_rule="matrix/no-rejected-event"),
    Mutant("row-removed-waiting-reconnect", CS, "    Waiting.upon(_Client._reconnect).to(Connecting).returns(None)\n", "", expect_rule="matrix/no-rejected-event"),
    Mutant("row-removed-disconnecting-failed", CS, "    @pep614(Disconnecting.upon(_Client._connectionFailed).to(Stopped))\n", "", expect_rule="matrix/no-rejected-event"),
    Mutant("row-removed-restarting-start", CS, "    Restarting.upon(_Client.start).to(Restarting).returns(None)\n", "", expect_rule="matrix/public-input-total"),
    Mutant("row-removed-restarting-whenconnected", CS, "    @pep614(Restarting.upon(_Client.whenConnected).to(Restarting))\n", "", expect_rule="matrix/public-input-total"),
    Mutant("stop-while-connecting-does-not-cancel", CS, "        waited = s.waitForStop()\n        attempt.cancel()\n        return waited\n", "        waited = s.waitForStop()\n        return waited\n",
           expect_rule="stop/cancels-outstanding-work"),
    Mutant("stop-while-waiting-keeps-timer", CS, "        futureRetry.cancel()\n", "", expect_rule="matrix/no-rejected-event"),
    Mutant("stop-while-waiting-forgets-connect-waiters", CS, "        waited = s.waitForStop()\n        s.cancelConnectWaiters()\n        futureRetry.cancel()\n", "        waited = s.waitForStop()\n        futureRetry.cancel()\n",
           expect_rule="waiters/resolved-on-entry"),
    Mutant("stop-while-waiting-finish-before-wait", CS, "        waited = s.waitForStop()\n        s.cancelConnectWaiters()\n        futureRetry.cancel()\n        s.finishStopping()\n        return waited\n",
           "        s.cancelConnectWaiters()\n        futureRetry.cancel()\n        s.finishStopping()\n        waited = s.waitForStop()\n        return waited\n", expect_rule="stop-waiters/"),
    Mutant("restart-done-forgets-stop-waiters", CS, "    def restartDone(c: _Client, s: _Core, failure: Optional[Failure] = None) -> None:\n        s.finishStopping()\n",
           "    def restartDone(c: _Client, s: _Core, failure: Optional[Failure] = None) -> None:\n        pass\n", expect_rule="stop-waiters/"),
    Mutant("disconnecting-finished-forgets-connect-waiters", CS, "        s.cancelConnectWaiters()\n        s.finishStopping()\n\n    @pep614(Connecting.upon(_Client.whenConnected", "        s.finishStopping()\n\n    @pep614(Connecting.upon(_Client.whenConnected",
           expect_rule="waiters/resolved-on-entry"),
    Mutant("start-while-connected-reconnects", CS, "    Connected.upon(_Client.start).loop().returns(None)\n", "    Connected.upon(_Client.start).to(Connecting).returns(None)\n",
           expect_rule="one-connection/new-attempt-while-open"),
    Mutant("start-while-disconnecting-reconnects", CS, "    Disconnecting.upon(_Client.start).to(Restarting).returns(None)\n", "    Disconnecting.upon(_Client.start).to(Connecting).returns(None)\n",
           expect_rule="one-connection/new-attempt-while-open"),
    Mutant("unawait-without-swap", CS, "        self.awaitingConnected, waiting = [], self.awaitingConnected\n", "        waiting = self.awaitingConnected\n", expect_rule="waiters/"),
    Mutant("finish-stopping-without-swap", CS, "        self.stopWaiters, waiting = [], self.stopWaiters\n", "        waiting = self.stopWaiters\n", expect_rule="waiters/"),
    Mutant("failure-limit-off-by-one", CS, "            elif remaining <= 1:\n", "            elif remaining < 1:\n", expect_rule="waiters/failure-limit"),
    Mutant("failure-limit-not-decremented", CS, "                notReady.append((w, remaining - 1))\n", "                notReady.append((w, remaining))\n", expect_rule="waiters/failure-limit"),
    Mutant("fire-before-detach", CS, "        s.awaitingConnected = notReady\n        for w in ready:\n            w.callback(failure)\n", "        for w in ready:\n            w.callback(failure)\n        s.awaitingConnected = notReady\n",
           expect_rule="waiters/"),
    Mutant("delay-before-increment", CS, "        s.failedAttempts += 1\n        delay = s.timeoutForAttempt(s.failedAttempts)\n", "        delay = s.timeoutForAttempt(s.failedAttempts)\n        s.failedAttempts += 1\n",
           expect_rule="retry/delay-counts-consecutive-failures"),
    Mutant("counter-not-reset", CS, "        s.failedAttempts = 0\n        s.unawait(protocol._protocol)\n", "        s.unawait(protocol._protocol)\n", expect_rule="retry/delay-counts-consecutive-failures"),
    Mutant("remember-connection-forgets-waiters", CS, "        s.failedAttempts = 0\n        s.unawait(protocol._protocol)\n", "        s.failedAttempts = 0\n", expect_rule="waiters/resolved-on-entry"),
    Mutant("errback-before-prepare", CS, "            connectingProxy.addCallback(prepare)\n            .addCallback(c._connectionMade)\n            .addErrback(c._connectionFailed)\n",
           "            connectingProxy.addErrback(c._connectionFailed)\n            .addCallback(prepare)\n            .addCallback(c._connectionMade)\n", expect_rule="attempt/errback-closes-chain"),
    Mutant("failure-not-reported", CS, "            .addCallback(c._connectionMade)\n            .addErrback(c._connectionFailed)\n", "            .addCallback(c._connectionMade)\n", expect_rule="attempt/outcomes-delivered"),
    Mutant("connect-with-raw-factory", CS, "s.endpoint.connect(factoryProxy)", "s.endpoint.connect(s.factory)", expect_rule="attempt/connects-with-disconnect-proxy"),
    Mutant("lost-notification-not-in-finally", CS, "        try:\n            return self._protocol.connectionLost(reason)\n        finally:\n            self._lostNotification(reason)\n",
           "        result = self._protocol.connectionLost(reason)\n        self._lostNotification(reason)\n        return result\n", expect_rule="attempt/disconnect-always-reported"),
    Mutant("stop-connected-keeps-transport", CS, "        protocol._transport.loseConnection()\n", "", expect_rule="stop/closes-connection"),
    Mutant("second-stop-while-restarting-stays-restarting", CS, "    @pep614(Restarting.upon(_Client.stop).to(Disconnecting))\n", "    @pep614(Restarting.upon(_Client.stop).loop())\n",
           expect_rule="stopped/no-new-work"),
    Mutant("failures-counted-only-for-failed-attempts", CS, "        s.failedAttempts += 1\n        delay = s.timeoutForAttempt(s.failedAttempts)\n",
           "        nth = s.failedAttempts + 1\n        delay = s.timeoutForAttempt(nth)\n",
           more=[(CS, "    def failedWhenConnecting(c: _Client, s: _Core, failure: Failure) -> None:\n        ready = []\n",
                  "    def failedWhenConnecting(c: _Client, s: _Core, failure: Failure) -> None:\n        s.failedAttempts += 1\n        ready = []\n")],
           expect_rule="retry/delay-counts-consecutive-failures"),
    Mutant("start-after-stop-ignored", CS, "    Stopped.upon(_Client.start).to(Connecting).returns(None)\n", "    Stopped.upon(_Client.start).loop().returns(None)\n", expect_rule="running/never-idle"),
    Mutant("stop-while-waiting-goes-to-disconnecting", CS, "    @pep614(Waiting.upon(_Client.stop).to(Stopped))\n", "    @pep614(Waiting.upon(_Client.stop).to(Disconnecting))\n",
           expect_rule="stopped/converges-to-stopped"),
    Mutant("retry-scheduled-twice", CS, "        return s.clock.callLater(delay, c._reconnect)\n", "        s.clock.callLater(delay, c._reconnect)\n        return s.clock.callLater(delay, c._reconnect)\n",
           expect_rule="retry/"),
    Mutant("repeated-stop-answers-immediately", CS, "        super().stopService()\n        return self._machine.stop()", "        if not self.running:\n            return succeed(None)\n        super().stopService()\n        return self._machine.stop()",
           expect_rule="service/forwards-to-machine"),
    Mutant("revert-F58w-stop-before-start-cancels-waiters", CS, "    @pep614(Init.upon(_Client.stop).to(Stopped))\n    def stopBeforeStart(c: _Client, s: _Core) -> Deferred[None]:\n        # whenConnected may have been called before the service was started.\n        s.cancelConnectWaiters()\n        return succeed(None)\n\n    @pep614(Stopped.upon(_Client.stop).to(Stopped))\n",
           "    @pep614(Init.upon(_Client.stop).to(Stopped))\n    @pep614(Stopped.upon(_Client.stop).to(Stopped))\n", expect_rule="waiters/resolved-on-entry"),
    Mutant("moved-method-asks-policy-before-counting", CS, _MOVE_CALL[1], _MOVE_CALL[2],
           more=[_move_method("        answer = self.timeoutForAttempt(self.failedAttempts)\n        self.failedAttempts += 1\n        return answer\n")], expect_rule="retry/delay-counts-consecutive-failures"),
    Mutant("fire-helper-over-the-live-list", CS, _UNAWAIT_OLD, "        _fireEach([w for w, _ in self.awaitingConnected], value)\n        self.awaitingConnected = []\n",
           more=[_FIRE_HELPER], expect_rule="waiters/"),
    Mutant("waiter-objects-limit-off-by-one", CS, _OBJ_LOOP_OLD, _obj_loop("pending.left < 1"), more=[_OBJ_CLASS, _OBJ_UNAWAIT, _OBJ_QUEUE], expect_rule="waiters/failure-limit"),
    Mutant("service-start-unguarded-double", CS, "        super().startService()\n        self._machine.start()\n", "        super().startService()\n", expect_rule="service/forwards-to-machine"),
]
SILENT = [
    Silent("loop-written-as-to-self", CS, "    Connecting.upon(_Client.start).loop().returns(None)\n", "    Connecting.upon(_Client.start).to(Connecting).returns(None)\n"),
    Silent("decorator-to-plain-registration", CS, "    @pep614(Stopped.upon(_Client.stop).to(Stopped))\n    def immediateStop(c: _Client, s: _Core) -> Deferred[None]:\n        return succeed(None)\n",
           "    def immediateStop(c: _Client, s: _Core) -> Deferred[None]:\n        return succeed(None)\n\n    Stopped.upon(_Client.stop).loop()(immediateStop)\n"),
    Silent("stop-before-start-shares-cancel-helper", CS, "        # whenConnected may have been called before the service was started.\n        s.cancelConnectWaiters()\n        return succeed(None)\n",
           "        s.unawait(Failure(CancelledError()))\n        return succeed(None)\n"),
    Silent("cancel-before-wait", CS, "        waited = s.waitForStop()\n        attempt.cancel()\n        return waited\n", "        attempt.cancel()\n        waited = s.waitForStop()\n        return waited\n"),
    Silent("unawait-explicit-swap", CS, "        self.awaitingConnected, waiting = [], self.awaitingConnected\n", "        waiting = self.awaitingConnected\n        self.awaitingConnected = []\n"),
    Silent("duplicate-state-declaration-removed", CS, "    Restarting = machine.state(\"Restarting\")\n    Stopped = machine.state(\"Stopped\")\n", "    Restarting = machine.state(\"Restarting\")\n"),
    Silent("increment-in-helper-called-by-the-retry-factory", CS, "    def waitForRetry(\n", "    def countFailure(s: _Core) -> int:\n        s.failedAttempts += 1\n        return s.failedAttempts\n\n    def waitForRetry(\n",
           more=[(CS, "        s.failedAttempts += 1\n        delay = s.timeoutForAttempt(s.failedAttempts)\n", "        delay = s.timeoutForAttempt(countFailure(s))\n")]),
    Silent("increment-through-a-local", CS, "        s.failedAttempts += 1\n        delay = s.timeoutForAttempt(s.failedAttempts)\n",
           "        nth = s.failedAttempts + 1\n        s.failedAttempts = nth\n        delay = s.timeoutForAttempt(nth)\n"),
    Silent("stop-service-local-for-deferred", CS, "        super().stopService()\n        return self._machine.stop()", "        super().stopService()\n        stopped = self._machine.stop()\n        return stopped"),
    Silent("start-transitions-from-a-table", CS, "    Init.upon(_Client.start).to(Connecting).returns(None)\n    Connecting.upon(_Client.start).loop().returns(None)\n",
           "    for src_, dst_ in ((Init, Connecting), (Connecting, Connecting)):\n        src_.upon(_Client.start).to(dst_).returns(None)\n"),
    Silent("failure-accounting-in-module-helper", CS, "        ready = []\n        notReady: list[tuple[Deferred[IProtocol], Optional[int]]] = []\n        for w, remaining in s.awaitingConnected:\n            if remaining is None:\n                notReady.append((w, remaining))\n            elif remaining <= 1:\n                ready.append(w)\n            else:\n                notReady.append((w, remaining - 1))\n        s.awaitingConnected = notReady\n",
           "        ready, s.awaitingConnected = _splitWaiters(s.awaitingConnected)\n",
           more=[(CS, "def makeMachine() -> Callable[[_Core], _Client]:\n", "def _splitWaiters(pending):\n    due, later = [], []\n    for w, left in pending:\n        if left is not None and left <= 1:\n            due.append(w)\n        else:\n            later.append((w, left if left is None else left - 1))\n    return due, later\n\n\ndef makeMachine() -> Callable[[_Core], _Client]:\n")]),
    Silent("stop-transitions-share-a-local-helper", CS, "        waited = s.waitForStop()\n        attempt.cancel()\n        return waited\n", "        return haltThenWait(s, attempt.cancel)\n",
           more=[(CS, "        waited = s.waitForStop()\n        protocol._transport.loseConnection()\n        return waited\n", "        return haltThenWait(s, protocol._transport.loseConnection)\n"),
                 (CS, "    # States:\n", "    def haltThenWait(s: _Core, halt: Callable[[], object]) -> Deferred[None]:\n        waited = s.waitForStop()\n        halt()\n        return waited\n\n    # States:\n")]),
    Silent("retry-bookkeeping-moved-to-a-core-method", CS, _MOVE_CALL[1], _MOVE_CALL[2],
           more=[_move_method("        self.failedAttempts += 1\n        return self.timeoutForAttempt(self.failedAttempts)\n")]),
    Silent("firing-through-a-module-helper", CS, _UNAWAIT_OLD, "        waiting, self.awaitingConnected = self.awaitingConnected, []\n        _fireEach([w for w, _ in waiting], value)\n", more=[_FIRE_HELPER]),
    Silent("waiters-as-objects", CS, _OBJ_LOOP_OLD, _obj_loop("pending.left <= 1"), more=[_OBJ_CLASS, _OBJ_UNAWAIT, _OBJ_QUEUE]),
    Silent("failure-limit-rewritten", CS, "            elif remaining <= 1:\n", "            elif not remaining > 1:\n"),
]
