"""C54 - FTP server never touches paths outside its root."""
from __future__ import annotations

import ast
import functools as _functools

from sa.astx import call_attr, call_name, dotted, src, walk_local
from sa.selftest import Mutant, Silent
from sa.source import AnalysisError, methods, mro_lookup
from sa.props._lib_j import MiniStop, body_always_entered, leaf_values, mini_call, normalise, resolve, rsrc, run_sections, asserted_eq, asserted_in, edge_asserts, local_defs, node_calls, normal_exits, params

PROPERTY = "C54"
FTPM = "protocols/ftp.py"
FPM = "python/filepath.py"
QF = "twisted.protocols.ftp"
TECHNIQUE = ("sink provenance (column-wise through rows of tuples), footprint table, guard dominance; descendant(): loop / fold shape + bounded evaluation; "
             "toSegments: per-component guards on the split loop + bounded evaluation against the clause (normalise/evaluated)")
EXPLANATION = (
    "Decides a provenance chain: (1) in class FTP every path argument of every self.shell.<op>(...) call is a variable all of "
    "whose definitions are toSegments(self.workingDirectory, <argument>), and self.workingDirectory is only ever [] or such a "
    "result and is never mutated in place; (2) in FTPAnonymousShell/FTPShell every filesystem sink (os.*/open with a path "
    "argument, FilePath methods) is applied to a value whose every definition derives from self._path(<parameter>) - no FilePath "
    "construction, preauthChild/parent/sibling/realpath, os.path.join or raw parameter reaches a sink - self.filesystemRoot is "
    "used only by _path (and read-only by segmentsFrom), _path is filesystemRoot.descendant(segments) and descendant applies "
    "child() once per segment (C26 decides child); (3) toSegments appends only the loop's own separator-free segment, never "
    "'..' / '.' / '', pops only a non-empty stack, and returns a list that started as [] or a copy of cwd; "
    "(4) footprints: every os/shutil primitive and FilePath method applied to a confined path is classified by the paths it can touch relative to its argument; "
    "only {arg}, {src,dst}, {arg+descendants} and makedirs' bounded ancestor creation are accepted, upward ones (os.removedirs, os.renames, setContent's sibling, "
    "a mutation through parent()/dirname of a confined path) are violations, an unclassified primitive is an analysis error of that section, and the FilePath "
    "methods used are scanned for upward primitives. "
    "(5) the str<->bytes coercion helpers FilePath.child() relies on (found from child() through its private calls) are pure re-encodings: they return their path argument, "
    "that argument encoded / decoded, or another such helper applied to it - a helper that rewrites the text (normalisation, case folding, strip, replace) is a violation, "
    "because containment is validated on the rewritten spelling of the root while the directory on disk keeps the original one. "
    "Not decided: symbolic links (excluded by the statement), FilePath.child itself (C26), the realm's choice of root. "
    "Every anchor function is also checked to be entered on every call (no memoising/wrapping decorator, duplicate definition or rebinding). "
    "Methods: structural for every clause; descendant() has a structural loop-shape decider (two idioms) and, as second layer and fallback when the loop shape is not recognised, a bounded evaluation on segment lists of length 0..3 (then that clause has bounded evidence only, noted in the evidence). "
)
RULE_KINDS = {
    "*": "structural",                          # provenance of every path value at every sink, footprint table, guard dominance in toSegments, loop-shape rule for descendant()
    "normalise/evaluated": "bounded",           # second layer under normalise/*: toSegments interpreted on 1548 (cwd, path) pairs and compared with the clause
    "shell/descendant-evaluated": "bounded",    # second layer under shell/descendant-is-child-per-segment: descendant() interpreted on segment lists of length 0..3
}
ASSUMPTIONS = [
    "the rules read a normalised view of the anchored modules (sa/props/_lib_j.Normaliser): private helpers expanded at their call sites, module constants and single-assignment pure temporaries substituted, loops over constant tuples unrolled; evaluation order inside one statement is not modelled",
   "the shell root exists while the shell is in use (makedirs creates missing ancestors only below it)", "FilePath.child rejects anything that is not a direct child (property C26)", "IFTPShell implementations other than the two in ftp.py are out of scope"]

FP_METHODS = {"open", "listdir", "remove", "makedirs", "createDirectory", "isdir", "isfile", "exists", "islink", "restat", "getsize", "child", "children",
              "walk", "moveTo", "copyTo", "setContent", "getContent", "touch", "chmod", "getPermissions", "getModificationTime", "getNumberOfHardLinks",
              "getUserID", "getGroupID", "linkTo", "create", "requireCreate", "getAccessTime", "getStatusChangeTime", "getInodeNumber", "getDevice"}
FOREIGN = {"FilePath", "preauthChild", "parent", "sibling", "siblingExtension", "temporarySibling", "realpath", "abspath", "normpath", "expanduser", "join",
           "asBytesMode", "asTextMode", "clonePath", "parents", "dirname"}
OS_SINKS = {"os.rmdir", "os.rename", "os.remove", "os.unlink", "os.mkdir", "os.makedirs", "os.listdir", "os.stat", "os.lstat", "os.chmod", "os.open", "open",
            "os.replace", "os.symlink", "os.link", "os.utime", "os.scandir", "os.walk", "os.chown", "shutil.rmtree", "shutil.copy", "shutil.move", "os.removedirs"}
SHELL_NON_PATH_OPS = {"logout"}
PATH_ARITY = {"rename": 2}


def _enclosing_functions(node):
    p = getattr(node, "_parent", None)
    while p is not None:
        if isinstance(p, (ast.FunctionDef, ast.AsyncFunctionDef, ast.Lambda)):
            yield p
        if isinstance(p, ast.ClassDef):
            return
        p = getattr(p, "_parent", None)


def _defs_in_scope(name, node):
    """Definitions of ``name`` in the innermost enclosing function that defines it (closures)."""
    for fn in _enclosing_functions(node):
        if isinstance(fn, ast.Lambda):
            if name in [a.arg for a in fn.args.args]:
                return fn, ["<param>"]
            continue
        if name in params(fn):
            return fn, ["<param>"]
        d = local_defs(fn, track_mutation=False).get(name)
        if d:
            return fn, d
    return None, []


def _is_tosegments(e):
    """e is toSegments(self.workingDirectory, <anything>) - or one element of a list / comprehension every element of which is
    (``a, b = [toSegments(self.workingDirectory, n) for n in (x, y)]``)"""
    if isinstance(e, ast.Call) and call_name(e) == "toSegments" and len(e.args) == 2 and src(e.args[0]) == "self.workingDirectory":
        return True
    if isinstance(e, ast.Subscript) and isinstance(e.slice, ast.Constant) and isinstance(e.slice.value, int):
        base = e.value
        if isinstance(base, (ast.ListComp, ast.GeneratorExp)):
            return _is_tosegments(base.elt)
        if isinstance(base, (ast.List, ast.Tuple)) and base.elts:
            return all(_is_tosegments(x) for x in base.elts)
        if isinstance(base, ast.Call) and call_name(base) in ("list", "tuple") and len(base.args) == 1:
            return _is_tosegments(ast.Subscript(value=base.args[0], slice=e.slice, ctx=ast.Load()))
    return False


def _s_protocol(ctx, S):
    ctx.mod(FTPM)
    # ================= (1) FTP protocol: only toSegments() results reach the shell =============================
    cls = ctx.cls(FTPM, "FTP")
    nsites = 0
    for mname, m in methods(cls).items():
        for c in ast.walk(m):
            if not (isinstance(c, ast.Call) and isinstance(c.func, ast.Attribute) and src(c.func.value) == "self.shell"):
                continue
            op = c.func.attr
            if op in SHELL_NON_PATH_OPS:
                continue
            nsites += 1
            ctx.functions.add(f"{FTPM}:FTP.{mname}")
            for i in range(PATH_ARITY.get(op, 1)):
                where = ctx.construct(f"{QF}.FTP.{mname}", f"self.shell.{op}(<path argument {i}>)")
                if i >= len(c.args):
                    ctx.violation("protocol/shell-gets-normalised-segments", where, f"self.shell.{op} is called without its path argument")
                    continue
                a = c.args[i]
                ok = False
                why = src(a)
                if isinstance(a, ast.Name):
                    fn, ds = _defs_in_scope(a.id, c)
                    ok = bool(ds) and all(d is not None and d != "<param>" and _is_tosegments(d) for d in ds)
                    why = f"{a.id} = {[src(d) if isinstance(d, ast.AST) else d for d in ds]}"
                elif _is_tosegments(a):
                    ok = True
                ctx.check(ok, "protocol/shell-gets-normalised-segments", where,
                          f"the path handed to the shell is not (only) a result of toSegments(self.workingDirectory, <command argument>): {why} - a client "
                          f"path with '..' or an absolute path reaches the filesystem un-normalised")
    ctx.floor("protocol/shell-gets-normalised-segments", nsites, 11, "self.shell.<op>(path) call sites")


def _param_from_tosegments(cls, meth, pname) -> bool:
    """``pname`` is a parameter of the private method ``meth``: every reference to the method in the class hands in a toSegments() result for it -
    directly (``self._m(x, segs)``) or as a Deferred callback with extra arguments (``d.addCallback(self._m, segs)``: result first, then the extras)."""
    ps = params(meth)[1:]
    if pname not in ps:
        return False
    idx = ps.index(pname)
    refs = 0
    for m2 in methods(cls).values():
        for n in ast.walk(m2):
            if isinstance(n, ast.Attribute) and src(n) == "self." + meth.name and isinstance(n.ctx, ast.Load):
                refs += 1
                par = getattr(n, "_parent", None)
                arg = None
                if isinstance(par, ast.Call) and par.func is n:
                    arg = par.args[idx] if idx < len(par.args) else next((k.value for k in par.keywords if k.arg == pname), None)
                elif isinstance(par, ast.Call) and call_attr(par) in ("addCallback", "addBoth") and par.args and par.args[0] is n and idx >= 1:
                    arg = par.args[idx] if idx < len(par.args) else None
                if arg is None:
                    return False
                if _is_tosegments(arg):
                    continue
                if not isinstance(arg, ast.Name):
                    return False
                fn, ds = _defs_in_scope(arg.id, par)
                if not (ds and all(d is not None and d != "<param>" and _is_tosegments(d) for d in ds)):
                    return False
    return refs > 0


def _s_cwd(ctx, S):
    cls = ctx.cls(FTPM, "FTP")
    nwd = 0
    for mname, m in methods(cls).items():
        for n in ast.walk(m):
            if isinstance(n, (ast.Assign, ast.AugAssign, ast.AnnAssign)):
                tg = n.targets if isinstance(n, ast.Assign) else [n.target]
                for t in tg:
                    if src(t) == "self.workingDirectory":
                        nwd += 1
                        v = n.value
                        ok = isinstance(n, ast.Assign) and ((isinstance(v, ast.List) and not v.elts) or _is_tosegments(v))
                        if not ok and isinstance(n, ast.Assign) and isinstance(v, ast.Name):
                            fn, ds = _defs_in_scope(v.id, n)
                            ok = bool(ds) and all(d is not None and d != "<param>" and _is_tosegments(d) for d in ds)
                            if not ok and ds == ["<param>"] and fn is m and mname.startswith("_") and not mname.startswith("__"):
                                ok = _param_from_tosegments(cls, m, v.id)
                        ctx.check(ok, "protocol/working-directory-normalised", ctx.construct(f"{QF}.FTP.{mname}", n),
                                  "self.workingDirectory is assigned something other than [] or a toSegments() result: later relative paths start outside "
                                  "the normalised tree")
                    elif isinstance(t, ast.Subscript) and src(t.value) == "self.workingDirectory":
                        nwd += 1
                        ctx.violation("protocol/working-directory-normalised", ctx.construct(f"{QF}.FTP.{mname}", n), "self.workingDirectory is modified in place")
            if isinstance(n, ast.Call) and isinstance(n.func, ast.Attribute) and src(n.func.value) == "self.workingDirectory" and \
                    n.func.attr in ("append", "extend", "insert", "pop", "remove", "clear", "reverse", "sort"):
                nwd += 1
                ctx.violation("protocol/working-directory-normalised", ctx.construct(f"{QF}.FTP.{mname}", n), "self.workingDirectory is modified in place")
    ctx.floor("protocol/working-directory-normalised", nwd, 1, "assignments of self.workingDirectory")



def _s_tosegments(ctx, S):
    # ================= (3) toSegments ==========================================================================
    f = ctx.func(FTPM, "toSegments")
    g = ctx.cfg(f)
    q = QF + ".toSegments"
    cwd, path = params(f)[:2]
    rets = [x for x in normal_exits(g)]
    stacks = sorted({src(c.func.value) for c in walk_local(f) if isinstance(c, ast.Call) and call_attr(c) == "append" and isinstance(c.func.value, ast.Name)})
    ctx.need(len(stacks) == 1, "one segment stack (<name>.append(...)) in toSegments")
    segs = stacks[0]
    ctx.check(bool(rets) and all(isinstance(g.node(x).ast, ast.Return) and src(g.node(x).ast.value) == segs for x in rets), "normalise/returns-the-stack", q,
              f"toSegments does not return the normalised stack `{segs}` on every path: "
              f"{sorted({src(g.node(x).ast.value) if isinstance(g.node(x).ast, ast.Return) else '<falls off>' for x in rets})}")
    ds = local_defs(f, track_mutation=False).get(segs, [])
    starts = [v for d in ds if d is not None for v, _, _ in leaf_values(f, d)]
    okd = bool(ds) and all(d is not None for d in ds) and \
        all((isinstance(d, ast.List) and not d.elts) or src(d) in (f"{cwd}[:]", f"list({cwd})", f"{cwd}.copy()", f"{cwd}[0:]") for d in starts)
    ctx.check(okd, "normalise/starts-from-root-or-cwd", q, f"the segment stack does not start as [] or a copy of cwd: {[src(d) for d in starts]}")
    for n in g.ids(lambda n: n.kind == "stmt" and isinstance(n.ast, ast.Raise)):
        ctx.check("InvalidPath" in src(g.node(n).ast), "normalise/rejects-with-InvalidPath", ctx.construct(q, g.node(n).ast), "a rejected path raises something other than InvalidPath "
                  "(every ftp_* handler converts exactly InvalidPath)")
    loops = [n for n in g.nodes if n.kind == "for" and g.reachable(n.id)]
    if len(loops) != 1 or any(isinstance(n, ast.While) for n in walk_local(f)):
        # not a walk over <path>.split('/') (e.g. a hand-written scanner): the per-component clauses are not read from this shape
        ctx.note("normalise/* per-component clauses: toSegments is not a single for-loop over the split path; left to the bounded rule normalise/evaluated")
        return
    lp = loops[0]
    var = src(lp.ast.target)
    # the iterable: <path>.split("/") itself, or a comprehension / generator over it that only FILTERS components (its element is its own variable);
    # the filter conditions then hold for the loop variable as if they were guards inside the loop
    it_ = resolve(lp.ast.iter, local_defs(f, track_mutation=False))
    pre_neq = set()
    if isinstance(it_, (ast.ListComp, ast.GeneratorExp)) and len(it_.generators) == 1 and isinstance(it_.generators[0].target, ast.Name) \
            and isinstance(it_.elt, ast.Name) and it_.elt.id == it_.generators[0].target.id:
        cv = it_.generators[0].target.id
        for cond in it_.generators[0].ifs:
            for t_ in (cond.values if isinstance(cond, ast.BoolOp) and isinstance(cond.op, ast.And) else [cond]):
                if isinstance(t_, ast.Name) and t_.id == cv:
                    pre_neq.add("")                                            # truthy component
                elif isinstance(t_, ast.Compare) and len(t_.ops) == 1 and src(t_.left) == cv:
                    if isinstance(t_.ops[0], ast.NotEq) and isinstance(t_.comparators[0], ast.Constant):
                        pre_neq.add(t_.comparators[0].value)
                    elif isinstance(t_.ops[0], ast.NotIn) and isinstance(t_.comparators[0], (ast.Tuple, ast.List, ast.Set)):
                        pre_neq |= {x.value for x in t_.comparators[0].elts if isinstance(x, ast.Constant)}
        it_ = it_.generators[0].iter
    split_ok = src(it_) == f"{path}.split('/')"
    apps = node_calls(g, lambda c: call_name(c) == segs + ".append")
    ctx.check(bool(apps), "normalise/appends", q, "toSegments never appends a segment")
    for n, c in apps:
        where = ctx.construct(q, f"{segs}.append(<segment>)")
        ctx.check(len(c.args) == 1 and src(c.args[0]) == var, "normalise/appends-own-segment", where, f"something other than the current segment is appended: {src(c)}")
        neq = set(pre_neq)
        notin = set()
        for t, lab in edge_asserts(g, n):
            e = asserted_eq(t, "T" if lab == "F" else "F")      # edge establishes  a != b
            if e:
                for a, b in (e, e[::-1]):
                    if src(a) == var and isinstance(b, ast.Constant):
                        neq.add(b.value)
            i = asserted_in(t, "T" if lab == "F" else "F")     # edge establishes  x not in s
            if i and src(i[1]) == var and isinstance(i[0], ast.Constant):
                notin.add(i[0].value)
            i2 = asserted_in(t, "T" if lab == "F" else "F")
            if i2 and src(i2[0]) == var and isinstance(i2[1], (ast.Tuple, ast.List, ast.Set)):
                neq |= {x.value for x in i2[1].elts if isinstance(x, ast.Constant)}
        ctx.check(".." in neq, "normalise/dotdot-never-appended", where,
                  "a '..' segment can be appended to the result: the shell would be asked for a path above the root")
        ctx.check({".", ""} <= neq, "normalise/empty-and-dot-skipped", where, "'.' or empty segments can be appended (FilePath.child('') / child('.') name the directory itself)")
        ctx.check(split_ok or "/" in notin, "normalise/segments-separator-free", where,
                  "an appended segment can contain '/': a single 'segment' then names a path of several components")
    pops = node_calls(g, lambda c: call_name(c) == segs + ".pop")
    for n, c in pops:
        where = ctx.construct(q, f"{segs}.pop()")
        ctx.check(g.guarded(n, lambda e: src(e) == segs, True) and any((e := asserted_eq(t, lab)) and {src(e[0]), src(e[1])} == {var, "'..'"} for t, lab in edge_asserts(g, n)),
                  "normalise/pop-only-for-dotdot-on-nonempty", where, "the stack is popped for something other than '..' on a non-empty stack")
        ctx.check(not c.args, "normalise/pop-only-for-dotdot-on-nonempty", where + " | last element", "pop() does not remove the last segment")
    ctx.check(bool(pops), "normalise/dotdot-pops", q, "'..' does not remove the previous segment")


def _reference_segments(cwd, path):
    """what toSegments has to compute, written from the clause: ("ok", segments) or ("InvalidPath",)"""
    segs = [] if path.startswith("/") else list(cwd)
    for s in path.split("/"):
        if s in (".", ""):
            continue
        if s == "..":
            if not segs:
                return ("InvalidPath",)
            segs.pop()
        elif "\0" in s:
            return ("InvalidPath",)
        else:
            segs.append(s)
    return ("ok", segs)


def _s_tosegments_evaluated(ctx, S):
    # second layer, independent of how the scan is written: toSegments is interpreted on every path of up to three components drawn from
    # {a, ., .., <empty>, a<NUL>, .a}, absolute and relative, under three working directories, and compared with the clause
    import itertools
    f = ctx.func(FTPM, "toSegments")
    q = QF + ".toSegments"
    cwd_p, path_p = params(f)[:2]
    comps = ["a", ".", "..", "", "a\0", ".a"]
    bad, n = None, 0
    for k in (1, 2, 3):
        for parts in itertools.product(comps, repeat=k):
            for lead in ("", "/"):
                path = lead + "/".join(parts)
                for cwd in ([], ["w"], ["w", "v"]):
                    given = list(cwd)
                    try:
                        got = ("ok", mini_call(f, {cwd_p: given, path_p: path}, budget=3000))
                    except MiniStop as e:
                        raise AnalysisError(f"toSegments not evaluable: {e}")
                    except Exception as e:  # noqa: BLE001 - the interpreted raise
                        got = (str(e),)
                    n += 1
                    want = _reference_segments(cwd, path)
                    if got[0] == "ok" and not isinstance(got[1], list):
                        got = ("ok", got[1])
                    if (got != want or given != cwd) and bad is None:
                        bad = (cwd, path, want, got if given == cwd else ("the caller's working directory list was modified", given))
    ctx.check(bad is None, "normalise/evaluated", q,
              "toSegments(%r, %r) should give %r but gives %r (a '..' / empty / NUL component reaches the shell, or the stack is popped above the root)" % bad if bad else "",
              detail=f"bounded: {n} (cwd, path) pairs - paths of 1..3 components from {{a, ., .., '', a<NUL>, .a}}, absolute and relative, 3 working directories")


def _s_invalid_path(ctx, S):
    cls = ctx.cls(FTPM, "FTP")
    # handlers catch InvalidPath around every toSegments call in FTP
    for mname, m in methods(cls).items():
        for c in ast.walk(m):
            if isinstance(c, ast.Call) and call_name(c) == "toSegments":
                p = getattr(c, "_parent", None)
                tr = None
                while p is not None and p is not m:
                    if isinstance(p, ast.Try) and any(c is x for s in p.body for x in ast.walk(s)):
                        tr = p
                        break
                    p = getattr(p, "_parent", None)
                ok = tr is not None and any(h.type is not None and "InvalidPath" in src(h.type) for h in tr.handlers)
                ctx.check(ok, "protocol/invalid-path-rejected", ctx.construct(f"{QF}.FTP.{mname}", "toSegments(...)"),
                          "InvalidPath from toSegments is not turned into an FTP error reply in this handler")



def _s_path(ctx, S):
    # ================= (2) shells ===============================================================================
    fpth = ctx.func(FTPM, "FTPAnonymousShell._path")
    rets_ = [n for n in walk_local(fpth) if isinstance(n, ast.Return)]
    okp = len(rets_) == 1 and fpth.body[-1] is rets_[0] and rets_[0].value is not None and \
        rsrc(rets_[0].value, local_defs(fpth, track_mutation=False)) == f"self.filesystemRoot.descendant({params(fpth)[1]})" and \
        all((isinstance(s, ast.Expr) and isinstance(s.value, ast.Constant)) or (isinstance(s, ast.Assign) and all(isinstance(t, ast.Name) for t in s.targets)
                                                                                 and not any(isinstance(x, ast.Call) for x in ast.walk(s.value)))
            for s in fpth.body[:-1])
    ctx.check(okp, "shell/_path-is-descendant-of-root", QF + ".FTPAnonymousShell._path",
              "_path is not `return self.filesystemRoot.descendant(segments)`: segments are joined to the root without FilePath.child's containment check")


class _Functools:
    """the one functools name a fold over the segments uses, for the interpreter"""
    _mini_symbolic = True
    reduce = staticmethod(_functools.reduce)


class _SymPath:
    """symbolic FilePath for the evaluation of descendant(): remembers which children were taken through child()"""
    _mini_symbolic = True

    def __init__(self, trail=(), via=()):
        self.trail, self.via = tuple(trail), tuple(via)

    def child(self, name):
        return _SymPath(self.trail + (name,), self.via + ("child",))

    def __getattr__(self, attr):
        if attr.startswith("_mini") or attr in ("trail", "via"):
            raise AttributeError(attr)

        def other(*a, **k):
            return _SymPath(self.trail + (f"<{attr}>",) + tuple(map(str, a)), self.via + (attr,))
        return other


def _s_descendant(ctx, S):
    """descendant() is evaluated, not shape-matched: on a symbolic path and segment lists of length 0..3 the result must be the path reached by
    one child() per segment, in order, starting from self - and by nothing else (no preauthChild / join / skipping)."""
    desc = [x for x in ctx.mod(FPM).find_all("AbstractFilePath.descendant") if isinstance(x, ast.FunctionDef)]
    ctx.need(desc, "AbstractFilePath.descendant")
    fd = desc[0]
    ps = params(fd)
    ctx.need(len(ps) == 2, "descendant(self, segments)")
    bad = None
    try:
        for segs in ([], ["a"], ["a", "b"], ["x", "..", "y"]):
            root = _SymPath()
            for container in (list(segs), tuple(segs)):
                r = mini_call(fd, {ps[0]: root, ps[1]: container}, builtins={"reduce": _functools.reduce, "functools": _Functools()})
                ok = isinstance(r, _SymPath) and r.trail == tuple(segs) and set(r.via) <= {"child"} and (segs or r is root)
                if not ok and bad is None:
                    bad = (segs, getattr(r, "trail", r), getattr(r, "via", ()))
    except MiniStop as e:
        raise AnalysisError(f"descendant() not evaluable: {e}")
    except Exception as e:  # noqa: BLE001 - an interpreted exception escaping descendant() for a plain list of names is itself the finding
        bad = bad or ("<any>", f"raises {type(e).__name__}: {e}", ())
    ctx.check(bad is None, "shell/descendant-evaluated", "twisted.python.filepath.AbstractFilePath.descendant",
              f"descendant() does not apply child() once per segment starting from self: for segments {bad and bad[0]} it yields {bad and bad[1]} via {bad and bad[2]} "
              f"(a segment bypasses FilePath.child's containment check)", detail="bounded: segment lists of length 0..3, as list and as tuple")
    # ---- structural decider (for every segment list): the accumulator starts as self, is only ever rebound to <accumulator>.child(<next segment>), the
    #      segments are consumed one by one in order, and the accumulator is what is returned.  Two loop idioms are recognised.
    gd = ctx.cfg(fd)
    seg_p = ps[1]
    defs = local_defs(fd, track_mutation=False)
    rets = [gd.node(x).ast for x in normal_exits(gd)]
    acc = src(rets[0].value) if rets and all(isinstance(r, ast.Return) and isinstance(r.value, ast.Name) for r in rets) and len({src(r.value) for r in rets}) == 1 else None
    verdict = None          # None = shape not recognised
    if acc is not None:
        adefs = [d for d in defs.get(acc, [])]
        inits = [d for d in adefs if d is not None and not (isinstance(d, ast.Call) and call_attr(d) == "child")]
        steps = [d for d in adefs if d is not None and isinstance(d, ast.Call) and call_attr(d) == "child"]
        fors = [n for n in walk_local(fd) if isinstance(n, ast.For)]
        whiles = [n for n in walk_local(fd) if isinstance(n, ast.While)]
        if len(fors) == 1 and not whiles and src(fors[0].iter) == seg_p and isinstance(fors[0].target, ast.Name) and not fors[0].orelse:
            item = fors[0].target.id
            body = [b for b in fors[0].body if not isinstance(b, ast.Pass)]
            verdict = [src(d) for d in inits] == [ps[0]] and len(steps) == 1 and len(body) == 1 and isinstance(body[0], ast.Assign) and body[0].value is steps[0] and \
                src(steps[0].func.value) == acc and [src(a) for a in steps[0].args] == [item] and not steps[0].keywords
        elif len(whiles) == 1 and not fors and src(whiles[0].test) in ("True", "1"):
            its = [k for k, v in defs.items() if len(v) == 1 and v[0] is not None and isinstance(v[0], ast.Call) and call_name(v[0]) == "iter" and [src(a) for a in v[0].args] == [seg_p]]
            nexts = [(k, v[0]) for k, v in defs.items() if len(v) == 1 and v[0] is not None and isinstance(v[0], ast.Call) and call_name(v[0]) == "next" and len(v[0].args) == 1
                     and its and src(v[0].args[0]) == its[0]]
            if len(its) == 1 and len(nexts) == 1:
                item, nx = nexts[0]
                stop = [h for t in walk_local(whiles[0]) if isinstance(t, ast.Try) and any(x is nx for b in t.body for x in ast.walk(b)) for h in t.handlers
                        if h.type is not None and src(h.type) == "StopIteration"]
                exits_ok = len(stop) == 1 and len(stop[0].body) >= 1 and isinstance(stop[0].body[-1], ast.Return) and src(stop[0].body[-1].value) == acc and \
                    not any(isinstance(x, (ast.Break, ast.Continue)) for x in walk_local(whiles[0]))
                verdict = exits_ok and [src(d) for d in inits] == [ps[0]] and len(steps) == 1 and src(steps[0].func.value) == acc and [src(a) for a in steps[0].args] == [item] \
                    and not steps[0].keywords and any(isinstance(b, ast.Assign) and b.value is steps[0] for b in whiles[0].body)
    if verdict is None and len(rets) == 1 and isinstance(rets[0], ast.Return) and isinstance(rets[0].value, ast.Call) and \
            not any(isinstance(n, (ast.For, ast.While)) for n in walk_local(fd)):
        # third idiom, a fold: return reduce(<step>, <segments>, self) with <step> = lambda a, s: a.child(s) (or a local def saying the same)
        fold = resolve(rets[0].value, defs)
        if isinstance(fold, ast.Call) and call_name(fold) in ("reduce", "functools.reduce") and len(fold.args) == 3 and not fold.keywords:
            step, seq, init = fold.args
            if isinstance(seq, ast.Call) and call_name(seq) in ("iter", "list", "tuple") and len(seq.args) == 1 and not seq.keywords:
                seq = seq.args[0]
            sp, sv = None, None
            if isinstance(step, ast.Lambda):
                sp, sv = [a.arg for a in step.args.args], step.body
            elif isinstance(step, ast.Name):
                ld = [n for n in walk_local(fd) if isinstance(n, ast.FunctionDef) and n is not fd and n.name == step.id]
                body_ = [b for b in ld[0].body if not (isinstance(b, ast.Expr) and isinstance(b.value, ast.Constant))] if len(ld) == 1 else []
                if len(ld) == 1 and not ld[0].decorator_list and len(body_) == 1 and isinstance(body_[0], ast.Return) and body_[0].value is not None and \
                        sum(1 for k, v in defs.items() if k == step.id) <= 1:
                    sp, sv = [a.arg for a in ld[0].args.args], body_[0].value
            if sp is not None and len(sp) == 2:
                verdict = src(seq) == seg_p and src(init) == ps[0] and isinstance(sv, ast.Call) and call_attr(sv) == "child" and not sv.keywords and \
                    src(sv.func.value) == sp[0] and [src(a) for a in sv.args] == [sp[1]]
    if verdict is None:
        ctx.note("shell/descendant-is-child-per-segment: loop shape not recognised, clause left to the bounded rule shell/descendant-evaluated")
    else:
        ctx.check(verdict, "shell/descendant-is-child-per-segment", "twisted.python.filepath.AbstractFilePath.descendant",
                  "descendant() is not `accumulator = self; for each segment in order: accumulator = accumulator.child(segment); return accumulator`: some segment "
                  "reaches the result without FilePath.child's containment check", detail="structural: holds for every segment list")


def _s_path_only(ctx, S):
    for cname in ("FTPAnonymousShell", "FTPShell"):
        scls = ctx.cls(FTPM, cname)
        for mname, m in methods(scls).items():
            for c in ast.walk(m):
                if isinstance(c, ast.Call) and call_attr(c) == "descendant" and not (cname == "FTPAnonymousShell" and mname == "_path"):
                    ctx.violation("shell/_path-is-descendant-of-root", ctx.construct(f"{QF}.{cname}.{mname}", c), "descendant() used outside _path")
        if "_path" in methods(scls) and cname != "FTPAnonymousShell":
            ctx.violation("shell/_path-is-descendant-of-root", f"{QF}.{cname}._path", "the subclass overrides _path")



def _callee(c, defs):
    """Dotted callee of a call; a local alias (``rm = os.rmdir``) is looked through."""
    cn = call_name(c) or ""
    if isinstance(c.func, ast.Name) and c.func.id in defs:
        ds = [d for d in defs[c.func.id]]
        if len(ds) == 1 and dotted(ds[0]):
            return dotted(ds[0])
    return cn


def _confined(m, mname):
    """(parameters, definitions of every local name, names whose every definition derives from self._path(<parameter>))."""
    pr = params(m)
    defs = {}
    # all bindings of local names, including for / comprehension targets (iter expression is the definition)
    for n in ast.walk(m):
        if isinstance(n, ast.Assign):
            for t in n.targets:
                for e in ast.walk(t):
                    if isinstance(e, ast.Name):
                        defs.setdefault(e.id, []).append(n.value)
        elif isinstance(n, (ast.For, ast.comprehension)):
            it = n.iter
            if isinstance(n.target, (ast.Tuple, ast.List)) and isinstance(it, ast.Call) and call_name(it) == "zip" and len(it.args) == len(n.target.elts):
                pairs = list(zip(n.target.elts, it.args))      # for a, b in zip(x, y): a <- x, b <- y
            else:
                pairs = [(n.target, it)]
            for tgt, val in pairs:
                for e in ast.walk(tgt):
                    if isinstance(e, ast.Name):
                        defs.setdefault(e.id, []).append(val)
        elif isinstance(n, ast.withitem) and n.optional_vars is not None:
            for e in ast.walk(n.optional_vars):
                if isinstance(e, ast.Name):
                    defs.setdefault(e.id, []).append(n.context_expr)
        elif isinstance(n, ast.Call) and isinstance(n.func, ast.Attribute) and isinstance(n.func.value, ast.Name) and n.func.attr in ("append", "add", "insert", "extend") and n.args:
            defs.setdefault(n.func.value.id, []).append(n.args[-1])       # container filled element by element: each element is a definition
    # `for a, b in <rows>` where every definition of <rows> is a list of k-tuples (literal rows, a comprehension yielding a tuple, append((..))): each
    # target is defined by its own column, so a foreign file NAME in one column does not taint the FilePath in the other
    def columns(name, k):
        cols = [[] for _ in range(k)]
        ds_ = defs.get(name, [])
        seen_row = False
        for d in ds_:
            rows = None
            par_ = getattr(d, "_parent", None)
            if isinstance(d, ast.Tuple) and isinstance(par_, ast.Call) and call_attr(par_) in ("append", "add", "insert") and d in par_.args:
                rows = [d]          # <rows>.append((a, b)): the argument is one row
            elif isinstance(d, (ast.List, ast.Tuple)) and all(isinstance(e, ast.Tuple) for e in d.elts):
                rows = list(d.elts)
            elif isinstance(d, (ast.ListComp, ast.GeneratorExp)) and isinstance(d.elt, ast.Tuple):
                rows = [d.elt]
            if rows is None or any(len(r.elts) != k for r in rows):
                return None
            for r in rows:
                seen_row = True
                for i_, e in enumerate(r.elts):
                    cols[i_].append(e)
        return cols if seen_row else None
    for n in ast.walk(m):
        if isinstance(n, (ast.For, ast.comprehension)) and isinstance(n.target, (ast.Tuple, ast.List)) and isinstance(n.iter, ast.Name) and \
                all(isinstance(e, ast.Name) for e in n.target.elts):
            cols = columns(n.iter.id, len(n.target.elts))
            if cols is not None:
                for e, col in zip(n.target.elts, cols):
                    defs[e.id] = [d for d in defs.get(e.id, []) if d is not n.iter] + col
    helper = mname.startswith("_stat")   # private helpers receive an already confined FilePath (call sites checked below)
    ok_names = set(pr[1:2]) if helper else set()

    def foreign(e):
        for x in ast.walk(e):
            if isinstance(x, ast.Call) and call_attr(x) in FOREIGN and call_attr(x) != "join":
                return src(x)
            if isinstance(x, ast.Call) and call_name(x) in ("os.path.join", "os.path.abspath", "os.path.normpath", "os.path.realpath"):
                return src(x)
            if isinstance(x, ast.Attribute) and src(x) == "self.filesystemRoot":
                par = getattr(x, "_parent", None)
                if not (isinstance(par, ast.Call) and call_attr(par) == "segmentsFrom" and any(a is x for a in par.args)):
                    return "self.filesystemRoot"
        return None

    def is_path(d):
        return isinstance(d, ast.Call) and call_name(d) == "self._path" and len(d.args) == 1 and isinstance(d.args[0], ast.Name) and d.args[0].id in pr

    def nm(d):
        return {x.id for x in ast.walk(d) if isinstance(x, ast.Name)}

    def neutral(d):
        """an empty container / constant initialisation says nothing about where the elements come from"""
        return (isinstance(d, (ast.List, ast.Tuple, ast.Set)) and not d.elts) or (isinstance(d, ast.Dict) and not d.keys) or isinstance(d, ast.Constant) or \
            (isinstance(d, ast.Call) and call_name(d) in ("list", "set", "dict", "tuple") and not d.args)

    # greatest fixpoint: drop a name as soon as one of its definitions is foreign, mentions a raw parameter, or mentions no confined name
    cand = set(defs) | ok_names
    changed = True
    while changed:
        changed = False
        for name in sorted(cand - ok_names):
            ds_ = [d for d in defs.get(name, []) if not neutral(d)]
            if not ds_ and defs.get(name):
                cand.discard(name)          # only ever bound to empty containers / constants: not a path
                changed = True
                continue
            for d in ds_:
                raw = (set(pr[1:]) & nm(d)) - set(defs)
                if foreign(d) or not (is_path(d) or (nm(d) & cand and not raw)):
                    cand.discard(name)
                    changed = True
                    break
    # ... restricted to names that are reachable from a self._path(<parameter>) definition (no self-supporting cycles)
    reach = set(ok_names) | {n_ for n_ in cand if any(is_path(d) for d in defs.get(n_, []))}
    changed = True
    while changed:
        changed = False
        for n_ in cand - reach:
            if any(nm(d) & reach for d in defs.get(n_, [])):
                reach.add(n_)
                changed = True
    ok_names = cand & reach
    return pr, defs, ok_names


def _s_sinks(ctx, S):
    nsinks = 0
    for cname in ("FTPAnonymousShell", "FTPShell"):
        scls = ctx.cls(FTPM, cname)
        for mname, m in methods(scls).items():
            if mname in ("__init__", "_path"):
                continue
            qm = f"{QF}.{cname}.{mname}"
            ctx.functions.add(f"{FTPM}:{cname}.{mname}")
            pr, defs, ok_names = _confined(m, mname)
            # names that are both parameter and rebound (path = self._path(path)) are ok only after rebinding: treat as ok if they have a def
            for c in ast.walk(m):
                if not isinstance(c, ast.Call):
                    continue
                cn = _callee(c, defs)
                if cn in OS_SINKS:
                    nsinks += 1
                    pa = [a for a in c.args[:2] if not (isinstance(a, ast.Constant))] if cn in ("os.rename", "os.replace", "os.link", "os.symlink", "shutil.move", "shutil.copy") else c.args[:1]
                    for a in pa:
                        ok = isinstance(a, ast.Attribute) and a.attr == "path" and isinstance(a.value, ast.Name) and a.value.id in ok_names
                        ctx.check(ok, "shell/sink-path-from-_path", ctx.construct(qm, f"{cn}(<path>)"),
                                  f"{cn} is applied to {src(a)}, which is not the .path of a FilePath derived from self._path(<segments>): the access is not "
                                  f"confined to the root")
                elif isinstance(c.func, ast.Attribute) and c.func.attr in FP_METHODS and isinstance(c.func.value, ast.Name) and c.func.value.id not in ("self", "os", "defer"):
                    r = c.func.value.id
                    if r not in defs and r not in pr:
                        continue        # module / global object
                    nsinks += 1
                    ctx.check(r in ok_names, "shell/sink-path-from-_path", ctx.construct(qm, f"<path>.{c.func.attr}(...)"),
                              f"{src(c)}: {r} is not (only) derived from self._path(<segments>) - definitions: "
                              f"{[src(d) for d in defs.get(r, [])] or ['<parameter>']}")
                if call_attr(c) in FOREIGN and call_attr(c) != "join" or cn in ("os.path.abspath", "os.path.realpath"):
                    ctx.violation("shell/no-foreign-path-construction", ctx.construct(qm, c),
                                  f"{src(c)} builds a path outside the _path()/child() discipline")
            for x in ast.walk(m):
                if isinstance(x, ast.Attribute) and src(x) == "self.filesystemRoot":
                    par = getattr(x, "_parent", None)
                    ok = isinstance(par, ast.Call) and call_attr(par) == "segmentsFrom" and any(a is x for a in par.args)
                    ctx.check(ok, "shell/root-used-only-by-_path", ctx.construct(qm, "self.filesystemRoot"),
                              "self.filesystemRoot is used directly (not through _path): a path is built without the containment check")
            # helper call sites pass confined values
            for c in ast.walk(m):
                if isinstance(c, ast.Call) and call_name(c) == "self._statNode" and c.args:
                    ctx.check(isinstance(c.args[0], ast.Name) and c.args[0].id in ok_names, "shell/helper-gets-confined-path", ctx.construct(qm, "self._statNode(<path>, keys)"),
                              f"_statNode is given {src(c.args[0])}, not a path derived from self._path()")
            if mname == "_statNode":
                for c in ast.walk(m):
                    if isinstance(c, ast.Call) and isinstance(c.func, ast.Call) and call_name(c.func) == "getattr":
                        ctx.check([src(a) for a in c.args] == [pr[1]], "shell/helper-gets-confined-path", ctx.construct(qm, "getattr(self, '_stat_' + k)(<path>)"),
                                  "the stat helpers are not given _statNode's own (confined) path")
    ctx.floor("shell/sink-path-from-_path", nsinks, 20, "filesystem sinks in the shells")

# ---- footprints: which paths can a primitive touch, relative to its path argument --------------------------
SELF, PAIR, DOWN, UPC, UP, NONE = "{arg}", "{src, dst}", "{arg and its descendants}", "{arg and missing ancestors below an existing root}", \
    "{arg and its ANCESTORS}", "{}"
SIB = "{src, dst and temporary SIBLINGS of src / dst, i.e. entries of their parent directories}"
OS_FOOTPRINT = {
    "os.rmdir": SELF, "os.remove": SELF, "os.unlink": SELF, "os.mkdir": SELF, "os.listdir": SELF, "os.stat": SELF, "os.lstat": SELF, "os.chmod": SELF,
    "os.chown": SELF, "os.utime": SELF, "os.open": SELF, "open": SELF, "os.scandir": SELF, "os.access": SELF, "os.readlink": SELF, "os.truncate": SELF,
    "os.rename": PAIR, "os.replace": PAIR, "os.link": PAIR, "os.symlink": PAIR, "shutil.copy": PAIR, "shutil.copy2": PAIR, "shutil.copyfile": PAIR, "shutil.move": PAIR,
    "os.walk": DOWN, "shutil.rmtree": DOWN, "shutil.copytree": DOWN,
    "os.makedirs": UPC,
    "os.removedirs": UP, "os.renames": UP,          # prune now-empty parents upwards and do not stop at any root
}
OSPATH_QUERIES = {"exists", "lexists", "isdir", "isfile", "islink", "getsize", "getmtime", "getatime", "getctime", "samefile", "ismount"}
OSPATH_PURE = {"join", "dirname", "basename", "split", "splitext", "abspath", "normpath", "realpath", "relpath", "normcase", "isabs", "commonprefix"}
FP_FOOTPRINT = {
    "open": SELF, "create": SELF, "listdir": SELF, "child": SELF, "isdir": SELF, "isfile": SELF, "exists": SELF, "islink": SELF, "restat": SELF, "getsize": SELF,
    "getPermissions": SELF, "getModificationTime": SELF, "getAccessTime": SELF, "getStatusChangeTime": SELF, "getNumberOfHardLinks": SELF, "getUserID": SELF,
    "getGroupID": SELF, "getInodeNumber": SELF, "getDevice": SELF, "touch": SELF, "chmod": SELF, "getContent": SELF, "createDirectory": SELF, "changed": NONE,
    "requireCreate": NONE, "segmentsFrom": NONE, "basename": NONE, "splitext": NONE, "asBytesMode": NONE, "asTextMode": NONE, "isBlockDevice": SELF, "isSocket": SELF,
    "children": DOWN, "walk": DOWN, "remove": DOWN, "globChildren": DOWN,
    "copyTo": PAIR, "linkTo": PAIR,
    "moveTo": SIB,             # os.rename first; on EXDEV copies into destination.temporarySibling() / self.temporarySibling(): when dst is the root, next to the root
    "makedirs": UPC,
    "setContent": UP,          # writes a temporary *sibling*, i.e. into the parent directory of its receiver
}
ALLOWED_FOOTPRINTS = {SELF, PAIR, DOWN, UPC, NONE}
UPWARD_NAVIGATION = {"parent", "parents", "sibling", "siblingExtension", "temporarySibling", "dirname", "realpath"}
FP_MUTATING = {"remove", "makedirs", "createDirectory", "setContent", "moveTo", "copyTo", "touch", "chmod", "linkTo", "open", "create"}


def _s_footprints(ctx, S):
    """A confined *argument* is not enough: the primitive applied to it must not reach above it."""
    unknown = []
    used_fp = {}
    nprim = 0
    for cname in ("FTPAnonymousShell", "FTPShell"):
        scls = ctx.cls(FTPM, cname)
        for mname, m in methods(scls).items():
            if mname in ("__init__", "_path"):
                continue
            qm = f"{QF}.{cname}.{mname}"
            pr, defs, ok_names = _confined(m, mname)

            def confined_arg(a):
                return (isinstance(a, ast.Attribute) and a.attr == "path" and isinstance(a.value, ast.Name) and a.value.id in ok_names) or \
                    (isinstance(a, ast.Name) and a.id in ok_names)
            for c in ast.walk(m):
                if not isinstance(c, ast.Call):
                    continue
                cn = _callee(c, defs)
                args = list(c.args) + [k.value for k in c.keywords]
                is_prim = cn.startswith(("os.", "shutil.")) or cn in OS_FOOTPRINT
                if is_prim and any(confined_arg(a) for a in args):
                    nprim += 1
                    if cn.startswith("os.path."):
                        tail = cn.split(".")[-1]
                        if tail not in OSPATH_QUERIES | OSPATH_PURE:
                            unknown.append(f"{qm}: {src(c)}")
                        continue
                    fp = OS_FOOTPRINT.get(cn)
                    if fp is None:
                        unknown.append(f"{qm}: {src(c)}")
                        continue
                    ctx.check(fp in ALLOWED_FOOTPRINTS, "shell/footprint-within-subtree", ctx.construct(qm, f"{cn}(<confined path>)"),
                              f"{cn} touches {fp}: applied to a path inside the root it goes on to remove / rename the (empty) parent directories and does not stop "
                              f"at the shell's root - e.g. removing the last entry under the root removes the root itself and then its parent")
                elif isinstance(c.func, ast.Attribute) and isinstance(c.func.value, ast.Name) and c.func.value.id in ok_names and (c.func.value.id in defs or c.func.value.id in pr):
                    attr = c.func.attr
                    if attr in UPWARD_NAVIGATION:
                        continue        # reported by shell/no-foreign-path-construction
                    fp = FP_FOOTPRINT.get(attr)
                    if fp is None:
                        if attr not in ("path", "append", "extend", "close", "read", "readline", "seek", "tell", "write"):
                            unknown.append(f"{qm}: {src(c)}")
                        continue
                    nprim += 1
                    used_fp.setdefault(attr, qm)
                    ctx.check(fp in ALLOWED_FOOTPRINTS, "shell/footprint-within-subtree", ctx.construct(qm, f"<confined path>.{attr}(...)"),
                              f"FilePath.{attr} touches {fp}: it writes outside the subtree of the confined path")
                    if fp == PAIR:
                        ctx.check(bool(c.args) and isinstance(c.args[0], ast.Name) and c.args[0].id in ok_names, "shell/footprint-within-subtree",
                                  ctx.construct(qm, f"<confined path>.{attr}(<destination>)"), f"the destination of {attr} is not derived from self._path()")
                # a mutation applied to something reached by going UP from a confined value:  p.parent().remove(), os.rmdir(os.path.dirname(p.path))
                if isinstance(c.func, ast.Attribute) and c.func.attr in FP_MUTATING | set(FP_FOOTPRINT) and not isinstance(c.func.value, ast.Name):
                    inner = [x for x in ast.walk(c.func.value) if isinstance(x, ast.Call) and call_attr(x) in UPWARD_NAVIGATION
                             and any(isinstance(y, ast.Name) and y.id in ok_names for y in ast.walk(x))]
                    if inner:
                        nprim += 1
                        ctx.violation("shell/footprint-within-subtree", ctx.construct(qm, c),
                                      f"{src(c)} operates on {src(inner[0])}: the parent / sibling of a confined path may lie outside the root")
                if is_prim and not cn.startswith("os.path.") and any(isinstance(x, ast.Call) and (call_name(x) in ("os.path.dirname", "dirname") or call_attr(x) in UPWARD_NAVIGATION)
                                                                      and any(isinstance(y, ast.Name) and y.id in ok_names for y in ast.walk(x)) for a in args for x in ast.walk(a)):
                    nprim += 1
                    ctx.violation("shell/footprint-within-subtree", ctx.construct(qm, c), f"{src(c)} is applied to the parent of a confined path, which may lie outside the root")
    # the FilePath methods the shells rely on: their own primitives must not have an upward footprint either
    fpmod = ctx.mod(FPM)
    fpcls = ctx.cls(FPM, "FilePath")
    seen = set()
    todo = sorted(used_fp)
    while todo:
        name = todo.pop()
        if name in seen:
            continue
        seen.add(name)
        r = mro_lookup(fpmod, fpcls, name)
        if not r or not isinstance(r[1], (ast.FunctionDef, ast.AsyncFunctionDef)):
            continue
        body = r[1]
        bad = []
        for c in ast.walk(body):
            if not isinstance(c, ast.Call):
                continue
            cn = call_name(c) or ""
            if OS_FOOTPRINT.get(cn) == UP or cn in ("removedirs", "renames"):
                bad.append(src(c))
            if isinstance(c.func, ast.Attribute) and isinstance(c.func.value, ast.Name) and c.func.value.id == "self" and name in FP_MUTATING | {"remove", "children", "walk"}:
                if c.func.attr not in seen and len(seen) < 40:
                    todo.append(c.func.attr)
            if isinstance(c.func, ast.Attribute) and c.func.attr in FP_MUTATING and name in FP_MUTATING and \
                    any(isinstance(x, ast.Call) and call_attr(x) in UPWARD_NAVIGATION and dotted(x.func) and dotted(x.func).startswith("self.") for x in ast.walk(c.func.value)):
                bad.append(src(c))
            # the classification of the table is cross-checked against the implementation: a mutating method whose footprint is declared to stay inside
            # {arg / src, dst / descendants} must not derive a sibling / parent of itself or of a parameter
            if call_attr(c) in UPWARD_NAVIGATION and FP_FOOTPRINT.get(name) in (SELF, PAIR, DOWN, UPC) and name in FP_MUTATING | {"remove"} and \
                    isinstance(c.func, ast.Attribute) and isinstance(c.func.value, ast.Name) and c.func.value.id in ["self"] + params(body)[1:]:
                bad.append(src(c))
        ctx.check(not bad, "shell/footprint-within-subtree", f"twisted.python.filepath.{r[0].name}.{name}",
                  f"FilePath.{name}, which the FTP shells apply to confined paths, itself reaches upwards: {bad[:2]}")
    ctx.floor("shell/footprint-within-subtree", nprim, 15, "primitives applied to confined paths")
    if unknown:
        raise AnalysisError("filesystem primitive with unknown footprint applied to a confined path: " + "; ".join(unknown[:3]))


def _s_coercion(ctx, S):
    """FilePath.child() checks containment on a string produced by the str<->bytes coercion helpers, while the root that exists on disk is the string the
    FilePath was built with.  The check is only meaningful if those helpers are pure re-encodings: whatever they return is their path argument (or self.path)
    itself, that value .encode()d / .decode()d, or the result of another such helper applied to it - never a rewritten text (normalised, case-folded, stripped,
    replaced ...).  The helpers are discovered by role (what computes the containment base of child(), transitively), not by a list of names."""
    mod = ctx.mod(FPM)
    fpcls = ctx.cls(FPM, "FilePath")
    mod_funcs = {st.name: st for st in mod.tree.body if isinstance(st, ast.FunctionDef)}

    def callees(c, fn):
        """the private helpers a call can reach: the callee itself, or - when what is called is a local (`convert = self._a if .. else self._b; convert()`) -
        every helper that local can stand for; [] when any alternative is not a private helper of this module / class"""
        f_ = c.func
        if isinstance(f_, ast.Name) and f_.id not in mod_funcs and fn is not None:
            out = []
            for v, _, _ in leaf_values(fn, f_):
                if isinstance(v, ast.Name) and v.id == f_.id:
                    return []
                r_ = resolve_callee(ast.Call(func=v, args=[], keywords=[])) if isinstance(v, (ast.Name, ast.Attribute)) else None
                if r_ is None:
                    return []
                out.append(r_)
            return out
        r_ = resolve_callee(c)
        return [r_] if r_ else []

    def resolve_callee(c):
        f_ = c.func
        if isinstance(f_, ast.Name) and f_.id.startswith("_") and f_.id in mod_funcs:
            return f_.id, mod_funcs[f_.id]
        if isinstance(f_, ast.Attribute) and isinstance(f_.value, ast.Name) and f_.value.id == "self" and f_.attr.startswith("_") and not f_.attr.startswith("__"):
            r = mro_lookup(mod, fpcls, f_.attr)
            if r and isinstance(r[1], ast.FunctionDef):
                return f"{r[0].name}.{f_.attr}", r[1]
        return None
    start = mro_lookup(mod, fpcls, "child")
    ctx.need(start and isinstance(start[1], ast.FunctionDef), "FilePath.child")
    # the helpers that produce the CONTAINMENT BASE: in child() the text the new path is compared with (`<new>.startswith(<base>...)`) comes from a private
    # helper applied to self; that helper and everything it calls are the coercion helpers (a join helper such as abspath(joinpath(..)) is not one of them)
    child_fn = start[1]
    bases = [a for c in ast.walk(child_fn) if isinstance(c, ast.Call) and call_attr(c) == "startswith" and c.args for a in c.args[:1]]
    roots = []
    for b in bases:
        for nm_ in [x for x in ast.walk(b) if isinstance(x, ast.Name)]:
            for v, _, _ in leaf_values(child_fn, nm_):
                if isinstance(v, ast.Call):
                    roots.extend(callees(v, child_fn))
    ctx.need(roots, "the containment base of FilePath.child (<new>.startswith(<base>)) computed by a private helper")
    helpers = {q_: f_ for q_, f_ in roots}
    todo = [f_ for _, f_ in roots]
    while todo:
        fn = todo.pop()
        for c in ast.walk(fn):
            if isinstance(c, ast.Call):
                for r in callees(c, fn):
                    if r[0] not in helpers:
                        helpers[r[0]] = r[1]
                        todo.append(r[1])
    ctx.floor("coercion/pure-re-encoding", len(helpers), 3, "coercion helpers reached from FilePath.child")
    for qual, fn in sorted(helpers.items()):
        ps = set(params(fn)) - {"self", "encoding"}
        g = ctx.cfg(fn)

        def is_path(e):
            return (isinstance(e, ast.Name) and e.id in ps) or src(e) == "self.path"

        def pure(e):
            if is_path(e):
                return None
            if isinstance(e, ast.Call) and isinstance(e.func, ast.Attribute) and e.func.attr in ("encode", "decode") and is_path(e.func.value):
                return None
            if isinstance(e, ast.Call) and callees(e, fn) and all(r_[0] in helpers for r_ in callees(e, fn)):
                pos = [a for a in e.args]
                return next((a for a in pos if not (is_path(a) or isinstance(a, ast.Constant) or src(a) == "encoding")), None)
            return e
        nret = 0
        for x in normal_exits(g):
            st = g.node(x).ast
            if not (isinstance(st, ast.Return) and st.value is not None):
                continue
            for v, _, _ in leaf_values(fn, st.value):
                nret += 1
                bad = pure(v)
                ctx.check(bad is None, "coercion/pure-re-encoding", ctx.construct("twisted.python.filepath." + qual, "return <coerced path>"),
                          f"the coercion helper returns {src(bad) if bad is not None else ''}: not its path argument, that argument encoded / decoded, or another coercion helper applied "
                          f"to it.  FilePath.child() then validates containment on a rewritten spelling of the root while the directory on disk keeps the original one: every FTP "
                          f"path is resolved below a different (sibling) directory than the shell's root")
        ctx.check(nret > 0, "coercion/pure-re-encoding", "twisted.python.filepath." + qual, "the coercion helper returns nothing")


def _s_body(ctx, S):
    why = "path normalisation / containment is performed by this body on every command; a memoising or wrapping decorator can hand back a path computed for another call"
    body_always_entered(ctx, FTPM, ["toSegments", "FTPAnonymousShell._path"], "anchor/body-entered-on-every-call", "twisted.protocols.ftp", why)
    body_always_entered(ctx, FPM, ["AbstractFilePath.descendant"], "anchor/body-entered-on-every-call", "twisted.python.filepath", why)


def check(ctx):
    normalise(ctx, {FTPM: ["_path", "_statNode", "_encodeName", "_isGlobbingExpression"], FPM: []},
              scopes={FTPM: ["FTP", "FTPAnonymousShell", "FTPShell", "toSegments"], FPM: ["AbstractFilePath.descendant"]})
    run_sections(ctx, [("protocol", _s_protocol), ("working-directory", _s_cwd), ("toSegments", _s_tosegments), ("toSegments-evaluated", _s_tosegments_evaluated), ("invalid-path", _s_invalid_path), ("_path", _s_path),
                       ("descendant", _s_descendant), ("_path-only", _s_path_only), ("shell-sinks", _s_sinks), ("shell-footprints", _s_footprints), ("path-coercion", _s_coercion), ("body-entered", _s_body)])


_F = FTPM
MUTANTS = [
    Mutant("shell-joins-root-path", _F, "        p = self._path(path)\n        if p.isdir():\n            # Normally, we would only check for EISDIR in open, but win32\n            # returns EACCES in this case, so we check before\n            return defer.fail(IsADirectoryError(path))\n        try:\n            fObj = p.open(\"w\")",
           "        p = self._path(path)\n        if p.isdir():\n            return defer.fail(IsADirectoryError(path))\n        try:\n            fObj = open(os.path.join(self.filesystemRoot.path, *path), \"wb\")",
           expect_rule="shell/"),
    Mutant("raw-argument-to-shell", _F, "            newsegs = toSegments(self.workingDirectory, path)\n        except InvalidPath:\n            return defer.fail(FileNotFoundError(path))\n        return self.shell.removeFile(newsegs)",
           "            newsegs = toSegments(self.workingDirectory, path)\n        except InvalidPath:\n            return defer.fail(FileNotFoundError(path))\n        return self.shell.removeFile(path.split(\"/\"))",
           expect_rule="protocol/shell-gets-normalised-segments"),
    Mutant("dotdot-falls-through-when-empty", _F, "            if segs:\n                segs.pop()\n            else:\n                raise InvalidPath(cwd, path)\n        elif \"\\0\" in s",
           "            if segs:\n                segs.pop()\n                continue\n        if \"\\0\" in s", expect_rule="normalise/dotdot-never-appended"),
    Mutant("preauthChild-in-shell", _F, "    def removeFile(self, path):\n        p = self._path(path)", "    def removeFile(self, path):\n        p = self.filesystemRoot.preauthChild(\"/\".join(path))",
           expect_rule="shell/"),
    Mutant("cwd-from-raw-path", _F, "        def accessGranted(result):\n            self.workingDirectory = segments", "        def accessGranted(result):\n            self.workingDirectory = path.split(\"/\")",
           expect_rule="protocol/working-directory-normalised"),
    Mutant("rename-target-unnormalised", _F, "            tosegs = toSegments(self.workingDirectory, toName)\n", "            tosegs = fromsegs[:-1] + [toName]\n", expect_rule="protocol/shell-gets-normalised-segments"),
    Mutant("rename-uses-raw-target", _F, "        fp = self._path(fromPath)\n        tp = self._path(toPath)\n        try:\n            os.rename(fp.path, tp.path)",
           "        fp = self._path(fromPath)\n        tp = self._path(toPath)\n        try:\n            os.rename(fp.path, os.path.join(fp.parent().path, toPath[-1]))", expect_rule="shell/"),
    Mutant("split-on-whitespace-keeps-slash", _F, "    for s in path.split(\"/\"):\n        if s == \".\" or s == \"\":\n            continue\n        elif s == \"..\":\n            if segs:\n                segs.pop()\n            else:\n                raise InvalidPath(cwd, path)\n        elif \"\\0\" in s or \"/\" in s:",
           "    for s in path.split():\n        if s == \".\" or s == \"\":\n            continue\n        elif s == \"..\":\n            if segs:\n                segs.pop()\n            else:\n                raise InvalidPath(cwd, path)\n        elif \"\\0\" in s:",
           expect_rule="normalise/segments-separator-free"),
    Mutant("descendant-joins-tail", FPM, "        path: AbstractFilePath[OtherAnyStr] = self  # type:ignore[assignment]\n        for name in segments:\n            path = path.child(name)\n        return path",
           "        path: AbstractFilePath[OtherAnyStr] = self  # type:ignore[assignment]\n        for name in segments[:1]:\n            path = path.child(name)\n        return path.preauthChild(\"/\".join(segments[1:])) if segments[1:] else path",
           expect_rule="shell/descendant-"),
    Mutant("rmd-prunes-empty-parents", _F, "            os.rmdir(p.path)\n", "            os.removedirs(p.path)\n", expect_rule="shell/footprint-within-subtree"),
    Mutant("rename-prunes-and-creates-parents", _F, "            os.rename(fp.path, tp.path)", "            os.renames(fp.path, tp.path)", expect_rule="shell/footprint-within-subtree"),
    Mutant("rmd-also-removes-parent-when-empty", _F, "        try:\n            os.rmdir(p.path)\n        except OSError as e:",
           "        try:\n            os.rmdir(p.path)\n            if not p.parent().listdir():\n                p.parent().remove()\n        except OSError as e:", expect_rule="shell/"),
    Mutant("dele-through-dirname", _F, "        try:\n            p.remove()\n        except OSError as e:", "        try:\n            p.remove()\n            os.rmdir(os.path.dirname(p.path))\n        except OSError as e:",
           expect_rule="shell/"),
    Mutant("stor-through-setContent-sibling", _F, "            fObj = p.open(\"w\")\n", "            p.setContent(b\"\")\n            fObj = p.open(\"w\")\n", expect_rule="shell/footprint-within-subtree"),
    Mutant("rename-with-cross-device-fallback", _F, "            os.rename(fp.path, tp.path)", "            fp.moveTo(tp)", expect_rule="shell/footprint-within-subtree"),
    Mutant("coercion-case-folds-text-paths", FPM, "    if isinstance(path, str):\n        return path\n    else:\n        if encoding is None:", "    if isinstance(path, str):\n        return path.casefold()\n    else:\n        if encoding is None:",
           expect_rule="coercion/pure-re-encoding"),
    Mutant("coercion-strips-trailing-separator", FPM, "        return path.encode(encoding, errors=\"surrogateescape\")", "        return path.rstrip(\"/\").encode(encoding, errors=\"surrogateescape\")",
           expect_rule="coercion/pure-re-encoding"),
    Mutant("list-stats-from-root", _F, "            fileEntries = [filePath.child(p) for p in entries]", "            fileEntries = [self.filesystemRoot.preauthChild(os.path.join(*path, p)) for p in entries]", expect_rule="shell/"),
    # ---- round-3 shapes: list() over (name, node) rows, descendant() as a fold, toSegments as a hand-written scanner
    Mutant("list-rows-node-column-built-from-the-raw-name", FTPM, '            entries = filePath.listdir()\n            fileEntries = [filePath.child(p) for p in entries]\n        elif filePath.isfile():\n            entries = [os.path.join(*filePath.segmentsFrom(self.filesystemRoot))]\n            fileEntries = [filePath]\n        else:\n            return defer.fail(FileNotFoundError(path))\n\n        results = []\n        for fileName, filePath in zip(entries, fileEntries):\n', '            rows = []\n            for p in filePath.listdir():\n                rows.append((p, self.filesystemRoot.preauthChild(p)))\n        elif filePath.isfile():\n            rows = [(os.path.join(*filePath.segmentsFrom(self.filesystemRoot)), filePath)]\n        else:\n            return defer.fail(FileNotFoundError(path))\n\n        results = []\n        for fileName, filePath in rows:\n', expect_rule="shell/helper-gets-confined-path"),
    Mutant("descendant-fold-steps-with-preauthChild", FPM, '        for name in segments:\n            path = path.child(name)\n        return path\n', '        return functools.reduce(lambda above, name: above.preauthChild(name), segments, path)\n', expect_rule="shell/descendant-is-child-per-segment"),
    Mutant("scanner-keeps-dot-components", FTPM, '    for s in path.split("/"):\n        if s == "." or s == "":\n            continue\n        elif s == "..":\n            if segs:\n                segs.pop()\n            else:\n                raise InvalidPath(cwd, path)\n        elif "\\0" in s or "/" in s:\n            raise InvalidPath(cwd, path)\n        else:\n            segs.append(s)\n    return segs\n', '    rest = path\n    while rest is not None:\n        s, sep, tail = rest.partition("/")\n        rest = tail if sep else None\n        if s == "..":\n            if not segs:\n                raise InvalidPath(cwd, path)\n            segs.pop()\n        elif "\\0" in s:\n            raise InvalidPath(cwd, path)\n        elif s not in ("",):\n            segs.append(s)\n    return segs\n', expect_rule="normalise/evaluated"),
    Mutant("scanner-ignores-dotdot-at-the-root", FTPM, '    for s in path.split("/"):\n        if s == "." or s == "":\n            continue\n        elif s == "..":\n            if segs:\n                segs.pop()\n            else:\n                raise InvalidPath(cwd, path)\n        elif "\\0" in s or "/" in s:\n            raise InvalidPath(cwd, path)\n        else:\n            segs.append(s)\n    return segs\n', '    rest = path\n    while rest is not None:\n        s, sep, tail = rest.partition("/")\n        rest = tail if sep else None\n        if s == "..":\n            if False:\n                raise InvalidPath(cwd, path)\n            if segs:\n                segs.pop()\n        elif "\\0" in s:\n            raise InvalidPath(cwd, path)\n        elif s not in (".", ""):\n            segs.append(s)\n    return segs\n',
           expect_rule="normalise/evaluated"),
    # ---- the coercion chosen through a local that stands for one of the helpers
    Mutant("dispatcher-through-a-local-case-folds-the-result", FPM, '        if isinstance(pattern, bytes):\n            return self._asBytesPath()\n        else:\n            return self._asTextPath()\n', '        spelling = self._asTextPath\n        if isinstance(pattern, bytes):\n            spelling = self._asBytesPath\n        return spelling().lower()\n', expect_rule="coercion/pure-re-encoding"),
]
SILENT = [
    Silent("rename-segments-variable", _F, "            newsegs = toSegments(self.workingDirectory, path)\n        except InvalidPath:\n            return defer.fail(FileNotFoundError(path))\n        return self.shell.removeFile(newsegs)",
           "            target = toSegments(self.workingDirectory, path)\n        except InvalidPath:\n            return defer.fail(FileNotFoundError(path))\n        return self.shell.removeFile(target)"),
    Silent("dot-test-as-membership", _F, "        if s == \".\" or s == \"\":\n            continue\n        elif s == \"..\":", "        if s in (\".\", \"\"):\n            continue\n        elif s == \"..\":"),
    Silent("shell-local-renamed", _F, "    def removeFile(self, path):\n        p = self._path(path)\n        if p.isdir():", "    def removeFile(self, path):\n        target = self._path(path)\n        p = target\n        if p.isdir():"),
    Silent("rmdir-through-local-alias", _F, "        try:\n            os.rmdir(p.path)\n        except OSError as e:", "        rmdir = os.rmdir\n        try:\n            rmdir(p.path)\n        except OSError as e:"),
    Silent("dele-with-os-remove", _F, "        try:\n            p.remove()\n        except OSError as e:", "        try:\n            os.remove(p.path)\n        except OSError as e:"),
    Silent("mkd-with-os-makedirs", _F, "        try:\n            p.makedirs()\n        except OSError as e:", "        try:\n            os.makedirs(p.path)\n        except OSError as e:"),
    Silent("descendant-with-explicit-iterator", FPM, "        for name in segments:\n            path = path.child(name)\n        return path",
           "        pending = iter(segments)\n        while True:\n            try:\n                name = next(pending)\n            except StopIteration:\n                return path\n            path = path.child(name)"),
    Silent("coercion-decodes-into-a-local-first", FPM, "        if encoding is None:\n            encoding = sys.getfilesystemencoding()\n        return path.decode(encoding, errors=\"surrogateescape\")",
           "        if encoding is None:\n            encoding = sys.getfilesystemencoding()\n        text = path.decode(encoding, errors=\"surrogateescape\")\n        return text"),
    Silent("rename-segments-by-comprehension", _F, "            fromsegs = toSegments(self.workingDirectory, fromName)\n            tosegs = toSegments(self.workingDirectory, toName)\n",
           "            fromsegs, tosegs = [toSegments(self.workingDirectory, each) for each in (fromName, toName)]\n"),
    Silent("shell-boilerplate-in-one-varargs-helper", _F,
           "        try:\n            os.rmdir(p.path)\n        except OSError as e:\n            return errnoToFailure(e.errno, path)\n        except BaseException:\n            return defer.fail()\n        else:\n            return defer.succeed(None)\n\n    def removeFile",
           "        return self._guarded(path, os.rmdir, p.path)\n\n    def _guarded(self, path, operation, *args):\n        try:\n            outcome = operation(*args)\n        except OSError as e:\n            return errnoToFailure(e.errno, path)\n        except BaseException:\n            return defer.fail()\n        return defer.succeed(outcome)\n\n    def removeFile"),
    Silent("toSegments-filters-components-up-front", _F, "    for s in path.split(\"/\"):\n        if s == \".\" or s == \"\":\n            continue\n        elif s == \"..\":", "    for s in [part for part in path.split(\"/\") if part and part != \".\"]:\n        if s == \"..\":"),
    Silent("cwd-copied-with-list", _F, "        segs = cwd[:]\n", "        segs = list(cwd)\n"),
    Silent("toSegments-guard-clauses-and-temporaries", _F,
           "    if path.startswith(\"/\"):\n        segs = []\n    else:\n        segs = cwd[:]\n\n    for s in path.split(\"/\"):\n        if s == \".\" or s == \"\":\n            continue\n        elif s == \"..\":\n            if segs:\n                segs.pop()\n            else:\n                raise InvalidPath(cwd, path)\n        elif \"\\0\" in s or \"/\" in s:\n            raise InvalidPath(cwd, path)\n        else:\n            segs.append(s)\n    return segs\n",
           "    absolute = path.startswith(\"/\")\n    segs = [] if absolute else list(cwd)\n    components = path.split(\"/\")\n    for s in components:\n        if s in (\".\", \"\"):\n            continue\n        goesUp = s == \"..\"\n        if goesUp:\n            if not segs:\n                raise InvalidPath(cwd, path)\n            segs.pop()\n            continue\n        if \"\\0\" in s or \"/\" in s:\n            raise InvalidPath(cwd, path)\n        segs.append(s)\n    return segs\n"),
    Silent("segments-through-private-helper", _F, "            newsegs = toSegments(self.workingDirectory, path)\n        except InvalidPath:\n            return defer.fail(FileNotFoundError(path))\n        return self.shell.removeFile(newsegs)",
           "            newsegs = self._segmentsOf(path)\n        except InvalidPath:\n            return defer.fail(FileNotFoundError(path))\n        return self.shell.removeFile(newsegs)",
           more=[(_F, "    def ftp_RNFR(self, fromName):", "    def _segmentsOf(self, path):\n        return toSegments(self.workingDirectory, path)\n\n    def ftp_RNFR(self, fromName):")]),
    Silent("shell-operation-through-shared-helper", _F,
           "        p = self._path(path)\n        if p.isfile():\n            # Win32 returns the wrong errno when rmdir is called on a file\n            # instead of a directory, so as we have the info here, let's fail\n            # early with a pertinent error\n            return defer.fail(IsNotADirectoryError(path))\n        try:\n            os.rmdir(p.path)\n        except OSError as e:\n            return errnoToFailure(e.errno, path)\n        except BaseException:\n            return defer.fail()\n        else:\n            return defer.succeed(None)\n",
           "        target = self._path(path)\n        isFile = target.isfile()\n        if isFile:\n            return defer.fail(IsNotADirectoryError(path))\n        return self._attempt(os.rmdir, target, path)\n\n    def _attempt(self, operation, target, path):\n        try:\n            operation(target.path)\n        except OSError as e:\n            return errnoToFailure(e.errno, path)\n        except BaseException:\n            return defer.fail()\n        return defer.succeed(None)\n"),
    Silent("root-in-a-temporary", _F, "        return self.filesystemRoot.descendant(path)", "        root = self.filesystemRoot\n        return root.descendant(path)"),
    Silent("listing-built-by-a-loop", _F, "            fileEntries = [filePath.child(p) for p in entries]", "            fileEntries = []\n            for p in entries:\n                fileEntries.append(filePath.child(p))"),
    Silent("cwd-callback-as-private-method", _F, "        def accessGranted(result):\n            self.workingDirectory = segments\n            return (REQ_FILE_ACTN_COMPLETED_OK,)\n\n        return self.shell.access(segments).addCallback(accessGranted)",
           "        return self.shell.access(segments).addCallback(self._cwdGranted, segments)",
           more=[(_F, "    def ftp_CDUP(self):", "    def _cwdGranted(self, result, segments):\n        self.workingDirectory = segments\n        return (REQ_FILE_ACTN_COMPLETED_OK,)\n\n    def ftp_CDUP(self):")]),
    Silent("list-over-name-node-rows", FTPM, '            entries = filePath.listdir()\n            fileEntries = [filePath.child(p) for p in entries]\n        elif filePath.isfile():\n            entries = [os.path.join(*filePath.segmentsFrom(self.filesystemRoot))]\n            fileEntries = [filePath]\n        else:\n            return defer.fail(FileNotFoundError(path))\n\n        results = []\n        for fileName, filePath in zip(entries, fileEntries):\n', '            rows = []\n            for p in filePath.listdir():\n                rows.append((p, filePath.child(p)))\n        elif filePath.isfile():\n            rows = [(os.path.join(*filePath.segmentsFrom(self.filesystemRoot)), filePath)]\n        else:\n            return defer.fail(FileNotFoundError(path))\n\n        results = []\n        for fileName, filePath in rows:\n'),
    Silent("descendant-as-a-fold", FPM, '        for name in segments:\n            path = path.child(name)\n        return path\n', '        return functools.reduce(lambda above, name: above.child(name), segments, path)\n', more=[(FPM, "import errno\n", "import errno\nimport functools\n")]),
    Silent("toSegments-as-a-partition-scanner", FTPM, '    for s in path.split("/"):\n        if s == "." or s == "":\n            continue\n        elif s == "..":\n            if segs:\n                segs.pop()\n            else:\n                raise InvalidPath(cwd, path)\n        elif "\\0" in s or "/" in s:\n            raise InvalidPath(cwd, path)\n        else:\n            segs.append(s)\n    return segs\n', '    rest = path\n    while rest is not None:\n        s, sep, tail = rest.partition("/")\n        rest = tail if sep else None\n        if s == "..":\n            if not segs:\n                raise InvalidPath(cwd, path)\n            segs.pop()\n        elif "\\0" in s:\n            raise InvalidPath(cwd, path)\n        elif s not in (".", ""):\n            segs.append(s)\n    return segs\n'),
    Silent("coercion-helper-chosen-through-a-local", FPM, '        if isinstance(pattern, bytes):\n            return self._asBytesPath()\n        else:\n            return self._asTextPath()\n', '        spelling = self._asTextPath\n        if isinstance(pattern, bytes):\n            spelling = self._asBytesPath\n        return spelling()\n'),
]
