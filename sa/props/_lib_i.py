"""Helpers shared by the codec / quoting properties C40-C46 (batch I).

* ``peval``      - whitelisted *pure* expression evaluator (superset of sa.astx.const_eval: str/bytes
                   methods, comprehensions, %-formatting, f-string format specs, modelled helper functions).
                   It never calls repository code: names must be bound in ``env`` or in ``funcs`` (python
                   models written here, e.g. twisted.python.compat.iterbytes).
* ``eval_block`` - evaluates a loop-free statement block (Assign / If / sink calls / Return) for one concrete
                   environment: the per-unit transfer function of an encoder loop body, decided over a finite
                   domain (all 256 byte values, all short strings over a small alphabet).
* small AST helpers (``guard_holds``, ``func_env``, ``assigned_names`` ...).
"""
from __future__ import annotations

import ast
import base64
import binascii
import collections
import contextlib
import functools
import io
import itertools
import re
import struct
import textwrap
import urllib.parse
from typing import Callable, Dict, Iterable, List, Optional, Sequence, Tuple

from sa.astx import dotted, src, walk_local
from sa.source import AnalysisError


@contextlib.contextmanager
def sect(ctx, name: str):
    """``with sect(ctx, "reader"):`` - ctx.section plus: a rule group that needs a value an earlier, unreadable group
    did not produce is recorded as skipped (analysis error), never a crash and never a verdict."""
    with ctx.section(name):
        try:
            yield
        except NameError as e:   # includes UnboundLocalError
            raise AnalysisError(f"skipped: depends on a rule group that could not be read ({e})")


class Model:
    """Base class of python stand-ins built by a checker (e.g. a fake regex match object); peval may call their methods."""


class NotPure(Exception):
    """Expression outside the whitelisted pure subset (or a name is unbound)."""


class Raised(Exception):
    """The evaluated (pure) expression itself raises in Python (e.g. int(b'zz', 16))."""

    def __init__(self, exc):
        super().__init__(repr(exc))
        self.exc = exc


# ---- python models of twisted.python.compat helpers (semantics fixed by their docstrings) -------------

def _m_iterbytes(b):
    return [b[i:i + 1] for i in range(len(b))]


def _m_networkString(s):
    if not isinstance(s, str):
        raise TypeError("Can only convert strings to bytes")
    return s.encode("ascii")


def _m_nativeString(s):
    if isinstance(s, bytes):
        return s.decode("ascii")
    s.encode("ascii")
    return s


def _m_matchingString(c, i):
    if isinstance(c, bytes) and isinstance(i, str):
        return c.decode("ascii")
    if isinstance(c, str) and isinstance(i, bytes):
        return c.encode("ascii")
    return c


def _m_qualname(o):
    return (getattr(o, "__module__", "") + "." if getattr(o, "__module__", None) else "") + getattr(o, "__qualname__", repr(o))


COMPAT = {"iterbytes": _m_iterbytes, "networkString": _m_networkString, "nativeString": _m_nativeString,
          "_matchingString": _m_matchingString, "fullyQualifiedName": _m_qualname, "qual": _m_qualname}

_BUILTINS = {"len": len, "chr": chr, "ord": ord, "bytes": bytes, "bytearray": bytearray, "range": range,
             "frozenset": frozenset, "set": set, "tuple": tuple, "list": list, "dict": dict, "str": str, "int": int,
             "min": min, "max": max, "sorted": sorted, "abs": abs, "bool": bool, "enumerate": enumerate, "zip": zip,
             "reversed": reversed, "divmod": divmod, "hex": hex, "isinstance": isinstance, "repr": repr, "sum": sum,
             "any": any, "all": all, "float": float, "iter": iter, "next": next, "type": type, "filter": filter, "memoryview": memoryview, "object": object}
_TYPE_NAMES = {"bytes": bytes, "str": str, "int": int, "list": list, "tuple": tuple, "float": float, "bytearray": bytearray,
               "dict": dict, "set": set}
_PURE_METHODS = {"startswith", "endswith", "replace", "strip", "lstrip", "rstrip", "find", "rfind", "index", "count", "join",
                 "encode", "decode", "lower", "upper", "split", "rsplit", "splitlines", "isdigit", "isalpha", "isalnum",
                 "isspace", "get", "items", "keys", "values", "partition", "rpartition", "hex", "zfill", "title",
                 "union", "difference", "intersection", "issubset", "issuperset", "copy", "format", "translate",
                 "to_bytes", "bit_length", "removeprefix", "removesuffix", "ljust", "rjust", "center", "expandtabs", "isupper", "islower", "capitalize"}
# codecs whose behaviour is *under test* must not be evaluated by borrowing the running interpreter's
# codecs implemented by the repository itself are never borrowed from the running interpreter (stdlib codecs are)
_FORBIDDEN_CODECS = {"imap4-utf-7", "imap4_utf_7", "xtext"}

# stdlib functions whose documented semantics the evaluator delegates to CPython (never repository code)
STDLIB = {"re.compile": re.compile, "re.escape": re.escape, "re.sub": re.sub, "re.subn": re.subn, "re.match": re.match, "re.search": re.search,
          "re.fullmatch": re.fullmatch, "re.split": re.split, "re.findall": re.findall, "re.finditer": re.finditer,
          "struct.pack": struct.pack, "struct.unpack": struct.unpack, "struct.calcsize": struct.calcsize, "struct.Struct": struct.Struct,
          "textwrap.wrap": textwrap.wrap, "textwrap.fill": textwrap.fill, "textwrap.TextWrapper": textwrap.TextWrapper,
          "urllib.parse.quote": urllib.parse.quote, "urllib.parse.unquote": urllib.parse.unquote, "urllib.parse.unquote_to_bytes": urllib.parse.unquote_to_bytes,
          "urllib.parse.quote_from_bytes": urllib.parse.quote_from_bytes, "collections.deque": collections.deque, "io.BytesIO": io.BytesIO,
          "dict.fromkeys": dict.fromkeys, "bytes.fromhex": bytes.fromhex, "bytes.maketrans": bytes.maketrans, "str.maketrans": str.maketrans, "int.from_bytes": int.from_bytes,
          "functools.reduce": functools.reduce, "itertools.groupby": itertools.groupby, "itertools.chain": itertools.chain,
          "itertools.chain.from_iterable": itertools.chain.from_iterable, "itertools.repeat": itertools.repeat, "itertools.zip_longest": itertools.zip_longest,
          "itertools.accumulate": itertools.accumulate, "itertools.starmap": itertools.starmap, "itertools.product": itertools.product,
          "itertools.takewhile": itertools.takewhile, "itertools.dropwhile": itertools.dropwhile, "itertools.islice": itertools.islice,
          "binascii.b2a_base64": binascii.b2a_base64, "binascii.a2b_base64": binascii.a2b_base64,
          "base64.b64encode": base64.b64encode, "base64.b64decode": base64.b64decode, "base64.encodebytes": base64.encodebytes, "base64.decodebytes": base64.decodebytes,
          "base64.standard_b64encode": base64.standard_b64encode, "base64.standard_b64decode": base64.standard_b64decode,
          "base64.urlsafe_b64encode": base64.urlsafe_b64encode, "base64.urlsafe_b64decode": base64.urlsafe_b64decode, "base64.b32encode": base64.b32encode,
          "base64.b16encode": base64.b16encode, "binascii.hexlify": binascii.hexlify, "binascii.unhexlify": binascii.unhexlify, "binascii.b2a_hex": binascii.b2a_hex,
          "binascii.a2b_hex": binascii.a2b_hex, "binascii.b2a_qp": binascii.b2a_qp, "binascii.crc32": binascii.crc32}
def _stdlib_codec(fn):
    import codecs as _codecs

    def call(obj, encoding="utf-8", errors="strict"):
        if not isinstance(encoding, str) or encoding.lower().replace("_", "-") in {c.replace("_", "-") for c in _FORBIDDEN_CODECS}:
            raise NotPure("codec under test: " + str(encoding))
        return getattr(_codecs, fn)(obj, encoding, errors)
    return call


STDLIB["codecs.encode"] = _stdlib_codec("encode")
STDLIB["codecs.decode"] = _stdlib_codec("decode")
_RE_FLAGS = {"re." + n: getattr(re, n) for n in ("I", "IGNORECASE", "M", "MULTILINE", "S", "DOTALL", "X", "VERBOSE", "A", "ASCII")}
_OBJECT_METHODS = {re.Pattern: {"sub", "subn", "match", "search", "fullmatch", "split", "findall", "finditer"},
                   re.Match: {"group", "groups", "start", "end", "span", "groupdict", "expand"},
                   struct.Struct: {"pack", "unpack", "unpack_from"},
                   textwrap.TextWrapper: {"wrap", "fill"},
                   io.BytesIO: {"write", "getvalue", "tell"},
                   memoryview: {"tobytes", "cast", "tolist", "hex"},
                   list: {"append", "extend"},            # local work-lists of the evaluated block (e.g. `parts.append` handed on as a write sink)
                   bytearray: {"append", "extend"},
                   dict: {"setdefault", "pop", "update", "clear", "popitem"},      # tables of the evaluated object (e.g. a reference table filled with setdefault)
                   collections.deque: {"append", "appendleft", "pop", "popleft", "extend", "clear", "copy", "index", "count"}}


def import_env(mod) -> Dict[str, object]:
    """Names a module binds by importing whitelisted stdlib callables (``from urllib.parse import unquote_to_bytes``,
    ``from collections import deque as dq``): name -> the CPython callable.  Anything not in STDLIB stays unbound."""
    out: Dict[str, object] = {}
    for st in ast.walk(mod.tree):
        if isinstance(st, ast.ImportFrom) and st.module and st.level == 0:
            for a in st.names:
                full = f"{st.module}.{a.name}"
                if full in STDLIB:
                    out[a.asname or a.name] = STDLIB[full]
    return out


def peval(node: ast.AST, env: Optional[Dict[str, object]] = None, funcs: Optional[Dict[str, Callable]] = None):
    """Evaluate a pure expression.  Raises NotPure (not evaluable) or Raised (evaluation raises)."""
    env = env if env is not None else {}
    funcs = funcs if funcs is not None else COMPAT
    ev = lambda n: peval(n, env, funcs)  # noqa: E731
    if isinstance(node, ast.Constant):
        return node.value
    if isinstance(node, ast.Name):
        if node.id in env:
            return env[node.id]
        if node.id in _TYPE_NAMES:
            return _TYPE_NAMES[node.id]
        if node.id in funcs:
            return funcs[node.id]
        if node.id in _BUILTINS:
            return _BUILTINS[node.id]
        raise NotPure("unbound name " + node.id)
    if isinstance(node, ast.Attribute):
        d = dotted(node)
        if d is not None and d in env:
            return env[d]
        if d in _RE_FLAGS:
            return _RE_FLAGS[d]
        if d is not None and d in STDLIB and d not in funcs:
            return STDLIB[d]
        try:
            base0 = peval(node.value, env, funcs) if isinstance(node.value, (ast.Name, ast.Attribute)) else None
        except NotPure:
            base0 = None
        if isinstance(base0, Model):
            return _guard(lambda: getattr(base0, node.attr))
        for typ, allowed in _OBJECT_METHODS.items():
            if isinstance(base0, typ) and node.attr in allowed:
                return getattr(base0, node.attr)
        if node.attr in ("size", "pattern", "flags"):
            try:
                base = peval(node.value, env, funcs)
            except NotPure:
                base = None
            if isinstance(base, (struct.Struct, re.Pattern)):
                return getattr(base, node.attr)
        raise NotPure("attribute " + src(node))
    if isinstance(node, ast.Tuple):
        return tuple(_elts(node.elts, ev))
    if isinstance(node, ast.List):
        return list(_elts(node.elts, ev))
    if isinstance(node, ast.Set):
        return set(_elts(node.elts, ev))
    if isinstance(node, ast.Dict):
        out = {}
        for k, v in zip(node.keys, node.values):
            if k is None:
                out.update(ev(v))
            else:
                out[ev(k)] = ev(v)
        return out
    if isinstance(node, ast.UnaryOp):
        v = ev(node.operand)
        return _guard(lambda: {ast.USub: lambda: -v, ast.UAdd: lambda: +v, ast.Not: lambda: not v, ast.Invert: lambda: ~v}[type(node.op)]())
    if isinstance(node, ast.BinOp):
        a, b = ev(node.left), ev(node.right)
        ops = {ast.Add: lambda: a + b, ast.Sub: lambda: a - b, ast.Mult: lambda: a * b if _small(a, b) else _np("mult"),
               ast.Mod: lambda: a % b, ast.Pow: lambda: a ** b if (isinstance(b, int) and abs(b) < 4096) else _np("pow"),
               ast.FloorDiv: lambda: a // b, ast.Div: lambda: a / b, ast.LShift: lambda: a << b if (isinstance(b, int) and b < 4096) else _np("shift"),
               ast.RShift: lambda: a >> b, ast.BitOr: lambda: a | b, ast.BitAnd: lambda: a & b, ast.BitXor: lambda: a ^ b}
        if type(node.op) not in ops:
            raise NotPure("binop")
        return _guard(ops[type(node.op)])
    if isinstance(node, ast.BoolOp):
        v = None
        for e in node.values:
            v = ev(e)
            if isinstance(node.op, ast.And) and not v:
                return v
            if isinstance(node.op, ast.Or) and v:
                return v
        return v
    if isinstance(node, ast.IfExp):
        return ev(node.body) if ev(node.test) else ev(node.orelse)
    if isinstance(node, ast.NamedExpr) and isinstance(node.target, ast.Name):
        v = ev(node.value)
        env[node.target.id] = v
        return v
    if isinstance(node, ast.Compare):
        left = ev(node.left)
        for op, rn in zip(node.ops, node.comparators):
            right = ev(rn)
            t = type(op)
            fn = {ast.Eq: lambda: left == right, ast.NotEq: lambda: left != right, ast.Lt: lambda: left < right,
                  ast.LtE: lambda: left <= right, ast.Gt: lambda: left > right, ast.GtE: lambda: left >= right,
                  ast.In: lambda: left in right, ast.NotIn: lambda: left not in right, ast.Is: lambda: left is right,
                  ast.IsNot: lambda: left is not right}[t]
            if not _guard(fn):
                return False
            left = right
        return True
    if isinstance(node, ast.Subscript):
        v = ev(node.value)
        if isinstance(node.slice, ast.Slice):
            lo = ev(node.slice.lower) if node.slice.lower else None
            hi = ev(node.slice.upper) if node.slice.upper else None
            st = ev(node.slice.step) if node.slice.step else None
            return _guard(lambda: v[lo:hi:st])
        k = ev(node.slice)
        return _guard(lambda: v[k])
    if isinstance(node, ast.JoinedStr):
        out = ""
        for v in node.values:
            if isinstance(v, ast.Constant):
                out += str(v.value)
            elif isinstance(v, ast.FormattedValue):
                val = ev(v.value)
                spec = ev(v.format_spec) if v.format_spec is not None else ""
                if v.conversion == ord("r"):
                    val = repr(val)
                elif v.conversion == ord("s"):
                    val = str(val)
                elif v.conversion != -1:
                    raise NotPure("fstring conversion")
                out += _guard(lambda: format(val, spec))
            else:
                raise NotPure("fstring")
        return out
    if isinstance(node, (ast.ListComp, ast.SetComp, ast.GeneratorExp, ast.DictComp)):
        return _comp(node, env, funcs)
    if isinstance(node, ast.Lambda):
        params = [a.arg for a in node.args.args]
        if node.args.vararg or node.args.kwarg or node.args.kwonlyargs or node.args.defaults:
            raise NotPure("lambda shape")

        def lam(*args, _p=params, _b=node.body):
            e2 = dict(env)
            e2.update(zip(_p, args))
            return peval(_b, e2, funcs)
        return lam
    if isinstance(node, ast.Call):
        if node.keywords and not (isinstance(node.func, ast.Attribute) and node.func.attr in ("encode", "decode", "to_bytes", "sub", "split", "subn")) \
                and not ((dotted(node.func) or "") in STDLIB) and not ((dotted(node.func) or "") in ("sorted", "min", "max", "enumerate", "int", "dict", "sum", "str", "bytes")) \
                and not ((dotted(node.func) or "") in funcs) and not (callable(env.get(dotted(node.func) or "", None))) \
                and not (isinstance(node.func, ast.Attribute) and isinstance(node.func.value, (ast.Name, ast.Attribute, ast.Call))):
            raise NotPure("keywords in call " + src(node))
        kw = {k.arg: ev(k.value) for k in node.keywords if k.arg}
        fn = dotted(node.func)
        args = []
        for a in node.args:
            if isinstance(a, ast.Starred):
                args.extend(ev(a.value))
            else:
                args.append(ev(a))
        if fn is not None and fn in funcs:
            return _guard(lambda: funcs[fn](*args, **kw))
        if fn is not None and fn in STDLIB and fn not in env:
            if fn.startswith("re.") and fn != "re.escape" and fn != "re.compile" and len(args) > 1 and callable(args[1]) \
                    and getattr(args[1], "__name__", "") not in ("lam", "_interp"):
                raise NotPure("callable replacement")
            return _guard(lambda: STDLIB[fn](*args, **kw))
        if fn is not None and fn in env and callable(env[fn]):
            return _guard(lambda: env[fn](*args, **kw))
        if fn == "map" and len(args) == 2 and callable(args[0]):
            return _guard(lambda: [args[0](x) for x in args[1]])
        if fn in _BUILTINS:
            if fn == "isinstance":
                ok = args[1] if isinstance(args[1], tuple) else (args[1],)
                if not all(isinstance(t, type) for t in ok):
                    raise NotPure("isinstance class")
            if fn in ("range",) and args and max(abs(int(x)) for x in args) > 1 << 20:
                raise NotPure("range too large")
            if fn == "next" and node.args and isinstance(node.args[0], ast.GeneratorExp) and isinstance(args[0], (list, tuple)):
                args = [iter(args[0])] + list(args[1:])       # generator expressions are evaluated eagerly; next(<genexp>, default) takes its first item
            return _guard(lambda: _BUILTINS[fn](*args, **kw))
        if isinstance(node.func, ast.Attribute) and (isinstance(node.func.value, (ast.Name, ast.Attribute)) or
                                                   (isinstance(node.func.value, ast.Call) and not any(isinstance(x, ast.Attribute) and x.attr in ("pop", "popleft") for x in ast.walk(node.func.value)))):
            try:
                recv0 = ev(node.func.value)
            except NotPure:
                recv0 = None
            if isinstance(recv0, Model):
                return _guard(lambda: getattr(recv0, node.func.attr)(*args, **kw))
            if isinstance(node.func.value, ast.Call) and recv0 is not None and not isinstance(recv0, Model):
                # receiver already evaluated once: continue with the value, never evaluate the call twice
                node = ast.Call(func=ast.Attribute(value=ast.Constant(value=recv0), attr=node.func.attr, ctx=ast.Load()), args=node.args, keywords=node.keywords)
                fn = None
        if isinstance(node.func, ast.Attribute) and node.func.attr == "pop" and not kw:
            recv = ev(node.func.value)
            if isinstance(recv, (list, collections.deque)) and not (isinstance(recv, collections.deque) and args):     # local work-list of the evaluated block
                return _guard(lambda: recv.pop(*args))
        if fn is None and not isinstance(node.func, ast.Attribute):
            target = ev(node.func)
            if callable(target) and getattr(target, "__name__", "") in ("lam", "<lambda>", "_interp"):
                return _guard(lambda: target(*args))
        if isinstance(node.func, ast.Attribute):
            try:
                robj = ev(node.func.value) if not any(isinstance(x, ast.Call) and isinstance(x.func, ast.Attribute) and x.func.attr in ("pop", "next")
                                                      for x in ast.walk(node.func.value)) else None
            except NotPure:
                robj = None
            for typ, allowed in _OBJECT_METHODS.items():
                if isinstance(robj, typ) and node.func.attr in allowed:
                    if args and callable(args[0]) and getattr(args[0], "__name__", "") not in ("lam", "_interp"):
                        raise NotPure("callable replacement")
                    return _guard(lambda: getattr(robj, node.func.attr)(*args, **kw))
        if isinstance(node.func, ast.Attribute) and node.func.attr in _PURE_METHODS:
            recv = ev(node.func.value)
            if isinstance(recv, (str, bytes, bytearray, tuple, list, dict, set, frozenset, int)):
                if node.func.attr in ("encode", "decode"):
                    codec = (args[0] if args else kw.get("encoding", "utf-8"))
                    if not isinstance(codec, str) or codec.lower() in _FORBIDDEN_CODECS:
                        raise NotPure("codec under test: " + str(codec))
                return _guard(lambda: getattr(recv, node.func.attr)(*args, **kw))
        raise NotPure("call " + src(node.func))
    raise NotPure(type(node).__name__)


def _np(what):
    raise NotPure(what)


def _small(a, b):
    for x, y in ((a, b), (b, a)):
        if isinstance(x, int) and not isinstance(x, bool) and isinstance(y, (str, bytes, list, tuple)) and x > 1 << 16:
            return False
    return True


def _guard(fn):
    try:
        v = fn()
        if isinstance(v, (map, zip, enumerate, reversed, filter)) or type(v).__name__ in ("generator", "dict_items", "dict_keys", "dict_values"):
            v = list(v)
        return v
    except (NotPure, Raised, AnalysisError):
        raise
    except Exception as e:  # the evaluated expression raises in Python too
        raise Raised(e)


def _elts(elts, ev):
    for e in elts:
        if isinstance(e, ast.Starred):
            yield from ev(e.value)
        else:
            yield ev(e)


def _bind(target, value, env):
    if isinstance(target, ast.Name):
        env[target.id] = value
    elif isinstance(target, ast.Attribute) and dotted(target) is not None:
        base = None
        if dotted(target) not in env:
            try:
                base = peval(target.value, env)
            except (NotPure, Raised):
                base = None
        if isinstance(base, Model):
            setattr(base, target.attr, value)          # attribute of an interpreted instance of a private class
        else:
            env[dotted(target)] = value
    elif isinstance(target, ast.Subscript) and isinstance(target.slice, ast.Slice):
        try:
            cont = peval(target.value, env)
            lo = peval(target.slice.lower, env) if target.slice.lower else None
            hi = peval(target.slice.upper, env) if target.slice.upper else None
        except Raised as e:
            raise NotPure("slice target raises: " + str(e))
        if not isinstance(cont, (list, bytearray)) or target.slice.step is not None:
            raise NotPure("slice target container")
        cont[lo:hi] = list(value)
    elif isinstance(target, ast.Subscript) and not isinstance(target.slice, ast.Slice):
        try:
            cont = peval(target.value, env)
            key = peval(target.slice, env)
        except Raised as e:
            raise NotPure("subscript target raises: " + str(e))
        if not isinstance(cont, (dict, list)):
            raise NotPure("subscript target container")
        cont[key] = value
    elif isinstance(target, (ast.Tuple, ast.List)):
        vals = list(value)
        if len(vals) != len(target.elts):
            raise Raised(ValueError("unpack"))
        for t, v in zip(target.elts, vals):
            _bind(t, v, env)
    else:
        raise NotPure("binding target " + src(target))


def _comp(node, env, funcs):
    results = []

    def rec(i, e):
        if i == len(node.generators):
            if isinstance(node, ast.DictComp):
                results.append((peval(node.key, e, funcs), peval(node.value, e, funcs)))
            else:
                results.append(peval(node.elt, e, funcs))
            return
        g = node.generators[i]
        if g.is_async:
            raise NotPure("async comprehension")
        it = peval(g.iter, e, funcs)
        n = 0
        for v in it:
            n += 1
            if n > 1 << 17:
                raise NotPure("comprehension too large")
            e2 = dict(e)
            _bind(g.target, v, e2)
            if all(peval(c, e2, funcs) for c in g.ifs):
                rec(i + 1, e2)
    rec(0, dict(env))
    if isinstance(node, ast.ListComp):
        return results
    if isinstance(node, ast.SetComp):
        return set(results)
    if isinstance(node, ast.DictComp):
        return dict(results)
    return results  # generator: materialised


def module_env(mod, funcs=None, names: Optional[Iterable[str]] = None) -> Dict[str, object]:
    """Module-level constants evaluable with peval, in order (later ones may use earlier ones); whitelisted stdlib
    callables imported by name are bound too."""
    env: Dict[str, object] = import_env(mod)
    stack = list(mod.tree.body)
    while stack:
        st = stack.pop(0)
        if isinstance(st, (ast.If, ast.Try)):
            stack = list(st.body) + stack
            continue
        tgt = val = None
        if isinstance(st, ast.Assign) and len(st.targets) == 1:
            tgt, val = st.targets[0], st.value
        elif isinstance(st, ast.AnnAssign) and st.value is not None:
            tgt, val = st.target, st.value
        if tgt is None:
            continue
        try:
            v = peval(val, env, funcs)
            if callable(v):
                continue
            _bind(tgt, v, env)
        except (NotPure, Raised):
            continue
    return env


_VM_DUNDERS = ("__repr__", "__str__", "__eq__", "__ne__", "__len__", "__bool__", "__iter__", "__contains__", "__getitem__", "__hash__")


def make_vm_class(node: ast.ClassDef, funcs, env0):
    """A python class standing for a *private* class of the analysed module: instances carry real attributes, methods are interpreted
    from the AST with ``self`` bound to the instance (class-level constants are evaluated on demand).  Only base-less classes."""
    if any(src(b) != "object" for b in node.bases) or node.keywords:
        raise NotPure(f"class {node.name} has base classes: instances not modelled")
    methods = {m.name: m for m in node.body if isinstance(m, ast.FunctionDef)}

    def call_method(inst, fn, args, kw):
        params = [a.arg for a in fn.args.args]
        local = dict(env0)
        local[params[0]] = inst
        rest = params[1:]
        if len(args) > len(rest):
            raise Raised(TypeError(f"{fn.name}() takes {len(rest)} arguments"))
        local.update(zip(rest, args))
        defaults = fn.args.defaults
        for i, pn in enumerate(rest[len(args):], start=len(args)):
            if pn in kw:
                local[pn] = kw[pn]
                continue
            di = len(defaults) - (len(rest) - i)
            if di < 0:
                raise Raised(TypeError(f"{fn.name}() missing argument {pn}"))
            local[pn] = peval(defaults[di], dict(env0), funcs)
        r = eval_block(fn.body, local, funcs=funcs)
        if r.raised:
            raise Raised(RuntimeError(r.raised))
        is_gen = any(isinstance(n, (ast.Yield, ast.YieldFrom)) for n in walk_local(fn))
        return list(r.out) if is_gen else r.value

    def bound(inst, fn):
        def _interp(*a, **kw):
            return call_method(inst, fn, a, kw)
        _interp.__name__ = "_interp"
        _interp.method_name = fn.name
        return _interp

    def __getattr__(self, name):
        if name in methods:
            return bound(self, methods[name])
        for st in node.body:
            if isinstance(st, ast.Assign) and any(isinstance(t, ast.Name) and t.id == name for t in st.targets) and name != "__slots__":
                return peval(st.value, dict(env0), funcs)
            if isinstance(st, ast.AnnAssign) and isinstance(st.target, ast.Name) and st.target.id == name and st.value is not None:
                return peval(st.value, dict(env0), funcs)
        raise AttributeError(name)

    def __init__(self, *a, **kw):
        if "__init__" in methods:
            call_method(self, methods["__init__"], a, kw)
        elif a or kw:
            raise TypeError(f"{node.name}() takes no arguments")
    body = {"__getattr__": __getattr__, "__init__": __init__, "_vm_node": node}
    for d in _VM_DUNDERS:
        if d in methods:
            body[d] = (lambda fn: (lambda self, *a: call_method(self, fn, a, {})))(methods[d])
    return type(node.name, (Model,), body)


def is_memoiser(dec) -> bool:
    """``@lru_cache`` / ``@lru_cache(...)`` / ``@cache`` (bare or through ``functools.``)."""
    d = dec.func if isinstance(dec, ast.Call) else dec
    return src(d) in ("lru_cache", "functools.lru_cache", "cache", "functools.cache")


def _memoised(fn, registry):
    """Model of functools.lru_cache around an interpreted helper: results are remembered under the call's arguments, compared the way a
    dict compares keys (== and hash - so 0.0 and -0.0, 1 and 1.0 and True are one key; distinct NaN objects are distinct keys).
    Eviction (maxsize) is not modelled: a remembered answer stays remembered."""
    cache = {}
    registry.append(cache)

    def _interp(*args, **kw):
        key = (args, tuple(sorted(kw.items())))
        try:
            hit = key in cache
        except TypeError as ex:
            raise Raised(ex)
        if hit:
            return cache[key]
        v = fn(*args, **kw)
        cache[key] = v
        return v
    _interp.method_name = getattr(fn, "method_name", None)
    return _interp


class FollowModule(dict):
    """``funcs`` mapping that, besides the explicit models it is created with, resolves any other module-level function of
    ``mod`` by interpreting its AST (``interp``): the evaluator follows calls to sibling helpers instead of refusing them."""

    def __init__(self, mod, models=None, env0=None):
        super().__init__(models or {})
        self._mod = mod
        self._env0 = env0 if env0 is not None else {}
        self._busy = set()
        self._memo_caches = []

    def reset_caches(self):
        """Forget what the memoised (``@lru_cache`` / ``@cache``) helpers have remembered - the state of a fresh process."""
        for c in self._memo_caches:
            c.clear()

    def _func(self, name):
        if not isinstance(name, str) or "." in name:
            return None
        for st in self._mod.tree.body:
            if isinstance(st, ast.FunctionDef) and st.name == name and (not st.decorator_list or all(is_memoiser(d) for d in st.decorator_list)):
                return st
        return None

    def _class(self, name):
        if not isinstance(name, str) or "." in name:
            return None
        for st in self._mod.tree.body:
            if isinstance(st, ast.ClassDef) and st.name == name and not st.decorator_list and name.startswith("_"):
                return st
        return None

    def _const(self, name):
        """a module-level ``name = <expr>`` that the plain module environment could not evaluate (e.g. a table of module functions)"""
        if not isinstance(name, str) or "." in name or name in self._env0 or name in self._busy:
            return None
        try:
            return self._mod.module_assign(name)
        except Exception:
            return None

    def __contains__(self, name):
        return dict.__contains__(self, name) or self._func(name) is not None or self._class(name) is not None or self._const(name) is not None

    def __getitem__(self, name):
        if dict.__contains__(self, name):
            return dict.__getitem__(self, name)
        f = self._func(name)
        if f is None and self._class(name) is not None:
            cls = make_vm_class(self._class(name), self, self._env0)
            dict.__setitem__(self, name, cls)
            return cls
        if f is None:
            v = self._const(name)
            if v is None:
                raise KeyError(name)
            self._busy.add(name)
            try:
                val = peval(v, dict(self._env0), self)
            finally:
                self._busy.discard(name)
            dict.__setitem__(self, name, val)
            return val
        fn = interp(f, self, self._env0)
        if f.decorator_list:
            fn = _memoised(fn, self._memo_caches)
        dict.__setitem__(self, name, fn)
        return fn

    def get(self, name, default=None):
        return self[name] if name in self else default


class _Scope(dict):
    """Environment of one interpreted method call: a private copy for locals, while every ``self.<attr>`` entry is read from and written
    to the shared environment of the evaluated object - so a helper called from a helper sees and leaves the same instance state."""

    def __init__(self, shared):
        super().__init__(shared)
        self._shared = shared

    @staticmethod
    def _is_attr(k):
        return isinstance(k, str) and k.startswith("self.")

    def __getitem__(self, k):
        if self._is_attr(k):
            return self._shared[k]
        return dict.__getitem__(self, k)

    def __contains__(self, k):
        return (k in self._shared) if self._is_attr(k) else dict.__contains__(self, k)

    def get(self, k, default=None):
        if self._is_attr(k):
            return self._shared.get(k, default)
        return dict.get(self, k, default)

    def __setitem__(self, k, v):
        if self._is_attr(k):
            self._shared[k] = v
        dict.__setitem__(self, k, v)

    def pop(self, k, *default):
        if self._is_attr(k):
            self._shared.pop(k, None)
        return dict.pop(self, k, *default)

    def __delitem__(self, k):
        if self._is_attr(k):
            self._shared.pop(k, None)
        dict.__delitem__(self, k)


class _ClassTable(dict):
    """A class-level dict of the class's own functions, evaluated for one environment (its entries forward to that environment's bound methods)."""


def bind_methods(env: Dict[str, object], classes, funcs=None, skip: Iterable[str] = (), only_missing: bool = True) -> Dict[str, object]:
    """Bind ``self.<method>`` of the given ClassDef nodes (bases first, most derived last) in the live environment ``env`` as
    callables that interpret the method body: locals are private to the call, ``self.*`` entries are shared (written back), so an
    evaluated method can call its private helpers as if they were inlined.  Entries already present (models) win."""
    skip = set(skip)
    preset = set(env)

    def make(fn):
        params = [a.arg for a in fn.args.args][1:]
        defaults = fn.args.defaults
        gen_flag = []

        def _interp(*args, **kw):
            if not gen_flag:
                gen_flag.append(any(isinstance(n, (ast.Yield, ast.YieldFrom)) for n in walk_local(fn)))
            is_gen = gen_flag[0]
            local = _Scope(env)        # locals are private; `self.*` entries live in the one shared environment (also across nested helper calls)
            vals = list(args)
            names = params[:len(vals)]
            for k, v in kw.items():
                if k not in params:
                    raise AnalysisError(f"method {fn.name}: unexpected keyword {k}")
            rest = params[len(vals):]
            for i, pn in enumerate(rest):
                if pn in kw:
                    local[pn] = kw[pn]
                else:
                    di = len(defaults) - (len(params) - params.index(pn))
                    if di < 0:
                        raise AnalysisError(f"method {fn.name}: missing argument {pn}")
                    local[pn] = peval(defaults[di], dict(env), funcs)
            local.update(zip(names, vals))
            r = eval_block(fn.body, local, funcs=funcs)
            if r.raised:
                raise Raised(RuntimeError(r.raised))
            return list(r.out) if is_gen else r.value
        _interp.__name__ = "_interp"
        _interp.method_name = fn.name
        return _interp
    for c in classes:
        for st in c.body:
            if isinstance(st, ast.FunctionDef) and st.name not in skip and not any(isinstance(d, ast.Name) and d.id in ("property", "staticmethod", "classmethod") for d in st.decorator_list):
                key = "self." + st.name
                if only_missing and key in preset:
                    continue
                env[key] = make(st)
    # class-level tables that hold the class's own functions (``_handlers = {TAG: _tagReceived, ...}``): the plain functions are
    # called with the instance passed explicitly, ``handler(self, ...)`` - modelled by forwarding to the bound interpretation
    for c in classes:
        own = {st.name for st in c.body if isinstance(st, ast.FunctionDef)}
        for st in c.body:
            if not (isinstance(st, ast.Assign) and len(st.targets) == 1 and isinstance(st.targets[0], ast.Name)):
                continue
            key = "self." + st.targets[0].id
            mentioned = {n.id for n in ast.walk(st.value) if isinstance(n, ast.Name) and n.id in own and ("self." + n.id) in env}
            if (key in env and not isinstance(env[key], _ClassTable)) or not mentioned or not isinstance(st.value, ast.Dict):
                continue

            def unbound(name):
                def _interp(_self, *a, **kw):
                    return env["self." + name](*a, **kw)
                _interp.method_name = name
                return _interp
            local = {k: v for k, v in env.items() if isinstance(k, str)}
            local.update({n: unbound(n) for n in mentioned})
            try:
                env[key] = _ClassTable(peval(st.value, local, funcs))      # rebuilt when copied into another environment and bound again
            except (NotPure, Raised):
                pass
    return env


def class_env(classes, env: Dict[str, object], funcs=None, prefix: str = "self.") -> Dict[str, object]:
    """Class-level constants (``name = <pure expr>``, e.g. a precompiled regex) of the given ClassDef nodes - base classes
    first, most derived last - as ``{"self.name": value}`` on top of ``env`` (a copy is returned)."""
    out = dict(env)
    for c in classes:
        local = dict(out)
        for st in c.body:
            tgt = val = None
            if isinstance(st, ast.Assign) and len(st.targets) == 1 and isinstance(st.targets[0], ast.Name):
                tgt, val = st.targets[0].id, st.value
            elif isinstance(st, ast.AnnAssign) and isinstance(st.target, ast.Name) and st.value is not None:
                tgt, val = st.target.id, st.value
            if tgt is None:
                continue
            try:
                v = peval(val, local, funcs)
            except (NotPure, Raised):
                continue
            if callable(v) and not isinstance(v, type):
                continue
            local[tgt] = v
            out[prefix + tgt] = v
    return out


# ---- loop-free block evaluation -------------------------------------------------------------------------

# calls that only report (logging / warnings): no effect on the evaluated behaviour, skipped as statements
_DIAGNOSTIC_CALLS = {"log.msg", "log.err", "log.deferr", "warnings.warn", "warnings.warn_explicit", "print", "logger.debug", "logger.info", "logger.warning", "logger.error"}


class BlockResult:
    def __init__(self):
        self.out: List[object] = []       # values handed to the (unnamed) sink, in order
        self.named: Dict[str, List[object]] = {}   # values handed to named sinks: sink() returned (name, kind)
        self.returned = False
        self.value = None
        self.raised: Optional[str] = None  # text of a `raise` statement reached
        self.flow: Optional[str] = None    # "continue" / "break"
        self.calls: List[Tuple[str, tuple]] = []   # other recorded calls (dotted name, args)


def eval_block(stmts: Sequence[ast.stmt], env: Dict[str, object], sink: Callable[[ast.Call], Optional[str]] = None,
               funcs=None, record: Iterable[str] = (), ignore: Iterable[str] = (), res: Optional[BlockResult] = None) -> BlockResult:
    """Evaluate a loop-free block for the concrete ``env`` (mutated in place).

    ``sink(call)`` classifies an expression-statement call: "append" (one value: args[0]), "extend" (iterable
    args[0]) or None.  ``x += expr`` on a name for which ``sink`` was given the AugAssign returns "extend".
    Calls whose dotted name is in ``record`` are stored with their evaluated arguments; calls in ``ignore`` are skipped.
    Anything else is an AnalysisError (shape not recognised) - never a verdict."""
    res = res or BlockResult()
    record, ignore = set(record), set(ignore)
    for st in stmts:
        if res.returned or res.raised or res.flow:
            break
        if isinstance(st, (ast.Pass, ast.Import, ast.ImportFrom)) or (isinstance(st, ast.Expr) and isinstance(st.value, ast.Constant)):
            continue
        if isinstance(st, ast.Assign):
            v = _pe(st.value, env, funcs)
            for t in st.targets:
                _bind_or_err(t, v, env)
        elif isinstance(st, ast.AnnAssign) and st.value is not None:
            _bind_or_err(st.target, _pe(st.value, env, funcs), env)
        elif isinstance(st, ast.AugAssign):
            kind = sink(st) if sink else None
            v = _pe(st.value, env, funcs)
            if kind:
                _emit(res, kind, v)
            elif (isinstance(st.target, ast.Name) and st.target.id in env) or (isinstance(st.target, ast.Attribute) and dotted(st.target) in env):
                key = st.target.id if isinstance(st.target, ast.Name) else dotted(st.target)
                cur = env[key]
                if isinstance(cur, (list, bytearray, collections.deque)) and isinstance(st.op, ast.Add):
                    try:
                        cur.extend(v)           # in-place, exactly as `list += iterable`
                    except TypeError as e:
                        raise BlockRaised(f"statement raises during finite evaluation: {src(st)[:80]}", e)
                else:
                    binop = ast.BinOp(left=ast.Constant(value=cur), op=st.op, right=ast.Constant(value=v))
                    env[key] = _pe(binop, env, funcs)
            elif isinstance(st.target, ast.Attribute) and isinstance(_attr_base(st.target, env, funcs), Model):
                base = _attr_base(st.target, env, funcs)
                cur = getattr(base, st.target.attr)
                if isinstance(cur, (list, bytearray, collections.deque)) and isinstance(st.op, ast.Add):
                    cur.extend(v)
                else:
                    setattr(base, st.target.attr, _pe(ast.BinOp(left=ast.Constant(value=cur), op=st.op, right=ast.Constant(value=v)), env, funcs))
            elif isinstance(st.target, ast.Subscript):
                cont = _pe(st.target.value, env, funcs)
                k = _pe(st.target.slice, env, funcs) if not isinstance(st.target.slice, ast.Slice) else None
                if k is None or not isinstance(cont, (list, dict, bytearray)):
                    raise AnalysisError("block evaluation: unsupported augmented assignment " + src(st))
                try:
                    cont[k] = _pe(ast.BinOp(left=ast.Constant(value=cont[k]), op=st.op, right=ast.Constant(value=v)), env, funcs)
                except (KeyError, IndexError) as e:
                    raise BlockRaised(f"statement raises during finite evaluation: {src(st)[:80]}", e)
            else:
                raise AnalysisError("block evaluation: unsupported augmented assignment " + src(st))
        elif isinstance(st, ast.If):
            if _pe(st.test, env, funcs):
                eval_block(st.body, env, sink, funcs, record, ignore, res)
            else:
                eval_block(st.orelse, env, sink, funcs, record, ignore, res)
        elif isinstance(st, ast.Return):
            res.returned = True
            if isinstance(st.value, ast.Call) and (dotted(st.value.func) or "") in record:
                res.calls.append((dotted(st.value.func), tuple(_pe(a, env, funcs) for a in st.value.args)))
                res.value = None
            else:
                res.value = _pe(st.value, env, funcs) if st.value is not None else None
        elif isinstance(st, ast.Raise):
            res.raised = src(st)
        elif isinstance(st, ast.Continue):
            res.flow = "continue"
        elif isinstance(st, ast.Break):
            res.flow = "break"
        elif isinstance(st, ast.Expr) and isinstance(st.value, ast.Yield):
            res.out.append(_pe(st.value.value, env, funcs) if st.value.value is not None else None)   # generator body: yielded values are the output
        elif isinstance(st, ast.Expr) and isinstance(st.value, ast.YieldFrom):
            res.out.extend(list(_pe(st.value.value, env, funcs)))
        elif isinstance(st, ast.FunctionDef) and not st.decorator_list:
            env[st.name] = interp(st, funcs, env)      # closure over the live environment (copied at call time)
        elif isinstance(st, ast.Expr) and isinstance(st.value, ast.Call):
            call = st.value
            kind = sink(call) if sink else None
            name = dotted(call.func) or src(call.func)
            if kind:
                _emit(res, kind, _pe(call.args[0], env, funcs))
            elif isinstance(call.func, ast.Attribute) and call.func.attr in ("append", "extend", "pop", "clear", "appendleft", "popleft") and not call.keywords \
                    and name not in record and name not in ignore and _is_local_list(call.func.value, env, funcs):
                recv = _pe(call.func.value, env, funcs)
                if not isinstance(recv, (list, bytearray, collections.deque)):
                    raise AnalysisError("block evaluation: unsupported call statement " + src(st))
                args = [_pe(a, env, funcs) for a in call.args]
                try:
                    getattr(recv, call.func.attr)(*args)
                except Exception as e:
                    raise BlockRaised(f"statement raises during finite evaluation: {src(st)[:80]} ({e!r})", e)
            elif name in record:
                res.calls.append((name, tuple(_pe(a, env, funcs) for a in call.args)))
            elif name in ignore or name in _DIAGNOSTIC_CALLS:
                continue
            elif not call.keywords and ((name in env and callable(env[name])) or (funcs is not None and name in funcs)):
                target = env[name] if (name in env and callable(env[name])) else funcs[name]
                args = [_pe(a, env, funcs) for a in call.args]
                try:
                    target(*args)            # a python model supplied by the checker (never repository code)
                except (AnalysisError, NotPure):
                    raise
                except Raised as e:
                    raise BlockRaised(f"statement raises during finite evaluation: {src(st)[:80]} ({e})", e.exc)
                except Exception as e:
                    raise BlockRaised(f"statement raises during finite evaluation: {src(st)[:80]} ({e!r})", e)
            else:
                try:
                    peval(call, env, funcs)      # a whitelisted pure / modelled call used as a statement (result discarded)
                except NotPure:
                    raise AnalysisError("block evaluation: unsupported call statement " + src(st))
                except Raised as e:
                    raise BlockRaised(f"statement raises during finite evaluation: {src(st)[:80]} ({e})", e.exc)
        elif isinstance(st, ast.Delete) and all(src(t) in ignore for t in st.targets):
            continue
        elif isinstance(st, ast.Delete) and all(isinstance(t, ast.Subscript) for t in st.targets):
            for t in st.targets:
                cont = _pe(t.value, env, funcs)
                if not isinstance(cont, (list, bytearray, dict)):
                    raise AnalysisError("block evaluation: unsupported delete " + src(st))
                if isinstance(t.slice, ast.Slice):
                    lo = _pe(t.slice.lower, env, funcs) if t.slice.lower else None
                    hi = _pe(t.slice.upper, env, funcs) if t.slice.upper else None
                    del cont[lo:hi]
                else:
                    try:
                        del cont[_pe(t.slice, env, funcs)]
                    except (KeyError, IndexError) as e:
                        raise BlockRaised(f"statement raises during finite evaluation: {src(st)[:80]}", e)
        elif isinstance(st, ast.Delete) and all(isinstance(t, (ast.Name, ast.Attribute)) and dotted(t) for t in st.targets):
            for t in st.targets:
                env.pop(dotted(t), None)
        elif isinstance(st, ast.For):
            try:
                items = iter(_pe(st.iter, env, funcs))     # lazily: the body may advance the same iterator
            except TypeError as e:
                raise BlockRaised(f"not iterable: {src(st.iter)[:60]}", e)
            broke = False
            n_iter = 0
            for it in items:
                n_iter += 1
                if n_iter > (1 << 20):
                    raise AnalysisError("block evaluation: loop too long")
                _bind_or_err(st.target, it, env)
                eval_block(st.body, env, sink, funcs, record, ignore, res)
                if res.flow == "continue":
                    res.flow = None
                if res.flow == "break":
                    res.flow = None
                    broke = True
                    break
                if res.returned or res.raised:
                    broke = True
                    break
            if not broke and st.orelse:
                eval_block(st.orelse, env, sink, funcs, record, ignore, res)
        elif isinstance(st, ast.While) and not st.orelse:
            n_iter = 0
            while _pe(st.test, env, funcs):
                n_iter += 1
                if n_iter > 20000:
                    raise AnalysisError("block evaluation: while loop does not terminate within the bound")
                eval_block(st.body, env, sink, funcs, record, ignore, res)
                if res.flow == "continue":
                    res.flow = None
                if res.flow == "break":
                    res.flow = None
                    break
                if res.returned or res.raised:
                    break
        elif isinstance(st, ast.Assert):
            if not _pe(st.test, env, funcs):
                res.raised = "raise AssertionError"
        elif isinstance(st, ast.Try) and not st.finalbody and not st.orelse:
            snap = (len(res.out), {k: len(v) for k, v in res.named.items()}, len(res.calls))
            try:
                eval_block(st.body, env, sink, funcs, record, ignore, res)
            except BlockRaised as br:
                del res.out[snap[0]:]
                for k in list(res.named):
                    del res.named[k][snap[1].get(k, 0):]
                del res.calls[snap[2]:]
                for h in st.handlers:
                    names = [dotted(e) for e in (h.type.elts if isinstance(h.type, ast.Tuple) else [h.type])] if h.type is not None else None
                    if names is None or type(br.exc).__name__ in names or any(n in ("Exception", "BaseException") for n in names) \
                            or any(n in [c.__name__ for c in type(br.exc).__mro__] for n in names):
                        if h.name:
                            env[h.name] = br.exc
                        eval_block(h.body, env, sink, funcs, record, ignore, res)
                        break
                else:
                    raise
        else:
            raise AnalysisError("block evaluation: unsupported statement " + src(st)[:80])
    return res


class BlockRaised(AnalysisError):
    """A pure expression of the evaluated block raises in Python; caught by a modelled ``try`` or reported as
    an analysis error (never a verdict) when it escapes."""

    def __init__(self, msg, exc):
        super().__init__(msg)
        self.exc = exc


def _emit(res, kind, v):
    name = None
    if isinstance(kind, tuple):
        name, kind = kind
    tgt = res.out if name is None else res.named.setdefault(name, [])
    if kind == "append":
        tgt.append(v)
    elif kind == "extend":
        tgt.extend(_units(v))
    else:
        raise AnalysisError(f"block evaluation: unknown sink kind {kind}")


def _attr_base(target, env, funcs):
    try:
        return peval(target.value, env, funcs)
    except (NotPure, Raised):
        return None


def _is_local_list(expr, env, funcs) -> bool:
    try:
        return isinstance(peval(expr, env, funcs), (list, bytearray, collections.deque))
    except NotPure:
        return False
    except Raised:
        return True   # evaluating the receiver raises (e.g. IndexError): let the caller surface it as BlockRaised


def interp(func: ast.AST, funcs=None, env0: Optional[Dict[str, object]] = None) -> Callable:
    """Python callable that evaluates a *loop-free or simply-looping pure* repository function with eval_block
    (positional parameters only).  The function body is interpreted from its AST; nothing is imported."""
    params = [a.arg for a in func.args.args]
    defaults = func.args.defaults
    is_generator = any(isinstance(n, (ast.Yield, ast.YieldFrom)) for n in walk_local(func))

    def _interp(*args):
        env = dict(env0 or {})
        vals = list(args)
        if len(vals) < len(params):
            need = len(params) - len(vals)
            ds = defaults[len(defaults) - need:] if need <= len(defaults) else None
            if ds is None:
                raise AnalysisError(f"interp {func.name}: missing arguments")
            vals += [peval(d, dict(env0 or {}), funcs) for d in ds]
        env.update(zip(params, vals))
        r = eval_block(func.body, env, funcs=funcs)
        if r.raised:
            raise Raised(RuntimeError(r.raised))
        if is_generator:
            return list(r.out)
        return r.value
    _interp.__name__ = "_interp"
    return _interp


def _units(v):
    if isinstance(v, (bytes, bytearray)):
        return [bytes([x]) for x in v]
    return list(v)


def _pe(node, env, funcs):
    try:
        return peval(node, env, funcs)
    except NotPure as e:
        raise AnalysisError(f"expression not evaluable: {src(node)[:80]} ({e})")
    except Raised as e:
        raise BlockRaised(f"expression raises during finite evaluation: {src(node)[:80]} ({e})", e.exc)


def _bind_or_err(t, v, env):
    try:
        _bind(t, v, env)
    except NotPure as e:
        raise AnalysisError(f"block evaluation: {e}")


def flat_bytes(vals) -> bytes:
    out = b""
    for v in vals:
        if isinstance(v, int):
            v = bytes([v])
        elif isinstance(v, str):
            v = v.encode("latin-1")
        out += bytes(v)
    return out


# ---- misc AST helpers ------------------------------------------------------------------------------------

def words(alphabet: Sequence, max_len: int, min_len: int = 0):
    """All words over the alphabet with min_len <= length <= max_len (as tuples)."""
    for n in range(min_len, max_len + 1):
        yield from itertools.product(alphabet, repeat=n)


def local_const_env(func: ast.AST, env: Dict[str, object], funcs=None, skip: Iterable[str] = ()) -> Dict[str, object]:
    """Top-level ``name = <pure expr>`` bindings of a function body evaluated in order in ``env`` (copy)."""
    e = dict(env)
    skip = set(skip)
    for st in func.body:
        if isinstance(st, ast.Assign) and len(st.targets) == 1 and not (isinstance(st.targets[0], ast.Name) and st.targets[0].id in skip):
            try:
                _bind(st.targets[0], peval(st.value, e, funcs), e)
            except (NotPure, Raised):
                pass
    return e


def guards_hold(g, nid: int, env: Dict[str, object], funcs=None) -> Optional[bool]:
    """Conjunction of the atomic tests dominating CFG node ``nid`` evaluated in ``env``; tests that are not
    evaluable in env are skipped (treated as satisfiable).  Returns False as soon as one evaluable guard fails."""
    for t, lab in g.edge_guards(nid):
        try:
            v = bool(peval(g.node(t).ast, env, funcs))
        except (NotPure, Raised):
            continue
        if v != (lab == "T"):
            return False
    return True


def is_self_attr(node, name=None) -> bool:
    return isinstance(node, ast.Attribute) and isinstance(node.value, ast.Name) and node.value.id == "self" and (name is None or node.attr == name)


def fmt_bytes(vals, limit=6) -> str:
    vals = list(vals)
    s = ", ".join(repr(v) for v in vals[:limit])
    return s + (f", ... ({len(vals)} in all)" if len(vals) > limit else "")


# ---- rule kinds: domain arguments checked on the code, abstention of structural rules -------------------------------------

def kinded(rule: str, exhaustive: bool) -> str:
    """Name under which an evaluated rule reports: the plain name when the domain argument that makes the enumeration complete
    was established on the code (kind finite-exhaustive), else the name + " (bounded)" (declared kind bounded)."""
    return rule if exhaustive else rule + " (bounded)"


class Abstain(AnalysisError):
    """A structural rule does not recognise the shape it is written for."""


@contextlib.contextmanager
def structural(ctx, group: str, covered_by: str):
    """Run a group of structural rules; when the shape is not recognised the group abstains with a note naming the evaluated
    rule(s) that still cover the clause (never a violation, never an error)."""
    try:
        yield
    except AnalysisError as e:
        ctx.note(f"{group}: shape not recognised ({e}); clause left to {covered_by}")


def _atomic_tests(func):
    out = []

    def split(e):
        if isinstance(e, ast.BoolOp):
            for v in e.values:
                split(v)
        elif isinstance(e, ast.UnaryOp) and isinstance(e.op, ast.Not):
            split(e.operand)
        else:
            out.append(e)
    for n in walk_local(func):
        if isinstance(n, (ast.If, ast.While, ast.IfExp, ast.Assert)):
            split(n.test)
        elif isinstance(n, ast.comprehension):
            for c in n.ifs:
                split(c)
    return out


def _local_names(func):
    names = {a.arg for a in func.args.args} if hasattr(func, "args") else set()
    for n in walk_local(func):
        if isinstance(n, ast.Name) and isinstance(n.ctx, ast.Store):
            names.add(n.id)
    return names


_PURE_CALLS = {"len", "ord", "chr", "isinstance", "iterbytes", "bytes", "str", "int", "hasattr", "type", "nativeString", "networkString", "_matchingString", "enumerate", "iter", "next",
               "set", "frozenset", "map", "range", "tuple", "list", "dict", "sorted", "min", "max", "bytearray", "memoryview"}


def domain_argument(funcs: Sequence[ast.AST], inputs: Iterable[str], state: Iterable[str] = (), helpers: Iterable[str] = ()) -> Tuple[bool, str]:
    """Structural premise of an exhaustive enumeration: in the given functions every branch decision reads only the input unit(s),
    the declared state variables, values derived from them, and non-local constants (module constants, literals), through
    comparisons / membership / truthiness and whitelisted pure calls.  Then the behaviour depends only on (the class of the input
    w.r.t. the constants it is compared with) x (the state), and one representative per class x every state is a complete domain.
    Returns (holds, reason)."""
    inputs, state, helpers = set(inputs), set(state), set(helpers)
    for f in funcs:
        local = _local_names(f)
        derived = set(inputs) | set(state)
        changed = True
        while changed:                       # locals computed purely from inputs / state / constants are as good as inputs
            changed = False
            for st in walk_local(f):
                tgt = None
                if isinstance(st, ast.Assign) and len(st.targets) == 1:
                    tgt, val = st.targets[0], st.value
                elif isinstance(st, (ast.For, ast.comprehension)):
                    tgt, val = st.target, st.iter
                if tgt is None:
                    continue
                tnames = {n.id for n in ast.walk(tgt) if isinstance(n, ast.Name)}
                reads = {n.id for n in ast.walk(val) if isinstance(n, ast.Name) and isinstance(n.ctx, ast.Load)}
                if tnames and not tnames <= derived and all(r in derived or r not in local for r in reads):
                    if all(isinstance(c.func, ast.Name) and (c.func.id in _PURE_CALLS or c.func.id in helpers) or isinstance(c.func, ast.Attribute)
                           for c in ast.walk(val) if isinstance(c, ast.Call)):
                        derived |= tnames
                        changed = True
        for t in _atomic_tests(f):
            reads = {n.id for n in ast.walk(t) if isinstance(n, ast.Name) and isinstance(n.ctx, ast.Load)}
            bad = [r for r in reads if r in local and r not in derived]
            if bad:
                return False, f"in {getattr(f, 'name', '?')} the test `{src(t)[:60]}` depends on `{bad[0]}`, which is neither the input unit nor declared state"
            for c in ast.walk(t):
                if isinstance(c, ast.Call):
                    nm = dotted(c.func) or ""
                    if isinstance(c.func, ast.Name) and nm not in _PURE_CALLS and nm not in helpers:
                        return False, f"in {getattr(f, 'name', '?')} the test `{src(t)[:60]}` calls `{nm}`"
    return True, "every branch decision reads only the input unit, the declared state and constants"


def reads_param_unitwise(funcs: Sequence[ast.AST], param: str) -> Tuple[bool, str]:
    """The sequence parameter is consumed unit by unit: it is only iterated (directly or through iterbytes/iter), measured with
    len(), or converted with bytes(); it is never indexed, sliced, searched or passed on whole to other code."""
    f = funcs[0]
    for n in walk_local(f):
        if isinstance(n, ast.Name) and n.id == param and isinstance(n.ctx, ast.Load):
            p = getattr(n, "_parent", None)
            ok = False
            if isinstance(p, (ast.For, ast.comprehension)) and p.iter is n:
                ok = True
            elif isinstance(p, ast.Call) and isinstance(p.func, ast.Name) and p.func.id in ("len", "iterbytes", "iter", "bytes", "bytearray", "memoryview") and n in p.args:
                ok = True
            if not ok:
                return False, f"`{param}` is used as `{src(p)[:60]}`, not only iterated / measured"
    return True, f"`{param}` is only iterated unit by unit and measured"
