"""throw-away: try ad-hoc edits: usage _try_h.py PROP  (reads edits from stdin as python list of (path, old, new))"""
import sys; sys.path.insert(0,'/verif')
from sa.check import run_once
from sa.report import load_known
from sa.selftest import apply_edit, Mutant
from sa.source import SourceTree, AnalysisError
prop=sys.argv[1]
edits=eval(sys.stdin.read())
known=load_known()
for i,(path,old,new) in enumerate(edits):
    try:
        ov=apply_edit(SourceTree(), Mutant(f"e{i}",path,old,new))
    except LookupError as e:
        print(i,'N/A',e); continue
    try:
        _,c=run_once(prop,'quick',overlay=ov,known=known)
        print(i, repr(new[:50]), '->', sorted({f.rule+' @ '+f.construct[-60:] for f in c.unlisted()})[:3])
    except AnalysisError as e:
        print(i,'ANALYSIS-ERROR',e)
