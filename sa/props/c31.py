"""C31 - AMP matches answers to questions and fails pending calls on disconnect."""
from __future__ import annotations

import ast
from typing import Dict, List, Optional, Tuple

from sa.astx import call_attr, call_name, const_eval, dotted, module_consts, src, statements, walk_local
from sa.effects import accesses, module_accesses
from sa.props._lib_g import is_self_attr, must_pass, single_defs
from sa.selftest import Mutant, Silent
from sa.source import AnalysisError

PROPERTY = "C31"
AMP = "protocols/amp.py"
Q = "twisted.protocols.amp"
TECHNIQUE = "take-then-fire, who-may-write and guard dominance on BoxDispatcher CFGs"
EXPLANATION = (
    'On the CFGs of BoxDispatcher: _answerReceived/_errorReceived detach the pending Deferred from '
    '_outstandingRequests (pop or read+del, keyed by box[ANSWER] / box[ERROR]) before their single callback/errback '
    'and fire it on every normal path, and ampBoxReceived routes ANSWER/ERROR/COMMAND boxes to the handler that reads '
    'the same key. failAllOutgoing records _failAllReason and resets _outstandingRequests before the first errback '
    'call-out, iterates a snapshot taken before the reset and errbacks every entry with the reason; '
    'BinaryBoxProtocol.connectionLost, AMP.connectionLost and stopReceivingBoxes reach it on every path. '
    '_sendBoxCommand returns fail(_failAllReason)/None before touching the box once the connection is lost, registers '
    'a fresh Deferred only when an answer is required, under the tag it put into box[ASK] (from a counter only '
    '_nextTag increments), sends on every live path and returns the registered Deferred. formatAnswer/formatError '
    'copy box[ASK] into ANSWER/ERROR, undeclared errors travel as UNKNOWN_ERROR_CODE and surface as '
    'UnknownRemoteError, declared ones go through Command.allErrors; only the listed functions mutate '
    '_outstandingRequests, _failAllReason and _counter. Not decided: schedules and interleavings, the synchronous '
    'loop-back case where an answer arrives before the Deferred is registered, responders that never answer.'
)
ASSUMPTIONS = [
    "Deferred.callback/errback deliver exactly one result (property C03)",
    "a peer sends at most one answer per tag (a duplicate answer raises KeyError in the receiver, it cannot fire a Deferred twice)",
]


def _fail(msg):
    raise AnalysisError("C31: " + msg)


def _not_failed_guard(g, n) -> bool:
    for t, lab in g.edge_guards(n):
        s = src(g.node(t).ast)
        if (s == "self._failAllReason is not None" and lab == "F") or (s == "self._failAllReason is None" and lab == "T") or (s == "self._failAllReason" and lab == "F"):
            return True
    return False


def _failed_tests(g) -> List[Tuple[int, str]]:
    """(test node, label of the 'connection already lost' edge)."""
    out = []
    for t in g.ids(lambda n: n.kind == "test"):
        s = src(g.node(t).ast)
        if s in ("self._failAllReason is not None", "self._failAllReason"):
            out.append((t, "T"))
        elif s == "self._failAllReason is None":
            out.append((t, "F"))
    return out


def _subscript_key(node) -> Optional[str]:
    return src(node.slice) if isinstance(node, ast.Subscript) else None


# ------------------------------------------------------------------------------------------------------------------

def check_take_then_fire(ctx, fname: str, keyconst: str, fire: str):
    f = ctx.func(AMP, f"BoxDispatcher.{fname}")
    g = ctx.cfg(f)
    q = f"{Q}.BoxDispatcher.{fname}"
    box = f.args.args[1].arg
    want_key = f"{box}[{keyconst}]"
    defs = single_defs(f)
    acc = accesses(f, fname, {"_outstandingRequests"}, {"self"}, include_reads=True)
    detach = [a for a in acc if a.kind in ("pop_key", "delitem")]
    detach_nodes = sorted({n for a in detach for n in g.ids_of(a.node)})
    # fire sites: .callback/.errback on a local that comes out of _outstandingRequests
    fires = []
    for c in ast.walk(f):
        if isinstance(c, ast.Call) and isinstance(c.func, ast.Attribute) and c.func.attr in ("callback", "errback") and isinstance(c.func.value, ast.Name):
            d = defs.get(c.func.value.id)
            if d is not None and any(is_self_attr(x, "_outstandingRequests") for x in ast.walk(d)):
                fires.append((c, d))
    ctx.check(len(fires) == 1 and fires[0][0].func.attr == fire, "match/fires-once", q + " | <fire>",
              f"{fname} contains {len(fires)} callback/errback sites on the pending Deferred (exactly one `{fire}` is required: each call gets one result)")
    if not fires:
        return
    for c, d in fires:
        fnodes = g.ids_of(c)
        # where does the Deferred come from, and under which key
        if isinstance(d, ast.Call) and call_name(d) == "self._outstandingRequests.pop":
            key = src(d.args[0]) if d.args else None
        elif isinstance(d, ast.Subscript) and is_self_attr(d.value, "_outstandingRequests"):
            key = _subscript_key(d)
        elif isinstance(d, ast.Call) and call_name(d) == "self._outstandingRequests.get" and d.args:
            key = src(d.args[0])
        else:
            key = None
        ctx.check(key == want_key, "match/own-tag", ctx.construct(q, d),
                  f"the pending Deferred is looked up under `{key}`; the tag of this box is `{want_key}` (the answer would fire another call's Deferred)")
        wit = g.must_precede(detach_nodes, fnodes) if detach_nodes else [g.entry]
        ctx.check(bool(detach_nodes) and wit is None, "match/take-before-fire", q + " | <pending Deferred>",
                  "the pending Deferred is fired while still registered in _outstandingRequests: a duplicate answer or the connection loss "
                  "(failAllOutgoing) fires it a second time", witness=g.describe(wit) if detach_nodes else "no pop/del of _outstandingRequests in this function")
        for a in detach:
            k = src(a.node.args[0]) if isinstance(a.node, ast.Call) and a.node.args else \
                next((_subscript_key(t) for t in getattr(a.node, "targets", []) if isinstance(t, ast.Subscript)), None)
            ctx.check(k == want_key, "match/own-tag", ctx.construct(q, a.node), f"the entry removed from _outstandingRequests is `{k}`, the tag of this box is `{want_key}`")
        # every normal path from the detach reaches the fire
        wit = must_pass(g, detach_nodes, fnodes) if detach_nodes else None
        ctx.check(wit is None, "match/fires-once", q + " | <fire on every path>", "the Deferred can be removed from the table without being fired (the call never completes)",
                  witness=g.describe(wit))
        # not in a loop: no path from the fire back to itself
        again = [p for n in fnodes for p in [g.path([n], [n], strict=True, edge_ok=lambda a, b, l: l != "exc")] if p]
        ctx.check(not again, "match/fires-once", q + " | <fire not repeated>", "the fire site can execute twice in one call")
    if fire == "callback":
        c = fires[0][0]
        ctx.check(len(c.args) == 1 and src(c.args[0]) == box, "match/result-is-the-box", ctx.construct(q, c), "the call's Deferred is not fired with the answer box itself")
    else:
        c = fires[0][0]
        ok = len(c.args) == 1 and isinstance(c.args[0], ast.Call) and call_name(c.args[0]) == "Failure" and len(c.args[0].args) == 1
        ctx.check(ok, "match/error-from-box", ctx.construct(q, c), "the call's Deferred is not errbacked with Failure(<exception built from the error box>)")
        if ok:
            ev = c.args[0].args[0]
            srcs = [st for st in statements(f) if isinstance(st, ast.Assign) and any(isinstance(t, ast.Name) and t.id == src(ev) for t in st.targets)]
            ok2 = bool(srcs) and all(isinstance(st.value, ast.Call) and st.value.args and src(st.value.args[0]) in ("errorCode", f"{box}[ERROR_CODE]") for st in srcs)
            codes = [st for st in statements(f) if isinstance(st, ast.Assign) and any(isinstance(t, ast.Name) and t.id == "errorCode" for t in st.targets)]
            ok3 = all(src(st.value) == f"{box}[ERROR_CODE]" for st in codes)
            ctx.check(ok2 and ok3, "match/error-from-box", q + " | <error code>", "the exception delivered to the caller is not built from the box's ERROR_CODE")


def check_dispatch(ctx):
    f = ctx.func(AMP, "BoxDispatcher.ampBoxReceived")
    g = ctx.cfg(f)
    q = Q + ".BoxDispatcher.ampBoxReceived"
    box = f.args.args[1].arg
    want = {"ANSWER": "_answerReceived", "ERROR": "_errorReceived", "COMMAND": "_commandReceived"}
    found: Dict[str, str] = {}
    for key, handler in want.items():
        calls = g.find(lambda x, h=handler: isinstance(x, ast.Call) and call_name(x) == f"self.{h}")
        ctx.check(len(calls) == 1, "dispatch/table", q + f" | {key}", f"self.{handler}(box) is called from {len(calls)} places of ampBoxReceived")
        for n in calls:
            gs = [(src(g.node(t).ast), lab) for t, lab in g.edge_guards(n)]
            ctx.check((f"{key} in {box}", "T") in gs, "dispatch/table", q + f" | {key}",
                      f"{handler} is not reached exactly for boxes containing the {key} key (guards: {gs})")
            call = next(x for x in walk_local(g.node(n).ast) if isinstance(x, ast.Call) and call_name(x) == f"self.{handler}")
            ctx.check([src(a) for a in call.args] == [box], "dispatch/table", q + f" | {key} argument", f"{handler} is not given the received box")
    raises = g.ids(lambda n: n.kind == "stmt" and isinstance(n.ast, ast.Raise))
    ok = bool(raises) and all({(f"{k} in {box}", "F") for k in want} <= {(src(g.node(t).ast), lab) for t, lab in g.edge_guards(r)} for r in raises)
    ctx.check(ok, "dispatch/table", q + " | <none of the keys>", "a box with none of ANSWER/ERROR/COMMAND is not refused (NoEmptyBoxes)")


def check_fail_all(ctx):
    f = ctx.func(AMP, "BoxDispatcher.failAllOutgoing")
    g = ctx.cfg(f)
    q = Q + ".BoxDispatcher.failAllOutgoing"
    reason = f.args.args[1].arg
    callouts = g.find(lambda x: isinstance(x, ast.Call) and call_attr(x) == "errback")
    ctx.check(bool(callouts), "drain/errbacks-all", q, "failAllOutgoing never errbacks anything")
    rec = g.ids(lambda n: n.kind == "stmt" and isinstance(n.ast, ast.Assign) and any(is_self_attr(t, "_failAllReason") for t in n.ast.targets) and src(n.ast.value) == reason)
    reset = g.ids(lambda n: n.kind == "stmt" and isinstance(n.ast, ast.Assign) and any(is_self_attr(t, "_outstandingRequests") for t in n.ast.targets)
                  and isinstance(n.ast.value, ast.Constant) and n.ast.value.value is None)
    wit = g.must_precede(rec, callouts) if rec else [g.entry]
    ctx.check(bool(rec) and wit is None, "drain/reason-recorded-first", q + " | self._failAllReason",
              "an errback runs before _failAllReason is recorded: a callRemote made from that errback is sent on the dead connection and never fails",
              witness=g.describe(wit) if rec else "")
    wit = g.must_precede(reset, callouts) if reset else [g.entry]
    ctx.check(bool(reset) and wit is None, "drain/table-reset-first", q + " | self._outstandingRequests = None",
              "an errback runs while the Deferreds are still registered: a re-entrant failAllOutgoing/answer fires them a second time",
              witness=g.describe(wit) if reset else "_outstandingRequests is not reset to None")
    wit = must_pass(g, [g.entry], rec) if rec else None
    ctx.check(bool(rec) and wit is None, "drain/reason-recorded-first", q + " | <every path>", "failAllOutgoing can return without recording the reason (later calls would hang)",
              witness=g.describe(wit))
    # snapshot
    loops = [st for st in f.body if isinstance(st, ast.For)]
    if len(loops) != 1:
        _fail("failAllOutgoing: the errback loop was not found")
    loop = loops[0]
    defs = single_defs(f)
    it = loop.iter
    snap_node = None
    if isinstance(it, ast.Name) and it.id in defs:
        d = defs[it.id]
        snap_stmt = next(st for st in statements(f) if isinstance(st, ast.Assign) and st.value is d)
        snap_node = g.ids_of(snap_stmt)
        itx = d
    else:
        itx = it
    inner = itx
    while isinstance(inner, ast.Call) and call_name(inner) in ("list", "tuple", "sorted") and inner.args:
        inner = inner.args[0]
    kind = call_name(inner) if isinstance(inner, ast.Call) else None
    ctx.check(kind in ("self._outstandingRequests.items", "self._outstandingRequests.values"), "drain/errbacks-all", q + " | <snapshot>",
              f"the loop iterates over `{src(itx)}`, not over all pending requests")
    if snap_node:
        wit = g.must_precede(snap_node, reset)
        ctx.check(wit is None, "drain/errbacks-all", q + " | <snapshot before reset>", "the pending requests are read after the table was reset", witness=g.describe(wit))
    else:
        # iterating self._outstandingRequests directly: the reset must not precede the loop head
        heads = g.ids_of(loop)
        p = g.must_precede(heads, reset)
        ctx.check(p is None, "drain/errbacks-all", q + " | <snapshot before reset>", "the table is reset before it is iterated", witness=g.describe(p))
    # each entry errbacked with the reason
    tgt = loop.target
    val = tgt.elts[1].id if (kind or "").endswith(".items") and isinstance(tgt, ast.Tuple) and len(tgt.elts) == 2 and isinstance(tgt.elts[1], ast.Name) else (tgt.id if isinstance(tgt, ast.Name) else None)
    body_calls = [c for st in loop.body for c in ast.walk(st) if isinstance(c, ast.Call) and call_attr(c) == "errback"]
    ok = len(body_calls) == 1 and val is not None and src(body_calls[0].func.value) == val and [src(a) for a in body_calls[0].args] == [reason] \
        and body_calls[0] in [getattr(st, "value", None) for st in loop.body]
    ctx.check(ok, "drain/errbacks-all", q + " | <each entry>", "not every pending Deferred is errbacked (unconditionally) with the connection-loss reason")


def check_send(ctx):
    f = ctx.func(AMP, "BoxDispatcher._sendBoxCommand")
    g = ctx.cfg(f)
    q = Q + ".BoxDispatcher._sendBoxCommand"
    params = [a.arg for a in f.args.args]
    if len(params) < 4:
        _fail("_sendBoxCommand signature changed")
    _, command, box, req = params[:4]
    ft = _failed_tests(g)
    ctx.check(len(ft) >= 1, "send/late-call-refused", q + " | <connection-lost test>", "_sendBoxCommand does not test self._failAllReason: calls made after the connection "
              "is lost are sent into the void and their Deferred never fires")
    touches = g.ids(lambda n: n.kind in ("stmt", "test") and n.ast is not None and (
        any(isinstance(x, ast.Subscript) and isinstance(x.ctx, ast.Store) and src(x.value) == box for x in walk_local(n.ast)) or
        any(isinstance(x, ast.Call) and call_name(x) in (f"{box}._sendTo", "self._nextTag") for x in walk_local(n.ast)) or
        any(isinstance(x, ast.Subscript) and isinstance(x.ctx, ast.Store) and is_self_attr(x.value, "_outstandingRequests") for x in walk_local(n.ast))))
    ctx.need(touches, "box mutation / send / registration sites in _sendBoxCommand")
    for n in touches:
        ctx.check(_not_failed_guard(g, n), "send/late-call-refused", ctx.construct(q, g.node(n).ast),
                  "this statement runs although the connection is already lost (_failAllReason set): the box is modified/sent or a Deferred is registered "
                  "that nothing will ever fire", witness=g.describe(g.path([g.entry], [n])))
    for t, lab in ft:
        succ = [d for d, l in g.succ[t] if l == lab]
        reach = g.reach(succ, edge_ok=lambda a, b, l: l != "exc")
        rets = [i for i in reach if g.node(i).kind == "stmt" and isinstance(g.node(i).ast, ast.Return)]
        leak = g.path([x for x in succ if x not in rets], [g.exit], avoid=rets, edge_ok=lambda a, b, l: l != "exc")
        ctx.check(bool(rets) and leak is None, "send/late-call-refused", q + " | <lost: returns at once>", "the connection-lost branch falls through", witness=g.describe(leak))
        for r in rets:
            if _not_failed_guard(g, r):
                continue  # a return of the live path
            v = g.node(r).ast.value
            gs = {(src(g.node(tt).ast), ll) for tt, ll in g.edge_guards(r)}
            if isinstance(v, ast.IfExp) and src(v.test) in (req, f"not {req}"):
                yes, no = (v.body, v.orelse) if src(v.test) == req else (v.orelse, v.body)
                ok = isinstance(yes, ast.Call) and call_name(yes) == "fail" and [src(a) for a in yes.args] == ["self._failAllReason"] and isinstance(no, ast.Constant) and no.value is None
                ctx.check(ok, "send/late-call-fails-with-reason", ctx.construct(q, g.node(r).ast), "a call made after the connection is lost does not fail with the connection-loss reason")
            elif (req, "T") in gs:
                ok = isinstance(v, ast.Call) and call_name(v) == "fail" and [src(a) for a in v.args] == ["self._failAllReason"]
                ctx.check(ok, "send/late-call-fails-with-reason", ctx.construct(q, g.node(r).ast), "a call made after the connection is lost does not fail with the connection-loss reason")
            elif (req, "F") in gs:
                ctx.check(v is None or (isinstance(v, ast.Constant) and v.value is None), "send/late-call-fails-with-reason", ctx.construct(q, g.node(r).ast),
                          "a no-answer call after connection loss must return None")
            else:
                ok = isinstance(v, ast.Call) and call_name(v) == "fail" and [src(a) for a in v.args] == ["self._failAllReason"]
                ctx.check(ok, "send/late-call-fails-with-reason", ctx.construct(q, g.node(r).ast), "a call made after the connection is lost does not fail with the connection-loss reason")
    # registration
    regs = g.ids(lambda n: n.kind == "stmt" and isinstance(n.ast, ast.Assign) and any(isinstance(t, ast.Subscript) and is_self_attr(t.value, "_outstandingRequests") for t in n.ast.targets))
    ctx.check(len(regs) == 1, "send/registers-own-tag", q + " | <registration>", f"{len(regs)} registration sites in _sendBoxCommand (exactly one expected)")
    asks = g.ids(lambda n: n.kind == "stmt" and isinstance(n.ast, ast.Assign) and any(isinstance(t, ast.Subscript) and src(t.value) == box and src(t.slice) == "ASK" for t in n.ast.targets))
    ctx.check(len(asks) == 1, "send/registers-own-tag", q + " | box[ASK]", f"box[ASK] is assigned at {len(asks)} places")
    defs = single_defs(f)
    for r in regs:
        st = g.node(r).ast
        key = next(src(t.slice) for t in st.targets if isinstance(t, ast.Subscript))
        ctx.check(g.guarded(r, lambda e: src(e) == req, True), "send/registers-iff-answer-required", ctx.construct(q, st),
                  "a Deferred is registered although no answer was requested (it would stay pending until disconnect)")
        ctx.check(isinstance(st.value, ast.Call) and call_name(st.value) == "Deferred" and not st.value.args, "send/registers-own-tag", ctx.construct(q, st) + " | value",
                  "the registered object is not a fresh Deferred()")
        for a in asks:
            av = src(g.node(a).ast.value)
            ctx.check(av == key, "send/registers-own-tag", ctx.construct(q, st) + " | key", f"the Deferred is registered under `{key}` but the question is tagged box[ASK] = `{av}`")
            ctx.check(g.guarded(a, lambda e: src(e) == req, True), "send/registers-iff-answer-required", ctx.construct(q, g.node(a).ast),
                      "the box asks for an answer although requiresAnswer is false")
            tagdef = defs.get(av)
            ctx.check(tagdef is not None and isinstance(tagdef, ast.Call) and call_name(tagdef) == "self._nextTag", "send/fresh-tag", ctx.construct(q, g.node(a).ast) + " | tag",
                      f"the tag `{av}` does not come from a single self._nextTag() call of this invocation")
        # the Deferred returned is the registered one
        names = {t.id for t in st.targets if isinstance(t, ast.Name)}
        rets = [i for i in g.reach([r], edge_ok=lambda a, b, l: l != "exc") if g.node(i).kind == "stmt" and isinstance(g.node(i).ast, ast.Return)]
        ok = bool(rets) and all(isinstance(g.node(i).ast.value, ast.Name) and g.node(i).ast.value.id in names for i in rets)
        if ok:
            # not reassigned between the registration and the return
            rew = g.ids(lambda n: n.kind == "stmt" and n.id != r and isinstance(n.ast, ast.Assign) and any(isinstance(t, ast.Name) and t.id in names for t in n.ast.targets))
            ok = g.path([r], rew, edge_ok=lambda a, b, l: l != "exc") is None
        ctx.check(ok, "send/returns-registered-deferred", ctx.construct(q, st) + " | return", "the Deferred handed to the caller is not the one registered for the tag")
    # the send itself, on every live path
    sends = g.find(lambda x: isinstance(x, ast.Call) and call_name(x) == f"{box}._sendTo")
    live = [d for t, lab in ft for d, l in g.succ[t] if l in ("T", "F") and l != lab]
    wit = must_pass(g, live, sends) if sends and live else None
    ctx.check(bool(sends) and wit is None, "send/sends-the-box", q + " | <send>", "a live _sendBoxCommand can return without sending the box", witness=g.describe(wit))
    cmds = g.ids(lambda n: n.kind == "stmt" and isinstance(n.ast, ast.Assign) and any(isinstance(t, ast.Subscript) and src(t.value) == box and src(t.slice) == "COMMAND" for t in n.ast.targets)
                 and src(n.ast.value) == command)
    wit = g.must_precede(cmds, sends) if cmds else [g.entry]
    ctx.check(bool(cmds) and wit is None, "send/sends-the-box", q + " | box[COMMAND]", "the box is sent without its COMMAND key", witness=g.describe(wit) if cmds else "")
    wit = g.must_precede(asks, sends, exc=False) if asks else None
    # (only when an answer is required: the path through requiresAnswer-true)
    for s in sends:
        for a in asks:
            t_req = [t for t, lab in g.edge_guards(a) if src(g.node(t).ast) == req and lab == "T"]
            starts = [d for t in t_req for d, l in g.succ[t] if l == "T" and d != a]
            p = g.path(starts, [s], avoid=[a], edge_ok=lambda x, y, l: l != "exc") if starts else None
            ctx.check(p is None, "send/registers-own-tag", q + " | <ASK before send>", "the box can be sent without its ASK tag although an answer is required", witness=g.describe(p))

    # _nextTag
    f2 = ctx.func(AMP, "BoxDispatcher._nextTag")
    incs = [st for st in statements(f2) if isinstance(st, ast.AugAssign) and is_self_attr(st.target, "_counter")]
    ok = len(incs) == 1 and isinstance(incs[0].op, ast.Add) and isinstance(incs[0].value, ast.Constant) and isinstance(incs[0].value.value, int) and incs[0].value.value > 0
    g2 = ctx.cfg(f2)
    rets = g2.ids(lambda n: n.kind == "stmt" and isinstance(n.ast, ast.Return))
    ok2 = ok and bool(rets) and g2.must_precede([n for st in incs for n in g2.ids_of(st)], rets) is None and \
        all(any(is_self_attr(x, "_counter") for x in ast.walk(g2.node(r).ast)) for r in rets)
    ctx.check(ok2, "send/fresh-tag", Q + ".BoxDispatcher._nextTag", "_nextTag does not return a value derived from a counter it has just incremented (tags could repeat)")


def check_who_may_write(ctx, mod):
    allowed = {
        "_outstandingRequests": {("BoxDispatcher.__init__", "rebind-empty"), ("BoxDispatcher._sendBoxCommand", "setitem"), ("BoxDispatcher._answerReceived", "pop_key"),
                                 ("BoxDispatcher._answerReceived", "delitem"), ("BoxDispatcher._errorReceived", "pop_key"), ("BoxDispatcher._errorReceived", "delitem"),
                                 ("BoxDispatcher.failAllOutgoing", "assign")},
        "_failAllReason": {("BoxDispatcher.failAllOutgoing", "assign")},
        "_counter": {("BoxDispatcher._nextTag", "augassign")},
    }
    acc = module_accesses(mod, set(allowed), receivers=None)
    n = 0
    for a in acc:
        n += 1
        ctx.check((a.func, a.kind) in allowed[a.attr] and a.recv == "self", "state/who-may-write", ctx.construct(f"{Q}.{a.func}", a.node),
                  f"{a.recv}.{a.attr} is modified here ({a.kind}); only {sorted(allowed[a.attr])} may do that - a pending call could be dropped, re-registered or outlive the connection")
    ctx.floor("state/who-may-write", n, 5)


def check_drain(ctx):
    for qual, pred, what in (
        ("BinaryBoxProtocol.connectionLost", lambda x: isinstance(x, ast.Call) and call_attr(x) == "stopReceivingBoxes" and len(x.args) == 1, "self.boxReceiver.stopReceivingBoxes(reason)"),
        ("AMP.connectionLost", lambda x: isinstance(x, ast.Call) and call_attr(x) == "connectionLost" and (
            (call_name(x) == "BinaryBoxProtocol.connectionLost" and len(x.args) == 2 and src(x.args[0]) == "self") or
            (isinstance(x.func.value, ast.Call) and call_name(x.func.value) == "super" and len(x.args) == 1)), "BinaryBoxProtocol.connectionLost(self, reason)"),
        ("BoxDispatcher.stopReceivingBoxes", lambda x: isinstance(x, ast.Call) and call_name(x) == "self.failAllOutgoing" and len(x.args) == 1, "self.failAllOutgoing(reason)"),
    ):
        f = ctx.func(AMP, qual)
        g = ctx.cfg(f)
        sites = g.find(pred)
        wit = must_pass(g, [g.entry], sites) if sites else [g.entry]
        ctx.check(bool(sites) and wit is None, "drain/reaches-fail-all", f"{Q}.{qual}", f"{qual} can return without calling {what}: pending callRemote Deferreds never fire after the connection is lost",
                  witness=g.describe(wit) if sites else "")
    f = ctx.func(AMP, "BoxDispatcher.stopReceivingBoxes")
    c = next((x for x in ast.walk(f) if isinstance(x, ast.Call) and call_name(x) == "self.failAllOutgoing"), None)
    ctx.check(c is not None and [src(a) for a in c.args] == [f.args.args[1].arg], "drain/reaches-fail-all", f"{Q}.BoxDispatcher.stopReceivingBoxes | reason",
              "the connection-loss reason is not passed on to failAllOutgoing")


def check_error_mapping(ctx, consts):
    f = ctx.func(AMP, "BoxDispatcher._commandReceived")
    q = Q + ".BoxDispatcher._commandReceived"
    box = f.args.args[1].arg
    fa = ctx.func(AMP, "BoxDispatcher._commandReceived.formatAnswer")
    fe = ctx.func(AMP, "BoxDispatcher._commandReceived.formatError")
    # formatAnswer
    ab = fa.args.args[0].arg
    sets = [st for st in statements(fa) if isinstance(st, ast.Assign) and any(isinstance(t, ast.Subscript) and src(t.value) == ab and src(t.slice) == "ANSWER" for t in st.targets)]
    ga = ctx.cfg(fa)
    ok = len(sets) == 1 and src(sets[0].value) == f"{box}[ASK]" and must_pass(ga, [ga.entry], ga.ids_of(sets[0])) is None and \
        all(isinstance(st.value, ast.Name) and st.value.id == ab for st in statements(fa) if isinstance(st, ast.Return))
    ctx.check(ok, "reply/carries-the-question-tag", q + ".formatAnswer", "the answer box is not tagged ANSWER = box[ASK] of the question it answers (the caller would match it to another call or to none)")
    # formatError
    ge = ctx.cfg(fe)
    rets = ge.ids(lambda n: n.kind == "stmt" and isinstance(n.ast, ast.Return))
    ctx.need(rets, "return in formatError")
    ebs = {src(ge.node(r).ast.value) for r in rets}
    ctx.check(len(ebs) == 1, "reply/carries-the-question-tag", q + ".formatError | <returned box>", f"formatError returns {sorted(ebs)}")
    eb = sorted(ebs)[0]
    for key, want in (("ERROR", f"{box}[ASK]"), ("ERROR_CODE", None), ("ERROR_DESCRIPTION", None)):
        sets = ge.ids(lambda n, key=key: n.kind == "stmt" and isinstance(n.ast, ast.Assign) and any(isinstance(t, ast.Subscript) and src(t.value) == eb and src(t.slice) == key for t in n.ast.targets))
        wit = must_pass(ge, [ge.entry], sets) if sets else [ge.entry]
        ok = bool(sets) and wit is None and (want is None or all(src(ge.node(s).ast.value) == want for s in sets))
        ctx.check(ok, "reply/carries-the-question-tag" if key == "ERROR" else "reply/error-box-complete", q + f".formatError | {key}",
                  f"the error box does not always carry {key}" + (f" = {want}" if want else ""), witness=ge.describe(wit) if sets else "")
    # undeclared errors -> UNKNOWN
    code_sets = ge.ids(lambda n: n.kind == "stmt" and isinstance(n.ast, ast.Assign) and any(isinstance(t, ast.Name) and t.id == "code" for t in n.ast.targets))
    code_name = None
    ecs = [ge.node(n).ast for n in ge.ids(lambda n: n.kind == "stmt" and isinstance(n.ast, ast.Assign) and any(isinstance(t, ast.Subscript) and src(t.slice) == "ERROR_CODE" for t in n.ast.targets))]
    if ecs and isinstance(ecs[0].value, ast.Name):
        code_name = ecs[0].value.id
    unknown = [n for n in ge.ids(lambda n: n.kind == "stmt" and isinstance(n.ast, ast.Assign) and any(isinstance(t, ast.Name) and t.id == code_name for t in n.ast.targets))
               if ge.guarded(n, lambda e: src(e).endswith(".check(RemoteAmpError)"), False)]
    ok = bool(unknown) and all(src(ge.node(n).ast.value) == "UNKNOWN_ERROR_CODE" for n in unknown) and consts.get("UNKNOWN_ERROR_CODE") == b"UNKNOWN"
    ctx.check(ok, "reply/undeclared-error-is-unknown", q + ".formatError | <not a RemoteAmpError>",
              "an undeclared responder error is not reported to the caller with UNKNOWN_ERROR_CODE")
    known = [n for n in ge.ids(lambda n: n.kind == "stmt" and isinstance(n.ast, ast.Assign) and any(isinstance(t, ast.Name) and t.id == code_name for t in n.ast.targets))
             if ge.guarded(n, lambda e: src(e).endswith(".check(RemoteAmpError)"), True)]
    ok = bool(known) and all(src(ge.node(n).ast.value).endswith(".value.errorCode") for n in known)
    ctx.check(ok, "reply/declared-error-keeps-code", q + ".formatError | <RemoteAmpError>", "a declared error does not travel with its own error code")
    # wiring in _commandReceived
    g = ctx.cfg(f)
    wires = g.find(lambda x: isinstance(x, ast.Call) and call_attr(x) == "addCallbacks" and [src(a) for a in x.args] == ["formatAnswer", "formatError"])
    emits = g.find(lambda x: isinstance(x, ast.Call) and call_attr(x) == "addCallback" and [src(a) for a in x.args] == ["self._safeEmit"])
    ok = len(wires) == 1 and len(emits) == 1 and all(g.guarded(n, lambda e: src(e) == f"ASK in {box}", True) for n in wires + emits) and g.must_precede(wires, emits) is None
    ctx.check(ok, "reply/sent-iff-asked", q, "the formatted answer/error is not sent back exactly when the question carries an ASK tag")
    wit = must_pass(g, [d for t in g.ids(lambda n: n.kind == "test" and src(n.ast) == f"ASK in {box}") for d, l in g.succ[t] if l == "T"], emits) if emits else None
    ctx.check(wit is None, "reply/sent-iff-asked", q + " | <every asked path>", "a question with an ASK tag may get no reply", witness=g.describe(wit))

    # caller side: undeclared -> UnknownRemoteError ; declared through allErrors
    fm = ctx.func(AMP, "Command._doCommand._massageError")
    gets = [c for c in ast.walk(fm) if isinstance(c, ast.Call) and call_name(c) == "self.reverseErrors.get"]
    ok = len(gets) == 1 and len(gets[0].args) == 2 and src(gets[0].args[0]).endswith(".errorCode") and src(gets[0].args[1]) == "UnknownRemoteError"
    ctx.check(ok, "reply/undeclared-error-is-unknown", Q + ".Command._doCommand._massageError",
              "an error code that the command did not declare is not turned into UnknownRemoteError for the caller")
    fd = ctx.func(AMP, "Command._doCommand")
    gd = ctx.cfg(fd)
    adds = gd.find(lambda x: isinstance(x, ast.Call) and call_attr(x) == "addErrback" and [src(a) for a in x.args] == ["_massageError"])
    sends = [c for c in ast.walk(fd) if isinstance(c, ast.Call) and call_attr(c) == "_sendBoxCommand"]
    ok = len(adds) == 1 and gd.guarded(adds[0], lambda e: src(e) == "self.requiresAnswer", True) and len(sends) == 1 and len(sends[0].args) == 3 and src(sends[0].args[2]) == "self.requiresAnswer" \
        and src(sends[0].args[0]) == "self.commandName"
    ctx.check(ok, "reply/undeclared-error-is-unknown", Q + ".Command._doCommand", "_doCommand does not attach _massageError to the Deferred of its own _sendBoxCommand(self.commandName, ..., self.requiresAnswer)")
    fk = ctx.func(AMP, "CommandLocator._wrapWithSerialization.doit.checkKnownErrors")
    traps = [c for c in ast.walk(fk) if isinstance(c, ast.Call) and call_attr(c) == "trap"]
    ok = len(traps) == 1 and len(traps[0].args) == 1 and isinstance(traps[0].args[0], ast.Starred) and src(traps[0].args[0].value) == "command.allErrors"
    codes = [st for st in statements(fk) if isinstance(st, ast.Assign) and isinstance(st.value, ast.Subscript) and src(st.value.value) == "command.allErrors"]
    ctx.check(ok and len(codes) == 1, "reply/declared-error-keeps-code", Q + ".CommandLocator._wrapWithSerialization.doit.checkKnownErrors",
              "declared responder errors are not translated through command.allErrors (undeclared ones must pass through untouched)")


def check(ctx):
    mod = ctx.mod(AMP)
    consts = module_consts(mod)
    with ctx.section("_answerReceived"):
        check_take_then_fire(ctx, "_answerReceived", "ANSWER", "callback")
    with ctx.section("_errorReceived"):
        check_take_then_fire(ctx, "_errorReceived", "ERROR", "errback")
    with ctx.section("ampBoxReceived dispatch"):
        check_dispatch(ctx)
    with ctx.section("failAllOutgoing"):
        check_fail_all(ctx)
    with ctx.section("_sendBoxCommand"):
        check_send(ctx)
    with ctx.section("who-may-write"):
        check_who_may_write(ctx, mod)
    with ctx.section("connection-loss drain"):
        check_drain(ctx)
    with ctx.section("error mapping"):
        check_error_mapping(ctx, consts)


MUTANTS = [
    Mutant("answer-read-not-popped", AMP, "        question = self._outstandingRequests.pop(box[ANSWER])\n", "        question = self._outstandingRequests[box[ANSWER]]\n",
           expect_rule="match/take-before-fire"),
    Mutant("error-popped-after-fire", AMP, "        question = self._outstandingRequests.pop(box[ERROR])\n", "        question = self._outstandingRequests[box[ERROR]]\n",
           more=[(AMP, "        question.errback(Failure(exc))\n", "        question.errback(Failure(exc))\n        del self._outstandingRequests[box[ERROR]]\n")],
           expect_rule="match/take-before-fire"),
    Mutant("error-looked-up-by-code", AMP, "        question = self._outstandingRequests.pop(box[ERROR])\n", "        question = self._outstandingRequests.pop(box[ERROR_CODE])\n",
           expect_rule="match/own-tag"),
    Mutant("table-not-reset-on-disconnect", AMP, "        self._outstandingRequests = None  # we can never send another request\n", "", expect_rule="drain/table-reset-first"),
    Mutant("reason-recorded-after-errbacks", AMP, "        self._failAllReason = reason\n        OR = self._outstandingRequests.items()\n", "        OR = self._outstandingRequests.items()\n",
           more=[(AMP, "        for key, value in OR:\n            value.errback(reason)\n", "        for key, value in OR:\n            value.errback(reason)\n        self._failAllReason = reason\n")],
           expect_rule="drain/reason-recorded-first"),
    Mutant("late-no-answer-call-falls-through", AMP, "                return fail(self._failAllReason)\n            else:\n                return None\n", "                return fail(self._failAllReason)\n",
           expect_rule="send/late-call-refused"),
    Mutant("late-call-fails-with-generic-error", AMP, "                return fail(self._failAllReason)\n", "                return fail(ConnectionLost())\n", expect_rule="send/late-call-fails-with-reason"),
    Mutant("registered-under-command-name", AMP, "            result = self._outstandingRequests[tag] = Deferred()\n", "            result = self._outstandingRequests[command] = Deferred()\n",
           expect_rule="send/registers-own-tag"),
    Mutant("stop-receiving-skipped-when-switched", AMP, "        self.boxReceiver.stopReceivingBoxes(failReason)\n", "        if self.innerProtocol is None:\n            self.boxReceiver.stopReceivingBoxes(failReason)\n",
           expect_rule="drain/reaches-fail-all"),
    Mutant("undeclared-error-reported-unhandled", AMP, "                code = UNKNOWN_ERROR_CODE\n", "                code = UNHANDLED_ERROR_CODE\n", expect_rule="reply/undeclared-error-is-unknown"),
    Mutant("answer-tagged-with-command", AMP, "            answerBox[ANSWER] = box[ASK]\n", "            answerBox[ANSWER] = box[COMMAND]\n", expect_rule="reply/carries-the-question-tag"),
    Mutant("unknown-code-becomes-remote-error", AMP, "            errorType = self.reverseErrors.get(rje.errorCode, UnknownRemoteError)\n",
           "            errorType = self.reverseErrors.get(rje.errorCode, RemoteAmpError)\n", expect_rule="reply/undeclared-error-is-unknown"),
    Mutant("second-writer-clears-table", AMP, "    def unhandledError(self, failure):\n        \"\"\"\n        This is a terminal callback called after application code has had a\n",
           "    def unhandledError(self, failure):\n        \"\"\"\n        This is a terminal callback called after application code has had a\n".replace(
               "    def unhandledError(self, failure):\n", "    def _forget(self):\n        self._outstandingRequests.clear()\n\n    def unhandledError(self, failure):\n"),
           expect_rule="state/who-may-write"),
    Mutant("error-dispatched-as-answer", AMP, "        elif ERROR in box:\n            self._errorReceived(box)\n", "        elif ERROR in box:\n            self._answerReceived(box)\n", expect_rule="dispatch/table"),
]

SILENT = [
    Silent("read-then-del", AMP, "        question = self._outstandingRequests.pop(box[ANSWER])\n",
           "        question = self._outstandingRequests[box[ANSWER]]\n        del self._outstandingRequests[box[ANSWER]]\n"),
    Silent("snapshot-values-renamed", AMP, "        OR = self._outstandingRequests.items()\n", "        pending = list(self._outstandingRequests.values())\n",
           more=[(AMP, "        for key, value in OR:\n            value.errback(reason)\n", "        for d in pending:\n            d.errback(reason)\n")]),
    Silent("lost-test-inverted", AMP, "        if self._failAllReason is not None:\n            if requiresAnswer:\n                return fail(self._failAllReason)\n            else:\n                return None\n",
           "        if self._failAllReason is not None:\n            return fail(self._failAllReason) if requiresAnswer else None\n"),
    Silent("fail-all-reordered", AMP, "        self._failAllReason = reason\n        OR = self._outstandingRequests.items()\n", "        OR = self._outstandingRequests.items()\n        self._failAllReason = reason\n"),
]
